"""Specification side for the bag-of-cells rules (C03-C05), transcribed from TON's crypto/tl/boc.tlb and
crypto/vm/boc.cpp - independent of the code under analysis.

serialized_boc#b5ee9c72 has_idx:(## 1) has_crc32c:(## 1) has_cache_bits:(## 1) flags:(## 2) { flags = 0 }
  size:(## 3) { size <= 4 } off_bytes:(## 8) { off_bytes <= 8 } cells:(##(size * 8)) roots:(##(size * 8)) { roots >= 1 }
  absent:(##(size * 8)) { roots + absent <= cells } tot_cells_size:(##(off_bytes * 8)) root_list:(roots * ##(size * 8))
  index:has_idx?(cells * ##(off_bytes * 8)) cell_data:(tot_cells_size * [ uint8 ]) crc32c:has_crc32c?uint32 = BagOfCells;
serialized_boc_idx#68ff65f3 size:(## 8) { size <= 4 } off_bytes:(## 8) { off_bytes <= 8 } cells:(##(size * 8))
  roots:(##(size * 8)) { roots = 1 } absent:(##(size * 8)) { roots + absent <= cells } tot_cells_size:(##(off_bytes * 8))
  index:(cells * ##(off_bytes * 8)) cell_data:(tot_cells_size * [ uint8 ]) = BagOfCells;
serialized_boc_idx_crc32c#acc3a728 ... (same) crc32c:uint32 = BagOfCells;
cell: d1 d2 [hashes: n*32, depths: n*2 when d1 & 16; n = popcount(level mask)+1] data refs*size
"""
import hashlib

MAGIC = {'generic': bytes.fromhex('b5ee9c72'), 'idx': bytes.fromhex('68ff65f3'), 'idx_crc': bytes.fromhex('acc3a728')}


def crc32c(data: bytes) -> int:
    c = 0xFFFFFFFF
    for b in data:
        c ^= b
        for _ in range(8):
            c = (c >> 1) ^ 0x82F63B78 if c & 1 else c >> 1
    return c ^ 0xFFFFFFFF


_T = None


def crc32c_fast(data: bytes) -> bytes:
    global _T
    if _T is None:
        _T = []
        for i in range(256):
            c = i
            for _ in range(8):
                c = (c >> 1) ^ 0x82F63B78 if c & 1 else c >> 1
            _T.append(c)
    c = 0xFFFFFFFF
    for b in data:
        c = _T[(c ^ b) & 255] ^ (c >> 8)
    return (c ^ 0xFFFFFFFF).to_bytes(4, 'little')


class SCell:
    """specification-side cell: data bits as a '01' string, references to other SCells, exotic flag, level mask"""
    def __init__(self, bits, refs=(), exotic=False, mask=0, name=''):
        self.bits, self.refs, self.exotic, self.mask, self.name = bits, list(refs), exotic, mask, name

    def data_bytes(self):
        b = self.bits
        if len(b) % 8:
            b = b + '1' + '0' * (7 - len(b) % 8)
        return bytes(int(b[i:i + 8], 2) for i in range(0, len(b), 8))

    def d1(self, with_hashes=False):
        return len(self.refs) + 8 * self.exotic + 16 * with_hashes + 32 * self.mask

    def d2(self):
        n = len(self.bits)
        return n // 8 + (n + 7) // 8


def topo(roots, order='dfs'):
    """a valid cell order: every cell before the cells it references. order: 'dfs' | 'bfs-late' (another valid order)"""
    seen, post = set(), []

    def visit(c):
        if id(c) in seen:
            return
        seen.add(id(c))
        for r in (c.refs if order == 'dfs' else reversed(c.refs)):
            visit(r)
        post.append(c)
    for r in roots:
        visit(r)
    return list(reversed(post))


def encode(roots, magic='generic', size=None, off=None, has_idx=False, has_crc=False, cache_bits=False, with_hashes=False,
           order='dfs', root_order=None):
    """independent encoder exercising the encoder freedoms"""
    cells = topo(roots, order)
    index_of = {id(c): i for i, c in enumerate(cells)}
    n = len(cells)
    min_size = max(1, (n.bit_length() + 7) // 8)
    size = size or min_size
    assert size >= min_size
    body = []
    for c in cells:
        ser = bytes([c.d1(with_hashes), c.d2()])
        if with_hashes:
            k = bin(c.mask).count('1') + 1
            ser += b''.join(hashlib.sha256(b'h' + bytes([i]) + c.data_bytes()).digest() for i in range(k))
            ser += b''.join(bytes([0, i + 1]) for i in range(k))
        ser += c.data_bytes()
        for r in c.refs:
            ser += index_of[id(r)].to_bytes(size, 'big')
        body.append(ser)
    payload = b''.join(body)
    tot = len(payload)
    mult = 2 if cache_bits else 1
    min_off = max(1, ((tot * mult).bit_length() + 7) // 8)
    off = off or min_off
    assert off >= min_off
    out = bytearray(MAGIC[magic])
    if magic == 'generic':
        out.append((has_idx << 7) | (has_crc << 6) | (cache_bits << 5) | size)
    else:
        out.append(size)
        has_idx = True
        has_crc = magic == 'idx_crc'
    out.append(off)
    out += n.to_bytes(size, 'big')
    out += len(roots).to_bytes(size, 'big')
    out += (0).to_bytes(size, 'big')
    out += tot.to_bytes(off, 'big')
    if magic == 'generic':
        for r in roots:
            out += index_of[id(r)].to_bytes(size, 'big')
    if has_idx:
        acc = 0
        for ser in body:
            acc += len(ser)
            out += (acc * mult).to_bytes(off, 'big')
    out += payload
    if has_crc:
        out += crc32c_fast(bytes(out))
    return bytes(out), cells


# ---------------------------------------------------------------- strict decoder over a partially symbolic byte sequence
class Blob:
    """an opaque run of `n` bytes with identity `key`"""
    def __init__(self, n, key, term=None):
        self.n, self.key, self.term = n, key, term


class SpecError(Exception):
    pass


class Stream:
    """sequence of concrete bytes and opaque blobs with known lengths"""
    def __init__(self, items):
        self.items = items      # list of int (byte) | (Blob, offset-in-blob)
        self.pos = 0

    def __len__(self):
        return len(self.items)

    def take_concrete(self, n, what):
        if self.pos + n > len(self.items):
            raise SpecError(f'{what}: stream ends (need {n} bytes at {self.pos}, have {len(self.items) - self.pos})')
        xs = self.items[self.pos:self.pos + n]
        if any(not isinstance(x, int) for x in xs):
            raise SpecError(f'{what}: bytes at {self.pos} are not concrete')
        self.pos += n
        return bytes(xs)

    def take_uint(self, n, what):
        return int.from_bytes(self.take_concrete(n, what), 'big')

    def take_any(self, n, what):
        if self.pos + n > len(self.items):
            raise SpecError(f'{what}: stream ends')
        xs = self.items[self.pos:self.pos + n]
        self.pos += n
        return xs


def strict_decode(stream, crc_check=None):
    """strict serialized_boc (generic magic) decoder -> dict(header fields, cells=[(d1, d2, data items, ref indexes)], roots, index)"""
    s = stream
    if s.take_concrete(4, 'magic') != MAGIC['generic']:
        raise SpecError('magic is not b5ee9c72')
    fl = s.take_uint(1, 'flags')
    has_idx, has_crc, cache, flags, size = fl >> 7, (fl >> 6) & 1, (fl >> 5) & 1, (fl >> 3) & 3, fl & 7
    if flags:
        raise SpecError('flags != 0')
    if cache and not has_idx:
        raise SpecError('cache bits without an index')
    if not 1 <= size <= 4:
        raise SpecError(f'size {size} not in 1..4')
    off = s.take_uint(1, 'off_bytes')
    if not 1 <= off <= 8:
        raise SpecError(f'off_bytes {off} not in 1..8')
    cells = s.take_uint(size, 'cells')
    roots = s.take_uint(size, 'roots')
    absent = s.take_uint(size, 'absent')
    if roots < 1 or roots + absent > cells:
        raise SpecError('roots/absent/cells inconsistent')
    tot = s.take_uint(off, 'tot_cells_size')
    root_list = [s.take_uint(size, 'root') for _ in range(roots)]
    if any(r >= cells for r in root_list):
        raise SpecError('root index out of range')
    index = [s.take_uint(off, 'index entry') for _ in range(cells)] if has_idx else None
    start = s.pos
    out = []
    ends = []
    for ci in range(cells):
        d1 = s.take_uint(1, f'cell {ci} d1')
        d2 = s.take_uint(1, f'cell {ci} d2')
        r, exotic, hh, mask = d1 & 7, (d1 >> 3) & 1, (d1 >> 4) & 1, d1 >> 5
        if r > 4:
            raise SpecError(f'cell {ci}: {r} references')
        if hh:
            k = bin(mask).count('1') + 1
            s.take_any(k * 34, 'stored hashes')
        nbytes = (d2 + 1) // 2
        data = s.take_any(nbytes, f'cell {ci} data')
        refs = [s.take_uint(size, f'cell {ci} ref') for _ in range(r)]
        for x in refs:
            if x <= ci:
                raise SpecError(f'cell {ci} references cell {x}: references must point to later cells')
            if x >= cells:
                raise SpecError(f'cell {ci} references cell {x} >= {cells}')
        out.append((d1, d2, data, refs))
        ends.append(s.pos - start)
    if s.pos - start != tot:
        raise SpecError(f'tot_cells_size {tot} but cell data occupies {s.pos - start} bytes')
    # the level mask announced in d1 must be the one the content implies (DataCell::create): ordinary = OR of the children, pruned = its second
    # data byte, library = 0, Merkle proof/update = (children) >> 1.  Computed bottom-up (references point forward).
    masks = [None] * cells
    for ci in range(cells - 1, -1, -1):
        d1, d2, data, refs = out[ci]
        exotic = (d1 >> 3) & 1
        kids = [masks[x] for x in refs]
        if not exotic:
            m = 0
            for k in kids:
                m |= k
        else:
            t = data[0] if data and isinstance(data[0], int) else None
            if t == 1:
                m = data[1] if len(data) > 1 and isinstance(data[1], int) else None
            elif t == 2:
                m = 0
            elif t == 3:
                m = kids[0] >> 1 if kids else 0
            elif t == 4:
                m = (kids[0] | kids[1]) >> 1 if len(kids) > 1 else 0
            else:
                m = None
        if m is None:
            raise SpecError(f'cell {ci}: exotic cell of unknown type / undetermined level mask')
        if d1 >> 5 != m:
            raise SpecError(f'cell {ci}: d1 announces level mask {d1 >> 5:03b} but the content implies {m:03b}')
        masks[ci] = m
    if index is not None:
        want = [e * 2 if cache else e for e in ends]
        got = [(x & ~1) if cache else x for x in index]
        if got != want:
            raise SpecError(f'index {index[:6]} is not the cumulative end offsets {[w for w in want][:6]}' + (' (doubled: cache bits)' if cache else ''))
    crc_at = None
    if has_crc:
        crc_at = s.pos
        s.take_any(4, 'crc32c')
    if s.pos != len(s.items):
        raise SpecError(f'{len(s.items) - s.pos} bytes after the end')
    return dict(has_idx=has_idx, has_crc=has_crc, cache=cache, size=size, off=off, cells=out, roots=root_list, index=index, tot=tot, crc_at=crc_at)
