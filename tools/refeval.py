"""Evaluates a behaviour-preserving change (a refactoring / correct optimisation / correct hardening written by an independent sub-agent):
every claimed check must stay silent (exit 0) on it.

usage: refeval.py <src dir with patch.diff demo.py notes.md> <property id> <name> [--own]
steps (scratch git worktree of /repo under /tmp, removed afterwards): demo digest on the pristine tree; git apply; pinned test suite; demo digest
with the change (must be identical); then every claimed check (or only the property's own with --own) with VERIF_REPO=<worktree>.
writes /verif/seeded/neutral/<name>/{patch.diff, demo.py, notes.md, meta.json}"""
import json
import os
import shutil
import subprocess
import sys
import tempfile
import time
from concurrent.futures import ThreadPoolExecutor

VERIF = os.path.dirname(os.path.dirname(os.path.abspath(__file__)))
PY = '/venv/bin/python'


def sh(cmd, cwd=None, env=None, timeout=1800):
    r = subprocess.run(cmd, shell=True, cwd=cwd, env=env, capture_output=True, text=True, timeout=timeout)
    return r.returncode, r.stdout + r.stderr


def main():
    a = sys.argv[1:]
    own = '--own' in a
    a = [x for x in a if x != '--own']
    src, pid, name = a[:3]
    src = os.path.abspath(src)
    wt = tempfile.mkdtemp(prefix=f'refeval_{name}_', dir='/tmp')
    os.rmdir(wt)
    meta = dict(name=name, property=pid, kind='behaviour-preserving change; expected verdict: silent')
    try:
        rc, out = sh(f'git -C /repo worktree add -q --detach {wt} HEAD')
        if rc:
            print('worktree failed', out)
            return 2
        env = dict(os.environ, PYTHONPATH=wt, PYTHONDONTWRITEBYTECODE='1')
        demo = os.path.join(src, 'demo.py')
        rc0, out0 = sh(f'{PY} {demo}', cwd=wt, env=env)
        rc, out = sh(f'git apply {os.path.join(src, "patch.diff")}', cwd=wt)
        meta['applies'] = rc == 0
        if rc:
            meta['apply_error'] = out[-300:]
            print(name, 'DOES-NOT-APPLY', out[-200:])
            return 2
        rc, out = sh(f'{PY} -m pytest -q -p no:cacheprovider -x', cwd=wt, env=env)
        meta['tests_with_change'] = out.strip().splitlines()[-1] if out.strip() else ''
        meta['tests_pass'] = rc == 0
        rc1, out1 = sh(f'{PY} {demo}', cwd=wt, env=env)
        meta['demo_same_output'] = rc0 == 0 and rc1 == 0 and out0.strip() == out1.strip()
        meta['demo_tail'] = out1.strip().splitlines()[-2:]
        meta['confirmed'] = bool(meta['demo_same_output'] and meta['tests_pass'])
        pids = [pid] if own else [c['property_id'] for c in json.load(open(os.path.join(VERIF, 'MANIFEST.json')))['checks']]

        def one(p):
            outd = tempfile.mkdtemp(prefix='refout_', dir='/tmp')
            t0 = time.time()
            rc, out = sh(f'{os.path.join(VERIF, "check")} {p}', cwd=VERIF, env=dict(os.environ, VERIF_REPO=wt, VERIF_OUT=outd), timeout=3600)
            shutil.rmtree(outd, ignore_errors=True)
            lines = out.splitlines()
            diag = [lines[i - 1][:300] for i, l in enumerate(lines) if l.startswith('VIOLATION') and i > 0][:2] + [l[:300] for l in lines if 'ANALYSIS-ERROR' in l][:1]
            return p, dict(exit=rc, verdict={0: 'silent', 1: 'fire', 2: 'analysis-error'}.get(rc, f'rc{rc}'), diagnostics=diag, wall_s=round(time.time() - t0, 1))
        with ThreadPoolExecutor(4) as ex:
            meta['checks'] = dict(ex.map(one, pids))
    finally:
        sh(f'git -C /repo worktree remove --force {wt}')
        shutil.rmtree(wt, ignore_errors=True)
    dst = os.path.join(VERIF, 'seeded', 'neutral', name)
    os.makedirs(dst, exist_ok=True)
    for f in ('patch.diff', 'demo.py', 'notes.md'):
        if os.path.exists(os.path.join(src, f)) and src != os.path.abspath(dst):
            shutil.copy(os.path.join(src, f), os.path.join(dst, f))
    meta['what_was_run'] = 'scratch worktree of /repo HEAD: demo.py (pristine) -> git apply -> pytest (pinned suite) -> demo.py (changed, same output) -> ./check <each property> with VERIF_REPO=<worktree>; worktree removed'
    meta['source'] = 'independent sub-agent given only the property text and a scratch worktree, asked for behaviour-preserving maintenance changes'
    json.dump(meta, open(os.path.join(dst, 'meta.json'), 'w'), indent=1)
    noisy = {p: r['verdict'] for p, r in meta['checks'].items() if r['verdict'] != 'silent'}
    print(name, 'confirmed' if meta['confirmed'] else 'NOT-CONFIRMED', 'ALL-SILENT' if not noisy else f'NOISY {noisy}',
          [d[:200] for p, r in meta['checks'].items() if r['verdict'] != 'silent' for d in r['diagnostics'][:1]])
    return 0


if __name__ == '__main__':
    sys.exit(main())
