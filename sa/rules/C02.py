"""C02 - exotic cells: level masks, per-level hashes, stored-hash lookups.

The real constructor and lookup methods are abstractly interpreted on the *complete control domain*
(cell type x children's level masks / own mask x reference count x level 0..3). Children carry opaque per-level hashes
H<i>@<k> and distinct concrete depths, so the level at which a child is queried is observable in the hashed stream.
Exotic cell data is a fixed byte string in which every 32-byte and 2-byte window is distinct (checked at start), so a
wrong offset in a stored-hash / stored-depth lookup yields different bytes whatever idiom the code uses.
"""
import ast
import hashlib
import itertools
from ..core import AnalysisError
from ..front import Program
from ..interp import Interp
from ..values import *
from .. import cellmodel as cm
from .. import models

MANIFEST = dict(
    technique='abstract interpretation of LevelMask, Cell.resolve_mask/calculate_hashes/get_hash/get_depth on the complete finite control domain (type x masks x refs x level), compared with a table generated from the TON specification',
    text='Decides level-mask arithmetic on its whole domain, the level mask of every cell type, which levels are hashed with which '
         'descriptor / data-or-previous-hash / child level for all type x mask states (incl. that every spec-valid state can be '
         'constructed), and the stored hash/depth offsets of pruned branches. Pruning invariance for concrete trees follows from '
         'these ingredients on paper and is not itself enumerated.',
    note='trusted: interpreter + library models, transcription of DataCell::create / LevelMask semantics. Not decided: digests of concrete trees.',
    design_ref='DESIGN.md section 4 C02')

ORD, PRUNED, LIB, PROOF, UPDATE = -1, 1, 2, 3, 4
TNAME = {ORD: 'ordinary', PRUNED: 'pruned', LIB: 'library', PROOF: 'merkle_proof', UPDATE: 'merkle_update'}


def popcount(x):
    return bin(x).count('1')


def apply(m, l):
    return m & ((1 << l) - 1)


def stream_bytes(n, salt=b'c02'):
    out = b''
    i = 0
    while len(out) < n:
        out += hashlib.sha256(salt + bytes([i])).digest()
        i += 1
    return out[:n]


def exotic_data(t, m=0):
    """spec-shaped data of an exotic cell of type t (own mask m for pruned)"""
    if t == PRUNED:
        p = popcount(m)
        return bytes([1, m]) + stream_bytes(34 * p)
    if t == LIB:
        return bytes([2]) + stream_bytes(32, b'lib')
    if t == PROOF:
        return bytes([3]) + stream_bytes(34, b'prf')
    if t == UPDATE:
        return bytes([4]) + stream_bytes(68, b'upd')
    raise ValueError(t)


def spec_mask(t, child_masks, own=0):
    if t == ORD:
        r = 0
        for c in child_masks:
            r |= c
        return r
    if t == PRUNED:
        return own
    if t == LIB:
        return 0
    if t == PROOF:
        return child_masks[0] >> 1
    if t == UPDATE:
        return (child_masks[0] | child_masks[1]) >> 1


def spec_levels(t, m):
    """[(level li, descriptor mask, 'data' | ('prev', k), child level)] for every stored hash, per DataCell::create"""
    total = popcount(m) + 1
    count = 1 if t == PRUNED else total
    off = total - count
    out = []
    hi = 0
    for li in range(0, m.bit_length() + 1):
        if not (li == 0 or (m >> (li - 1)) & 1):
            continue
        if hi < off:
            hi += 1
            continue
        src = 'data' if hi == off else ('prev', hi - off - 1)
        out.append((li, apply(m, li), src, li + 1 if t in (PROOF, UPDATE) else li))
        hi += 1
    return out


def mk_child(it, i, cmask):
    """ordinary cell with level mask `cmask` (as if it had pruned descendants): opaque hash and distinct depth per stored level"""
    c = cm.leaf(it, 0, f'child{i}')
    n = popcount(cmask) + 1
    c.attrs['level_mask'] = it.construct(it.prog.cls('LevelMask'), [K(cmask)], {})
    c.attrs['_hashes'] = ListV([Sym(f'H{i}@{k}', ty='bytes', n=32, key=('ch', i, k)) for k in range(n)])
    c.attrs['_depths'] = ListV([K(100 * (i + 1) + k) for k in range(n)])
    c.attrs['_hash'] = cm.cached(it, c, '_hashes').items[-1]
    cm.reforge(it, c)
    cm.shadow_lookups(it, c)
    return c


def ordinary_mask_union(run, prog, rule, where, thorough=False):
    """an ordinary cell over two children with level masks ma, mb hashes d1 = 2 + 32*(ma | mb) (shared by C01 / C02 / C11: the hash a Merkle
    proof is checked against goes through such cells whenever a proof prunes inside another Merkle cell)"""
    pairs = [(a, b_) for a in range(8) for b_ in range(8)] if thorough else [(a, b_) for a in range(8) for b_ in range(8) if a <= b_ or (a | b_) not in (a, b_)]
    bad = 0
    for ma, mb in pairs:
        it = Interp(prog)
        kids = [mk_child(it, 0, ma), mk_child(it, 1, mb)]
        run.evaluations += 1
        try:
            c = cm.new_cell(it, cm.tvm_bits(it, cm.data_bits(9)), kids)
            h = cm.cached(it, c, '_hash')
            parts = cm.flatten_bytes(list(h.a)) if isinstance(h, Term) and h.op == 'sha256' else None
            want = cm.spec_d1(2, False, ma | mb)
            lm = c.attrs['level_mask'].attrs.get('_m')
            good = bool(parts) and parts[0] == ('k', want) and isinstance(lm, K) and lm.v == (ma | mb)
            why = f'level mask {vrepr(lm)}, first hashed byte {parts[0][1] if parts and parts[0][0] == "k" else "?"}; specification: mask {ma | mb}, d1 = 2 + 32*({ma:03b} | {mb:03b}) = {want}'
        except RaiseEx as e:
            good, why = False, f'raises {e}'
        if good:
            run.ok(rule, f'd1-level[children masks {ma:03b},{mb:03b}]')
        else:
            bad += 1
            if bad <= 3:
                run.fail(rule, 'Cell.__init__[level mask of an ordinary cell]', f'children with level masks {ma:03b} and {mb:03b}: {why}', where, witness=dict(masks=[ma, mb]))


def child_index(cmask, l):
    return popcount(apply(cmask, l))


def build(prog, t, child_masks, own=0):
    it = Interp(prog)
    kids = [mk_child(it, i, cmk) for i, cmk in enumerate(child_masks)]
    if t == ORD:
        bits = cm.tvm_bits(it, cm.data_bits(11))
        data = None
    else:
        data = exotic_data(t, own)
        bits = cm.tvm_bits(it, BA([Seg(8 * len(data), 'k', ''.join(format(x, '08b') for x in data))]))
    try:
        c = cm.new_cell(it, bits, kids, t)
        return 'ok', c, it, kids, data
    except RaiseEx as e:
        return 'raise', e, it, kids, data


def check_state(run, prog, t, child_masks, own, where):
    m = spec_mask(t, child_masks, own)
    state = f'{TNAME[t]}[children={list(child_masks)}' + (f',mask={own:03b}' if t == PRUNED else '') + ']'
    out, c, it, kids, data = build(prog, t, child_masks, own)
    run.evaluations += 1
    if out != 'ok':
        run.fail('D3', f'Cell.__init__[{TNAME[t]},mask={m:03b}]', f'{state}: spec-valid cell cannot be constructed: {c}', where,
                 witness=dict(type=TNAME[t], children=list(child_masks), mask=m))
        return None
    # D2 level mask
    lm = c.attrs['level_mask'].attrs.get('_m')
    okm = isinstance(lm, K) and lm.v == m
    run.check(okm, 'D2', f'Cell.resolve_mask[{TNAME[t]}]' if not okm else f'mask:{state}', f'{state}: level mask {vrepr(lm)}, specification {m}', where)
    if not okm:
        return None
    want = spec_levels(t, m)
    hs, ds = cm.cached(it, c, '_hashes').items, cm.cached(it, c, '_depths').items
    cons = f'Cell.calculate_hashes[{TNAME[t]},mask={m:03b}]'
    if len(hs) != len(want) or len(ds) != len(want):
        run.fail('D3', cons, f'{state}: {len(hs)} hashes / {len(ds)} depths stored, specification {len(want)}', where)
        return None
    r = len(kids)
    for k, (li, dmask, src, cl) in enumerate(want):
        h = hs[k]
        if not (isinstance(h, Term) and h.op == 'sha256'):
            run.fail('D3', cons, f'{state}: stored hash {k} is not a sha256 digest: {vrepr(h)[:60]}', where)
            return None
        parts = cm.flatten_bytes(list(h.a))
        exp = [('k', cm.spec_d1(r, t != ORD, dmask)), ('k', cm.spec_d2(11 if t == ORD else 8 * len(data)))]
        if src == 'data':
            exp += [('data',)] if t == ORD else [('k', x) for x in data]
        else:
            exp += [('is', hs[src[1]])]
        cdepths = [cm.cached(it, kid, '_depths').items[child_index(cmk, cl)].v for kid, cmk in zip(kids, child_masks)]
        for d in cdepths:
            exp += [('k', d >> 8), ('k', d & 255)]
        for kid, cmk in zip(kids, child_masks):
            exp += [('is', cm.cached(it, kid, '_hashes').items[child_index(cmk, cl)])]
        ok = len(parts) == len(exp)
        why = f'{len(parts)} stream items, specification {len(exp)}'
        if ok:
            for idx, (p, w) in enumerate(zip(parts, exp)):
                if w[0] == 'k':
                    good = p == w
                elif w[0] == 'data':
                    good = p[0] == 't' and cm.data_term_ok(p[1], 11)
                else:
                    good = p[0] == 't' and p[1] is w[1]
                if not good:
                    ok = False
                    why = f'stream item {idx}: got {p[1] if p[0] == "k" else vrepr(p[1])[:50]}, specification {w[1] if w[0] == "k" else vrepr(w[1])[:50] if len(w) > 1 else "data"}'
                    break
        if not ok:
            run.fail('D3', cons, f'{state} level {li} (hash #{k}): {why}', where, witness=dict(type=TNAME[t], children=list(child_masks), level=li))
            return None
        wd = 1 + max(cdepths) if r else 0
        if not (isinstance(ds[k], K) and ds[k].v == wd):
            run.fail('D3', cons, f'{state} level {li}: stored depth {vrepr(ds[k])}, specification {wd}', where)
            return None
    top = cm.cached(it, c, '_hash')
    if top is not hs[-1]:
        run.fail('D3', 'Cell.hash', f'{state}: .hash is not the highest-level hash', where)
        return None
    run.ok('D3', f'{state}', f'{len(want)} level hash(es): ' + '; '.join(f'L{li}:desc-mask={dm:03b},{s if s == "data" else "prev"},child-level={cl}' for li, dm, s, cl in want))
    return c, it, kids, data, m


def check_lookups(run, prog, t, child_masks, own, built, where):
    c, it, kids, data, m = built
    state = f'{TNAME[t]}[mask={m:03b}]'
    hs, ds = cm.cached(it, c, '_hashes').items, cm.cached(it, c, '_depths').items
    for l in range(0, 4):
        h = popcount(apply(m, l))
        P = popcount(m)
        for meth in ('get_hash', 'get_depth'):
            cons = f'Cell.{meth}[{TNAME[t]}]'
            try:
                got = cm.call_method(it, c, meth, K(l))
            except RaiseEx as e:
                run.fail('D4', cons, f'{state}.{meth}({l}) raises {e}', where)
                continue
            run.evaluations += 1
            if t == PRUNED and h != P:
                if meth == 'get_hash':
                    want = K(data[2 + 32 * h: 2 + 32 * (h + 1)])
                else:
                    o = 2 + 32 * P + 2 * h
                    want = K(int.from_bytes(data[o:o + 2], 'big'))
                good = isinstance(got, K) and got.v == want.v
            else:
                idx = 0 if t == PRUNED else h
                want = (hs if meth == 'get_hash' else ds)[idx]
                good = got is want or (isinstance(got, K) and isinstance(want, K) and got.v == want.v)
            run.check(good, 'D4', cons if not good else f'{meth}:{state}@{l}',
                      f'{state}.{meth}({l}) = {vrepr(got)[:70]}; specification {vrepr(want)[:70]}', where,
                      witness=dict(type=TNAME[t], mask=m, level=l))


def check(run):
    prog = Program()
    where = prog.where(prog.method('Cell', 'calculate_hashes', required=False) or prog.method('Cell', '__init__'))
    run.explanation = ('LevelMask, Cell.resolve_mask, the per-level hash loop and the stored-hash lookups are abstractly interpreted on '
                       'the complete control domain and compared with tables generated from the TON cell specification.')
    run.rule('D1', 'LevelMask: level = bit_length, hash_index = popcount, apply(l) = m & (2^l-1), is_significant(l) = (l=0) or bit l-1', 112)
    run.rule('D2', 'level mask per cell type (ordinary OR, pruned = 2nd data byte, library 0, proof child>>1, update (c0|c1)>>1, unknown type raises)', 100)
    run.rule('D3', 'for every type x mask state: which levels are hashed, descriptor mask, data or previous hash, child level l / l+1, stored depth; construction never raises on a spec-valid state', 100)
    run.rule('D4', 'get_hash(l)/get_depth(l): stored index popcount(mask & (2^l-1)); pruned branches read data[2+32h:2+32(h+1)] and the 2-byte BE depth at 2+32P+2h', 200)
    run.rule('D5', 'BoC cell parser: exotic flag is bit 3 of d1, cell type is the first data byte, fewer than 8 data bits raise', 6)
    # cells parsed from a bag that carries stored hashes (also on exotic cells): the parser must skip them and compute hash/depth/type from the content
    from .C05 import stored_hash_scenarios
    from .. import bocrun as _bocrun
    stored_hash_scenarios(run, prog, 'D5', _bocrun.dags(False), prog.where(prog.method('Boc', 'deserialize_cell')))
    run.trust('CPython ast', 'checker interpreter + bitarray/hashlib models', 'transcription of tvm.pdf 3.1.5-3.1.7 / DataCell.cpp / LevelMask')
    run.exhaustive = True
    # window distinctness of the fixed data strings
    for t, own in [(PRUNED, 7), (PROOF, 0), (UPDATE, 0), (LIB, 0)]:
        d = exotic_data(t, own)
        for w in (32, 2):
            wins = [d[i:i + w] for i in range(0, len(d) - w + 1)]
            if w == 32 and len(set(wins)) != len(wins):
                raise AnalysisError('fixture data has repeated windows')

    # ---- D1
    it = Interp(prog)
    LM = prog.cls('LevelMask')
    wl = prog.where(prog.method('LevelMask', '__init__'))
    for m in range(8):
        lm = it.construct(LM, [K(m)], {})
        for name, want in (('get_level', m.bit_length()), ('get_hash_index', popcount(m))):
            got = cm.call_method(it, lm, name)
            ok = isinstance(got, K) and got.v == want
            run.check(ok, 'D1', f'LevelMask.{name}' if not ok else f'{name}({m})', f'mask {m}: {vrepr(got)} vs {want}', wl)
        for name, want in (('level', m.bit_length()), ('hash_index', popcount(m)), ('mask', m)):
            got = it.getattr(lm, name)
            ok = isinstance(got, K) and got.v == want
            run.check(ok, 'D1', f'LevelMask.{name}' if not ok else f'{name}[{m}]', f'mask {m}: {vrepr(got)} vs {want}', wl)
        for l in range(0, 5):
            a = cm.call_method(it, lm, 'apply', K(l))
            got = it.getattr(a, 'mask') if isinstance(a, Inst) else a
            ok = isinstance(got, K) and got.v == apply(m, l)
            run.check(ok, 'D1', 'LevelMask.apply' if not ok else f'apply({m},{l})', f'{m}.apply({l}) = {vrepr(got)} vs {apply(m, l)}', wl)
            if l <= 3:
                s = cm.call_method(it, lm, 'is_significant', K(l))
                want = l == 0 or bool((m >> (l - 1)) & 1)
                ok = isinstance(s, K) and bool(s.v) == want
                run.check(ok, 'D1', 'LevelMask.is_significant' if not ok else f'is_significant({m},{l})', f'{vrepr(s)} vs {want}', wl)
            run.evaluations += 2

    # ---- D2/D3/D4 over the control domain
    thorough = run.tier == 'thorough'
    states = []
    states += [(ORD, (), 0)]
    states += [(ORD, (a,), 0) for a in range(8)]
    states += [(ORD, (a, b), 0) for a in range(8) for b in range(8)]
    states += [(ORD, (a, b, c), 0) for a in (0, 1, 4) for b in (0, 2, 6) for c in (0, 3, 5)]
    states += [(ORD, (1, 2, 4, 0), 0), (ORD, (0, 0, 0, 0), 0), (ORD, (7, 7, 7, 7), 0)]
    if thorough:
        states += [(ORD, (a, b, c), 0) for a in range(8) for b in range(8) for c in range(8)]
        states += [(ORD, (a, b, c, d), 0) for a in (0, 1, 2, 4, 7) for b in (0, 1, 2, 4, 7) for c in (0, 1, 2, 4, 7) for d in (0, 1, 2, 4, 7)]
    states += [(PRUNED, (), m) for m in range(1, 8)]
    states += [(LIB, (), 0)]
    states += [(PROOF, (a,), 0) for a in range(8)]
    states += [(UPDATE, (a, b), 0) for a in range(8) for b in range(8)]
    seen_lookup = set()
    for t, cms, own in states:
        built = check_state(run, prog, t, cms, own, where)
        if built is None:
            continue
        m = built[4]
        if (t, m, len(cms)) not in seen_lookup:
            seen_lookup.add((t, m, len(cms)))
            check_lookups(run, prog, t, cms, own, built, where)
    # unknown type raises; pruned with refs raises
    it = Interp(prog)
    for t, refs, what in ((7, [], 'unknown cell type 7'), (0, [], 'unknown cell type 0')):
        try:
            cm.new_cell(it, cm.tvm_bits(it, BA([Seg(8, 'k', format(t, '08b'))])), refs, t)
            run.fail('D2', 'Cell.resolve_mask[unknown]', f'{what} is accepted', where)
        except RaiseEx:
            run.ok('D2', f'reject:{what}')

    # ---- D5 parser side (shared machinery with C05.D4)
    boc = prog.cls('Boc')
    wp = prog.where(prog.method('Boc', 'deserialize_cell'))
    it = Interp(prog)
    for t in (1, 2, 3, 4):
        body = bytes([t]) + b'\xaa' * 3
        raw = bytes([8, 2 * len(body)]) + body
        try:
            res = it.call(it.getattr(boc, 'deserialize_cell'), [K(raw), K(1)], {})
            cell = res.items[0] if isinstance(res, ListV) else res
            ty = it.getitem(cell, K('type'), None) if isinstance(cell, DictV) else it.getattr(cell, 'type_')
            ok = isinstance(ty, K) and ty.v == t
            run.check(ok, 'D5', 'Boc.deserialize_cell' if not ok else f'exotic-type[{t}]', f'd1=0x08 first data byte {t}: parsed type {vrepr(ty)}', wp)
        except RaiseEx as e:
            run.fail('D5', 'Boc.deserialize_cell', f'exotic cell of type {t} rejected: {e}', wp)
    # every level mask 1..7 is a legal descriptor (the 3 bits are a mask, levels 1..3): pruned branches and ordinary cells above them parse
    for mask in range(1, 8):
        npairs = bin(mask).count('1')
        body = bytes([1, mask]) + bytes((7 * i + mask) % 256 for i in range(32 * npairs)) + b'\x00\x05' * npairs
        for what, raw in ((f'pruned branch, mask {mask:03b}', bytes([8 + (mask << 5), 2 * len(body)]) + body),
                          (f'ordinary cell with two references, mask {mask:03b}', bytes([2 + (mask << 5), 2, 0x55, 0, 1]))):
            try:
                res = it.call(it.getattr(boc, 'deserialize_cell'), [K(raw), K(1)], {})
                cell = res.items[0] if isinstance(res, ListV) else res
                ty = it.getitem(cell, K('type'), None) if isinstance(cell, DictV) else it.getattr(cell, 'type_')
                want_t = 1 if what.startswith('pruned') else -1
                ok = isinstance(ty, K) and ty.v == want_t
                run.check(ok, 'D5', 'Boc.deserialize_cell[level mask]' if not ok else f'{what}', f'{what}: parsed type {vrepr(ty)}', wp)
            except RaiseEx as e:
                run.fail('D5', 'Boc.deserialize_cell[level mask]', f'{what} (d1 = {raw[0]:#04x}) is rejected: {e}', wp)
            run.evaluations += 1
    res = it.call(it.getattr(boc, 'deserialize_cell'), [K(bytes([0, 2, 3])), K(1)], {})
    cell = res.items[0]
    ty = it.getitem(cell, K('type'), None) if isinstance(cell, DictV) else it.getattr(cell, 'type_')
    run.check(isinstance(ty, K) and ty.v == -1, 'D5', 'Boc.deserialize_cell' if not (isinstance(ty, K) and ty.v == -1) else 'ordinary-type',
              f'd1=0x00: parsed type {vrepr(ty)} (first data byte must be ignored)', wp)
    try:
        it.call(it.getattr(boc, 'deserialize_cell'), [K(bytes([8, 0])), K(1)], {})
        run.fail('D5', 'Boc.deserialize_cell', 'exotic cell without data bits accepted', wp)
    except RaiseEx:
        run.ok('D5', 'exotic-empty-raises')
    run.evaluations += 6
