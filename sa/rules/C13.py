"""C13 - address text forms round-trip and the friendly form's checksum is enforced.

The account id is an opaque 32-byte symbol H throughout (so every verdict holds for all 2^256 ids); the workchain id, the flag
combination and the base64 alphabet are enumerated completely (256 x 8).  Byte layouts are tracked with sa/rope.py.

D1  friendly round trip: Address((wc, H)).to_str(friendly, variant) parsed by Address(text) gives wc, the very symbol H and the
    same flags; the rendered payload is tag(1) | wc (1, signed) | H (32) | crc16 over those 34 bytes (2).
D2  flag table: tag byte written == 0x11 / 0x51, | 0x80 for test-only; the reader inverts it.
D3  checksum enforced: for a foreign payload X(34) | Y(k) with X, Y unconstrained symbols, every accepting path has decided
    Y == crc16(X) (k = 2), every other path and every other length raises out of Address(...); a second parse in the same
    process cannot skip the comparison.  With C18 (crc16 is CRC-16/XMODEM, linear) the checker then proves by exhaustion over
    all 48 x 63 in-alphabet substitutions (a burst of <= 6 bits) that none maps a valid text to a valid text.
D4  raw form: f'{wc}:{hex}' parsed back gives wc and H itself.
D5  equality/hash: equal (wc, H) => equal and same hash term; __hash__ is an int and uses only the fields of __eq__.
"""
import ast
from ..core import AnalysisError
from ..front import Program, FuncRef
from ..interp import Interp, run_paths, Oracle
from ..values import *
from ..rope import Rope, install
from .. import cellmodel as cm

MANIFEST = dict(
    technique='abstract interpretation of Address.to_str / Address.__init__ with a symbolic 32-byte account id over all 256 workchains x 8 friendly variants (byte-layout ropes); path enumeration of the parser on unconstrained payloads (checksum comparison must be decided on every accepting path); exhaustive burst-error argument over the linear CRC-16',
    text='Decides for all account ids (symbolic), all workchain ids -128..127 and all 8 friendly variants plus the raw form that render-then-parse returns the same workchain, '
         'the same id and the same flags, that equal addresses are equal and hash equally, that no accepting path of the friendly parser avoids the comparison '
         'of the last two bytes with crc16 of the first 34 (any other length rejected), and - by exhaustion over all 48 x 63 substitutions using the linearity of '
         'CRC-16/XMODEM - that a single replaced base64 character can never yield an accepted text.'
         ' A parsed address renders every variant asked for (explicit arguments win over parsed flags).'
         ' __hash__ agrees with __eq__ semantically: equal addresses with every flag inverted hash alike, and an address whose workchain was re-assigned hashes like a fresh one.'
         ' A text refused for its checksum is refused again when presented a second and third time.',
    note='trusted: interpreter, rope model of bytes, the contract of base64 (48 characters <-> 36 bytes, 6 bits per character, both alphabets accepted by urlsafe_b64decode), C18 for crc16.',
    design_ref='DESIGN.md section 4 C13')


class B64Text:
    """the text produced by base64-encoding `payload` (a Rope / bytes value); behaves as a str without ':'"""
    def __init__(self, payload, urlsafe, alpha=None):
        # alpha: the characters standing for the values 62 and 63 ('+/' standard, '-_' url-safe; a text in which only one of them was
        # replaced is neither)
        self.payload = payload
        self.alpha = alpha or (('-', '_') if urlsafe else ('+', '/'))

    @property
    def urlsafe(self):
        return True if self.alpha == ('-', '_') else False if self.alpha == ('+', '/') else None

    def abs_key(self):
        return ('b64text', repr(self.payload), self.alpha)

    def remap(self, table):
        """character substitution: only the two alphabet-dependent characters can be affected in a way the model follows"""
        others = set(table) - {'+', '/', '-', '_'}
        if others or any(len(v) != 1 for v in table.values()):
            raise Fail(f'base64 text: substitution {table} touches characters the model does not track')
        return B64Text(self.payload, None, tuple(table.get(c, c) for c in self.alpha))

    def abs_isinstance(self, it, ty):
        return getattr(ty, 'name', None) == 'str'

    def abs_attr(self, it, a, node):
        if a == 'decode':
            return Native(lambda it_, args, kw, n: self, 'b64.decode')
        if a == 'split':
            def split(it_, args, kw, n):
                return ListV([self])        # base64 text never contains ':' or whitespace
            return Native(split, 'b64.split')
        if a == 'encode':
            return Native(lambda it_, args, kw, n: self, 'b64.encode')
        if a == 'translate':
            def translate(it_, args, kw, n):
                t = args[0]
                if not (isinstance(t, K) and isinstance(t.v, dict)):
                    raise Fail('translate of a base64 text with a symbolic table')
                return self.remap({chr(k) if isinstance(k, int) else k: (chr(v) if isinstance(v, int) else v) for k, v in t.v.items()})
            return Native(translate, 'b64.translate')
        if a == 'replace':
            def replace(it_, args, kw, n):
                if not all(isinstance(x, K) and isinstance(x.v, str) for x in args[:2]):
                    raise Fail('replace on a base64 text with symbolic arguments')
                return self.remap({args[0].v: args[1].v}) if len(args[0].v) == 1 else self
            return Native(replace, 'b64.replace')
        if a in ('partition', 'rpartition', 'count', 'find', 'rfind', 'index', 'rindex', 'startswith', 'endswith'):
            import string as _string
            b64chars = set(_string.ascii_letters + _string.digits + '+/=-_')

            def foreign(x):
                return isinstance(x, K) and isinstance(x.v, str) and x.v and not (set(x.v) & b64chars)

            def m(it_, args, kw, n, _a=a):
                if not (args and foreign(args[0])):
                    raise Fail(f'{_a} on a base64 text with an argument that may occur in it')
                # a separator made of characters that base64 text never contains
                if _a == 'partition':
                    return ListV([self, K(''), K('')], tup=True)
                if _a == 'rpartition':
                    return ListV([K(''), K(''), self], tup=True)
                if _a == 'count':
                    return K(0)
                if _a in ('find', 'rfind'):
                    return K(-1)
                if _a in ('startswith', 'endswith'):
                    return K(False)
                raise RaiseEx('ValueError', 'substring not found')
            return Native(m, 'b64.' + a)
        if a in ('strip', 'rstrip', 'lstrip') :
            return Native(lambda it_, args, kw, n: self if not args else (_ for _ in ()).throw(Fail('strip of a base64 text with arguments')), 'b64.strip')
        return None

    def abs_len(self, it):
        n = self.payload.n if isinstance(self.payload, Rope) else len(self.payload.v)
        return K((n + 2) // 3 * 4)

    def __repr__(self):
        return f'B64Text({self.payload!r})'


def mk_interp(prog, orc=None):
    it = install(Interp(prog, orc))

    def ext_hook(dotted, args, kw, n):
        last = dotted.split('.')[-1]
        if dotted.startswith('base64.'):
            if last in ('urlsafe_b64encode', 'b64encode'):
                return B64Text(Rope.of(it, args[0]) or args[0], last.startswith('urlsafe'))
            if last in ('urlsafe_b64decode', 'b64decode'):
                a = args[0]
                if isinstance(a, B64Text):
                    if a.urlsafe is None and last == 'b64decode':
                        return None
                    if last == 'b64decode' and a.urlsafe:
                        return None
                    p = a.payload
                    return p.simplify() if isinstance(p, Rope) else p
                if isinstance(a, Term) and a.op in ('fstr',):
                    # the non-strict decoder of the standard library DISCARDS characters outside its alphabet (the ':' of the raw form)
                    # and refuses only a wrong number of remaining characters; '-' and hex digits are in the url-safe alphabet
                    alphabet = set('ABCDEFGHIJKLMNOPQRSTUVWXYZabcdefghijklmnopqrstuvwxyz0123456789' + ('-_' if last.startswith('urlsafe') else '+/'))
                    if kw.get('validate') is not None and it.truth(kw['validate']):
                        raise RaiseEx('Error', 'binascii.Error: non-base64 character in the raw form')
                    count = 0
                    for p_ in a.a:
                        if isinstance(p_, K) and isinstance(p_.v, (str, int)) and not isinstance(p_.v, bool):
                            count += sum(ch in alphabet for ch in str(p_.v))
                        elif isinstance(p_, Term) and p_.op == 'hex':
                            r_ = Rope.of(it, p_.a[0])
                            if r_ is None or not isinstance(r_.n, int):
                                raise Fail('base64 decoding of a text with a hex part of unknown length')
                            count += 2 * r_.n
                        else:
                            raise Fail(f'base64 decoding of a text with an unknown part {p_!r}')
                    if count % 4:
                        raise RaiseEx('Error', f'binascii.Error: {count} base64 characters is not a multiple of 4')
                    return Sym(f'b64decode<{count} chars of the raw form>', ty='bytes', n=count * 3 // 4, key=('b64raw', vrepr(a)))
        return None
    it.ext_hook = ext_hook

    def method_hook(v, name, args, kw, node):
        if name in ('partition', 'rpartition', 'count') and isinstance(v, Term) and v.op in ('fstr', 'hex') and args and isinstance(args[0], K) \
                and isinstance(args[0].v, str) and args[0].v and not (set(args[0].v) & set('0123456789abcdefABCDEF')):
            parts = method_hook(v, 'split', args, kw, node) if v.op == 'fstr' else ListV([v])
            if parts is None:
                return None
            ps, sep = parts.items, args[0]

            def join(xs):
                out = []
                for i, x in enumerate(xs):
                    if i:
                        out.append(sep)
                    out += list(x.a) if isinstance(x, Term) and x.op == 'fstr' else [x] if not (isinstance(x, K) and x.v == '') else []
                return K('') if not out else out[0] if len(out) == 1 else Term('fstr', *out)
            if name == 'count':
                return K(len(ps) - 1)
            if len(ps) == 1:
                return ListV([v, K(''), K('')] if name == 'partition' else [K(''), K(''), v], tup=True)
            return ListV([ps[0], sep, join(ps[1:])] if name == 'partition' else [join(ps[:-1]), sep, ps[-1]], tup=True)
        if name == 'split' and isinstance(v, Term) and v.op == 'fstr' and args and isinstance(args[0], K) and isinstance(args[0].v, str):
            sep = args[0].v
            pieces, cur = [], []
            for p in v.a:
                if isinstance(p, K):
                    chunks = str(p.v).split(sep)
                    for i, c in enumerate(chunks):
                        if i:
                            pieces.append(cur)
                            cur = []
                        if c:
                            cur.append(K(c))
                elif isinstance(p, Term) and p.op == 'hex':
                    cur.append(p)       # hex digits never contain the separator
                else:
                    return None
            pieces.append(cur)
            out = []
            for c in pieces:
                if len(c) == 1:
                    out.append(c[0])
                elif not c:
                    out.append(K(''))
                else:
                    out.append(Term('fstr', *c))
            return ListV(out)
        return None
    it.method_hook = method_hook
    return it


def H32():
    return Sym('H', ty='bytes', n=32, key=('acct', 'H'))


def new_addr(it, prog, wc, h):
    return it.construct(prog.cls('Address'), [ListV([K(wc), h], tup=True)], {})


def spec_tag(bounce, test):
    return (0x11 if bounce else 0x51) | (0x80 if test else 0)


def check(run):
    prog = Program()
    thorough = run.tier == 'thorough'
    A = prog.cls('Address')
    w_str = prog.where(prog.method('Address', 'to_str'))
    w_b64 = prog.where(prog.method('Address', 'is_b64'))
    w_hex = prog.where(prog.method('Address', 'is_hex'))
    run.explanation = 'Address.to_str and Address(...) interpreted with a symbolic account id over all workchains and variants; parser paths enumerated on unconstrained payloads.'
    run.rule('D1', 'friendly render -> parse returns the same workchain, the same 32-byte id (the very symbol) and the same flags; layout tag|wc|id|crc16(first 34)', 400)
    run.rule('D2', 'tag byte = 0x11 bounceable / 0x51 non-bounceable, | 0x80 test-only', 8)
    run.rule('D3', 'every accepting path of the friendly parser has decided last2 == crc16(first34); other lengths and the mismatch branch raise out of Address()', 20)
    run.rule('D3b', 'no single in-alphabet character substitution maps a valid friendly text to a valid one (exhaustive over 48 positions x 63 substitutions, linear CRC)', 48)
    run.rule('D4', 'raw render -> parse returns the same workchain and the same id', 256)
    run.rule('D5', 'equal addresses compare equal and have the same hash term; __hash__ returns an int and reads only fields that __eq__ compares', 4)
    run.trust('CPython ast', 'checker interpreter', 'sa/rope.py', 'base64 contract (6 bits per character, both alphabets decoded by urlsafe_b64decode)', 'C18: crc16 == CRC-16/XMODEM')
    run.exhaustive = True

    # ------------------------------------------------------------------ D1 / D2 / D4
    wcs = list(range(-128, 128))
    edge = {-128, -127, -2, -1, 0, 1, 2, 126, 127}
    nb = 0
    for wc in wcs:
        variants = [(b, t, u) for b in (True, False) for t in (False, True) for u in (True, False)]
        if not thorough and wc not in edge:
            variants = [variants[(wc + 128) % 8], variants[(wc + 131) % 8]]
        for bounce, test, url in variants:
          # every path of render + parse (a parser that inspects the text may fork on what the unknown id makes of it)
          orc = Oracle()
          npaths = 0
          while True:
            orc.pos = 0
            npaths += 1
            it = mk_interp(prog, orc)
            h = H32()
            tag = f'wc={wc},bounce={int(bounce)},test={int(test)},urlsafe={int(url)}' + (f' [path {orc.describe()[:80]}]' if orc.choices else '')
            rendered = False
            try:
                a = new_addr(it, prog, wc, h)
                text = cm.call_method(it, a, 'to_str', K(True), K(url), K(bounce), K(test))
                rendered = True
                ok_layout, why = False, ''
                if isinstance(text, B64Text) and isinstance(text.payload, Rope):
                    parts = text.payload.parts
                    want_head = bytes([spec_tag(bounce, test), wc & 0xFF])
                    crc_ok = len(parts) == 3 and isinstance(parts[2][0], Term) and parts[2][0].op == 'crc' and parts[2][1] == 2 and \
                        repr(Rope.of(it, parts[2][0].a[1])) == repr(Rope(parts[:2]))
                    ok_layout = len(parts) == 3 and isinstance(parts[0][0], K) and parts[0][0].v == want_head and parts[1][0] is h and crc_ok and text.urlsafe == url
                    why = f'payload {text.payload!r}'[:160]
                else:
                    why = f'to_str returned {vrepr(text)[:60]}'
                b = it.construct(A, [text], {})
                got = (cm.field(it, b, 'wc'), cm.field(it, b, 'hash_part'), cm.field(it, b, 'is_bounceable'), cm.field(it, b, 'is_test_only'))
                ok_rt = isinstance(got[0], K) and got[0].v == wc and got[1] is h and isinstance(got[2], K) and bool(got[2].v) == bounce \
                    and isinstance(got[3], K) and bool(got[3].v) == test
                eq = it.cmp(ast.Eq(), a, b, None)
                ok_eq = isinstance(eq, K) and eq.v is True
                if wc in edge and ok_rt:
                    # a parsed address renders every variant the caller asks for: explicit arguments win over what the parsed text carried
                    for b2, t2 in ((True, False), (False, False), (True, True), (False, True)):
                        text2 = cm.call_method(it, b, 'to_str', K(True), K(url), K(b2), K(t2))
                        first = text2.payload.parts[0][0] if isinstance(text2, B64Text) and isinstance(text2.payload, Rope) else None
                        okv = isinstance(first, K) and first.v[0] == spec_tag(b2, t2)
                        run.check(okv, 'D2', 'Address.to_str[tag of a parsed address]' if not okv else f'reparsed-tag[{tag},asked bounce={int(b2)},test={int(t2)}]',
                                  f'{tag}: the address parsed from this text, rendered with is_bounceable={b2}, is_test_only={t2}: tag byte ' +
                                  (f'{first.v[0]:#x}' if isinstance(first, K) else 'not constant') + f', must be {spec_tag(b2, t2):#x}', w_str, witness=dict(wc=wc, parsed=[bounce, test], asked=[b2, t2]))
                why_rt = f'parsed wc={vrepr(got[0])}, id={"H" if got[1] is h else vrepr(got[1])[:30]}, bounceable={vrepr(got[2])}, test_only={vrepr(got[3])}, equal={vrepr(eq)}'
            except RaiseEx as e:
                ok_rt = ok_eq = False
                why_rt = f'the rendered text is refused by the parser: {e}' if rendered else f'raises {e}'
                if not rendered:
                    ok_layout, why = False, why_rt
            run.evaluations += 1
            good = ok_layout and ok_rt and ok_eq
            if good:
                run.ok('D1', f'friendly[{tag}]', why_rt if wc in (-1, 0) and bounce and not test else '')
            else:
                nb += 1
                if nb <= 4:
                    if not ok_layout:
                        run.fail('D1', 'Address.to_str[layout]', f'{tag}: {why}; expected tag {spec_tag(bounce, test):#x} | wc | id | crc16(first 34 bytes)', w_str, witness=dict(wc=wc, bounce=bounce, test=test, urlsafe=url))
                    else:
                        run.fail('D1', 'Address.is_b64[round trip]', f'{tag}: {why_rt}', w_b64, witness=dict(wc=wc, bounce=bounce, test=test, urlsafe=url))
            if npaths >= 16 or not orc.next_path():
                break
        # raw form
        it = mk_interp(prog)
        h = H32()
        try:
            a = new_addr(it, prog, wc, h)
            text = cm.call_method(it, a, 'to_str', K(False))
            b = it.construct(A, [text], {})
            ok = isinstance(cm.field(it, b, 'wc'), K) and cm.field(it, b, 'wc').v == wc and cm.field(it, b, 'hash_part') is h
            ok_text = isinstance(text, Term) and text.op == 'fstr' and [vrepr(x) for x in text.a[:2]] == [repr(f'{wc}:')] or \
                (isinstance(text, Term) and text.op == 'fstr' and ''.join(str(x.v) for x in text.a if isinstance(x, K)) == f'{wc}:')
            why = f'text {vrepr(text)[:50]} parsed to wc={vrepr(b.attrs.get("wc"))}, id={"H" if b.attrs.get("hash_part") is h else vrepr(b.attrs.get("hash_part"))[:40]}'
        except RaiseEx as e:
            ok, ok_text, why = False, True, f'raises {e}'
        run.check(ok and ok_text, 'D4', 'Address.is_hex[round trip]' if not (ok and ok_text) else f'raw[wc={wc}]', why, w_hex, witness=dict(wc=wc))
        run.evaluations += 1
    # D2: the tag table read off the rendered payloads (independent of the round trip)
    for bounce in (True, False):
        for test in (False, True):
            it = mk_interp(prog)
            a = new_addr(it, prog, 0, H32())
            for url in (True, False):
                text = cm.call_method(it, a, 'to_str', K(True), K(url), K(bounce), K(test))
                first = text.payload.parts[0][0] if isinstance(text, B64Text) and isinstance(text.payload, Rope) else None
                ok = isinstance(first, K) and first.v[0] == spec_tag(bounce, test)
                run.check(ok, 'D2', 'Address.to_str[tag]' if not ok else f'tag[bounce={int(bounce)},test={int(test)},url={int(url)}]',
                          f'tag byte {first.v[0]:#x}' if isinstance(first, K) else 'tag byte not constant', w_str)

    # ------------------------------------------------------------------ D3 foreign payloads: the checksum comparison decides acceptance
    nacc = nrej = 0
    # the four valid tags and tags no conforming writer produces (what a substituted first character decodes to)
    for tagb in (0x11, 0x51, 0x91, 0xD1, 0x41, 0x00, 0x50, 0x12, 0xFF):
        for wcb in (0x00, 0xFF, 0x7F):
            for ylen in (2, 0, 1, 3):
                X = Sym('X', ty='bytes', n=32, key=('foreign', 'X'))
                Y = Sym(f'Y{ylen}', ty='bytes', n=ylen, key=('foreign', 'Y', ylen)) if ylen else None
                head = bytes([tagb, wcb])

                def one(orc, X=X, Y=Y, head=head, ylen=ylen):
                    it = mk_interp(prog)
                    it.oracle = orc
                    payload = Rope([(K(head), 2), (X, 32)] + ([(Y, ylen)] if ylen else []))
                    try:
                        b = it.construct(A, [B64Text(payload, True)], {})
                        return ('accept', b, it)
                    except RaiseEx as e:
                        return ('raise', e, it)
                for (kind, res, it), desc in run_paths(one, 64):
                    run.evaluations += 1
                    want_cond = None
                    if kind == 'accept':
                        nacc += 1
                        # the accepting path must have decided  Y == crc16(head|X)  as true
                        decided_crc = [(d, r) for d, r in it.pathcond if 'crc' in d]
                        ok = ylen == 2 and any(r is True and 'crc16' in d and 'Y2' in d for d, r in decided_crc) or \
                            ylen == 2 and any(r is False and 'crc16' in d and 'Y2' in d and '!=' in d for d, r in decided_crc)
                        # canonical Cond keys are equalities; polarity handled by the interpreter: accept iff equality decided True
                        # the decided equality must be  Y == crc16(exactly the first 34 bytes of THIS payload)  (not of a re-encoded / normalised header)
                        want = it.cmp(ast.Eq(), Y, Term('crc', K('crc16'), Rope([(K(head), 2), (X, 32)]), K(2)), None) if ylen == 2 else None
                        ok = ylen == 2 and isinstance(want, Cond) and it.decided.get(want.key) is (True if want.pol else False)
                        fields_ok = isinstance(cm.field(it, res, 'wc'), K) and cm.field(it, res, 'wc').v == (wcb - 256 if wcb > 127 else wcb) and cm.field(it, res, 'hash_part') is X
                        run.check(ok and fields_ok, 'D3', 'Address.is_b64[checksum]' if not (ok and fields_ok) else f'accept[tag={tagb:#x},wc={wcb:#x}]',
                                  f'payload tag={tagb:#x} wc={wcb:#x} id=X crc-bytes={"Y" if ylen else "-"}({ylen}): accepted on path [{desc}] ' +
                                  ('with the checksum equality decided' if ok else 'WITHOUT a decided comparison of the trailing bytes with crc16 of the first 34 bytes of this payload (decided instead: ' + str([d for d, r in decided_crc])[:160] + ')'), w_b64)
                    else:
                        nrej += 1
                        ok = res.kind in ('AddressError',)
                        run.check(ok, 'D3', 'Address.is_b64[rejection]' if not ok else f'reject[tag={tagb:#x},wc={wcb:#x},ylen={ylen},{desc[:30]}]',
                                  f'payload with {ylen} trailing byte(s), path [{desc}]: raises {res.kind}', w_b64)
    if nacc < 4 or nrej < 20:
        raise AnalysisError(f'D3 explored {nacc} accepting / {nrej} rejecting paths - anchor lost')
    # history: a successful parse must not let a later, different payload skip the comparison
    it = mk_interp(prog)
    X = Sym('X', ty='bytes', n=32, key=('foreign', 'X'))
    Y = Sym('Y2', ty='bytes', n=2, key=('foreign', 'Y', 2))
    p1 = Rope([(K(bytes([0x11, 0])), 2), (X, 32), (Y, 2)])
    p2 = Rope([(K(bytes([0x51, 0])), 2), (X, 32), (Y, 2)])
    orc = Oracle()
    it.oracle = orc
    try:
        it.construct(A, [B64Text(p1, True)], {})            # first decision: equal -> accepted
        n_before = len(it.pathcond)
        it.construct(A, [B64Text(p2, True)], {})
        newc = it.pathcond[n_before:]
        ok = any('crc16' in d for d, r in newc)
        why = 'second payload (other tag, same id and trailing bytes) was compared with its own checksum' if ok else 'second payload accepted without a new checksum comparison (state carried between calls)'
    except RaiseEx as e:
        ok, why = False, f'raises {e}'
    run.check(ok, 'D3', 'Address.is_b64[history]' if not ok else 'history[second parse re-checks]', why, w_b64)
    # ... and a damaged text that was refused is refused again when it is presented a second time (nothing learnt from the refused attempt)
    it = mk_interp(prog)
    # the premise of this history is fixed, not left to the order of decisions: the trailing bytes are NOT the checksum of the first 34
    want_ = it.cmp(ast.Eq(), Y, Term('crc', K('crc16'), Rope([(K(bytes([0x11, 0])), 2), (X, 32)]), K(2)), None)
    if not isinstance(want_, Cond):
        raise AnalysisError('C13 history: the checksum comparison is not an undecided condition')
    it.decided[want_.key] = not want_.pol
    outcomes = []
    for attempt in (1, 2, 3):
        try:
            it.construct(A, [B64Text(p1, True)], {})
            outcomes.append('accepted')
        except RaiseEx as e:
            outcomes.append(f'raised {e.kind}')
    ok = outcomes[0].startswith('raised') and all(o == outcomes[0] for o in outcomes)
    run.check(ok, 'D3', 'Address.is_b64[history: a refused text presented again]' if not ok else 'history[refused text stays refused]',
              f'the same text whose trailing bytes are not the checksum, three times in a row: {outcomes}', w_b64)

    # ------------------------------------------------------------------ D3b burst argument (uses the specification CRC; C18 proves crc16 equal to it)
    def crc16_spec(data):
        c = 0
        for b in data:
            c ^= b << 8
            for _ in range(8):
                c = ((c << 1) ^ 0x1021) & 0xFFFF if c & 0x8000 else (c << 1) & 0xFFFF
        return c
    for pos in range(48):
        bad = 0
        for e in range(1, 64):
            err = e << (288 - 6 * (pos + 1))            # 6-bit error pattern at character `pos` of 48
            eb = err.to_bytes(36, 'big')
            # accepted iff crc(first34 ^ e_data) == last2 ^ e_crc  <=>  L(e_data) == e_crc  (CRC-16/XMODEM with zero init is linear)
            if crc16_spec(eb[:34]) == int.from_bytes(eb[34:], 'big'):
                bad += 1
        run.evaluations += 63
        run.check(bad == 0, 'D3b', f'substitution[char {pos}]', f'{63 - bad}/63 substitutions at character {pos} change the checksum relation', w_b64)

    # ------------------------------------------------------------------ D5 equality / hash
    it = mk_interp(prog)
    h = H32()
    a, b = new_addr(it, prog, -1, h), new_addr(it, prog, -1, h)
    b.attrs['is_bounceable'] = K(True)
    eq = it.cmp(ast.Eq(), a, b, None)
    ha, hb = it.models.builtin(it, 'hash', [a], {}, None), it.models.builtin(it, 'hash', [b], {}, None)
    run.check(isinstance(eq, K) and eq.v is True and repr(ha) == repr(hb), 'D5', 'Address.__eq__/__hash__' if not (isinstance(eq, K) and eq.v and repr(ha) == repr(hb)) else 'equal=>same hash',
              f'same (wc, id), different flags: equal={vrepr(eq)}, hash terms equal={repr(ha) == repr(hb)}', prog.where(prog.method('Address', '__hash__')))
    c = new_addr(it, prog, 0, h)
    ne = it.cmp(ast.Eq(), a, c, None)
    run.check(isinstance(ne, K) and ne.v is False, 'D5', 'Address.__eq__[workchain]' if not (isinstance(ne, K) and ne.v is False) else 'different workchain => unequal', f'wc -1 vs 0: equal={vrepr(ne)}', prog.where(prog.method('Address', '__eq__')))
    it2 = Interp(prog)
    a2 = it2.construct(A, [ListV([K(-1), K(bytes(range(32)))], tup=True)], {})
    hv = it2.models.builtin(it2, 'hash', [a2], {}, None)
    run.check(isinstance(hv, K) and isinstance(hv.v, int) and not isinstance(hv.v, bool), 'D5', 'Address.__hash__[type]' if not (isinstance(hv, K) and isinstance(hv.v, int)) else '__hash__ is int',
              f'__hash__ of a concrete address returns {type(hv.v).__name__ if isinstance(hv, K) else vrepr(hv)[:30]}', prog.where(prog.method('Address', '__hash__')))
    # the hash is a function of what __eq__ compares: two equal addresses that differ in every other attribute hash alike, and an address
    # whose workchain / id was re-assigned hashes like a fresh address with the new values (no stale memo)
    it3 = mk_interp(prog)
    h3 = H32()
    p_, q_ = new_addr(it3, prog, -1, h3), new_addr(it3, prog, -1, h3)
    varied = []
    for nm_, val_ in list(q_.attrs.items()):
        if nm_.startswith('_') or nm_ in ('wc', 'hash_part'):
            continue
        if isinstance(val_, K) and isinstance(val_.v, bool):
            it3.setattr(q_, nm_, K(not val_.v))
            varied.append(nm_)
    eq3_ = it3.cmp(ast.Eq(), p_, q_, None)
    hp_, hq_ = it3.models.builtin(it3, 'hash', [p_], {}, None), it3.models.builtin(it3, 'hash', [q_], {}, None)
    ok_ = isinstance(eq3_, K) and eq3_.v is True and repr(hp_) == repr(hq_)
    run.check(ok_, 'D5', 'Address.__hash__[fields]' if not ok_ else 'hash is a function of the compared fields',
              f'same (wc, id), every flag {varied} inverted: equal={vrepr(eq3_)}, hash terms equal={repr(hp_) == repr(hq_)}', prog.where(prog.method('Address', '__hash__')))
    it3.setattr(p_, 'wc', K(0))
    fresh = new_addr(it3, prog, 0, h3)
    hp2, hf = it3.models.builtin(it3, 'hash', [p_], {}, None), it3.models.builtin(it3, 'hash', [fresh], {}, None)
    eq4_ = it3.cmp(ast.Eq(), p_, fresh, None)
    ok_ = isinstance(eq4_, K) and eq4_.v is True and repr(hp2) == repr(hf) and repr(hp2) != repr(hp_)
    run.check(ok_, 'D5', 'Address.__hash__[after re-assignment]' if not ok_ else 'hash follows a re-assigned workchain',
              f'wc re-assigned -1 -> 0 after hashing: equal to a fresh (0, id) address={vrepr(eq4_)}, same hash term={repr(hp2) == repr(hf)}, differs from the old hash={repr(hp2) != repr(hp_)}',
              prog.where(prog.method('Address', '__hash__')))
