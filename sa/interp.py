"""E3: the checker's own abstract interpreter for method bodies of /repo (which is only ever read as syntax trees).

control concrete / data abstract; an undecided branch is explored both ways by deterministic replay (Oracle)."""
import ast
import operator as _op
from .values import *
from .front import ClassRef, FuncRef, Program


class Oracle:
    """decision vector for path enumeration by replay"""
    def __init__(self):
        self.choices, self.widths, self.labels, self.pos = [], [], [], 0

    def choose(self, n, label=''):
        if n == 1:
            return 0
        if self.pos < len(self.choices):
            c = self.choices[self.pos]
            self.widths[self.pos] = n
            self.labels[self.pos] = label
        else:
            c = 0
            self.choices.append(0)
            self.widths.append(n)
            self.labels.append(label)
        self.pos += 1
        return c

    def next_path(self):
        self.choices = self.choices[:self.pos]
        self.widths = self.widths[:self.pos]
        self.labels = self.labels[:self.pos]
        while self.choices:
            if self.choices[-1] + 1 < self.widths[-1]:
                self.choices[-1] += 1
                self.pos = 0
                return True
            self.choices.pop()
            self.widths.pop()
            self.labels.pop()
        return False

    def describe(self):
        return ','.join(f'{l}={c}' for l, c in zip(self.labels[:self.pos], self.choices[:self.pos]))


class Frame:
    def __init__(self, module, parent=None, func=None, cls=None):
        self.vars = {}
        self.module, self.parent, self.func, self.cls = module, parent, func, cls

    def lookup(self, name):
        f = self
        while f is not None:
            if name in f.vars:
                return f.vars[name]
            f = f.parent
        return None

    def has(self, name):
        f = self
        while f is not None:
            if name in f.vars:
                return True
            f = f.parent
        return False


# integer constants of third-party libraries the package imports by name (libsodium sizes; documented values)
EXT_CONSTANTS = {f'nacl.bindings.{k}': v for k, v in dict(
    crypto_sign_BYTES=64, crypto_sign_PUBLICKEYBYTES=32, crypto_sign_SECRETKEYBYTES=64, crypto_sign_SEEDBYTES=32,
    crypto_scalarmult_BYTES=32, crypto_scalarmult_SCALARBYTES=32, crypto_box_PUBLICKEYBYTES=32, crypto_box_SECRETKEYBYTES=32,
    crypto_hash_sha256_BYTES=32, crypto_hash_sha512_BYTES=64).items()}
EXT_CONSTANTS.update({k.replace('nacl.bindings.', 'nacl.bindings.crypto_sign.'): v for k, v in list(EXT_CONSTANTS.items()) if 'crypto_sign_' in k})
_BINOPS = {ast.Add: _op.add, ast.Sub: _op.sub, ast.Mult: _op.mul, ast.FloorDiv: _op.floordiv, ast.Mod: _op.mod,
           ast.LShift: _op.lshift, ast.RShift: _op.rshift, ast.BitAnd: _op.and_, ast.BitOr: _op.or_,
           ast.BitXor: _op.xor, ast.Pow: _op.pow, ast.Div: _op.truediv}
_OPNAME = {ast.Add: '+', ast.Sub: '-', ast.Mult: '*', ast.FloorDiv: '//', ast.Mod: '%', ast.LShift: '<<',
           ast.RShift: '>>', ast.BitAnd: '&', ast.BitOr: '|', ast.BitXor: '^', ast.Pow: '**', ast.Div: '/'}
_PY_EXC = {'Exception': None, 'ValueError': 'Exception', 'TypeError': 'Exception', 'IndexError': 'LookupError',
           'KeyError': 'LookupError', 'LookupError': 'Exception', 'OverflowError': 'ArithmeticError',
           'ArithmeticError': 'Exception', 'AssertionError': 'Exception', 'NotImplementedError': 'RuntimeError',
           'RuntimeError': 'Exception', 'AttributeError': 'Exception', 'Error': 'ValueError',
           'BadSignatureError': 'CryptoError', 'CryptoError': 'Exception', 'UnicodeDecodeError': 'ValueError', 'StopIteration': 'Exception',
           'ZeroDivisionError': 'ArithmeticError'}


def as_poly(v):
    if isinstance(v, PInt):
        return v.p
    if isinstance(v, K) and isinstance(v.v, int):
        return Poly.const(int(v.v))
    return None


class Interp:
    MAX_DEPTH = 60
    MAX_STEPS = 2_000_000
    MAX_UNROLL = 1100

    def __init__(self, prog, oracle=None):
        self.prog = prog
        self.oracle = oracle or Oracle()
        self.depth = 0
        self.steps = 0
        self.decided = {}
        self.pathcond = []
        self.cur = []           # stack of FuncRef being interpreted
        self.notes = []
        from . import models
        self.models = models

    # =============================================================== truth / keys
    def vkey(self, v):
        hook = getattr(v, 'abs_key', None)
        if hook is not None:
            return hook()
        if isinstance(v, K):
            try:
                return ('k', repr(v.v))
            except Exception:
                return None
        if isinstance(v, PInt):
            return ('p', repr(v.p))
        if isinstance(v, Sym):
            return v.key or ('sym', v.uid)
        if isinstance(v, Term):
            return ('t', repr(v))
        if isinstance(v, Cond):
            return ('c', v.key, v.pol)
        if isinstance(v, PBits):
            return ('pb', v.pat, v.view)
        if isinstance(v, (Inst, ListV, DictV, SetV, BA)):
            return ('obj', id(v))
        if isinstance(v, ClassRef):
            return ('cls', v.name)
        if isinstance(v, Builtin):
            return ('builtin', v.name)
        if isinstance(v, Ext):
            return ('ext', v.dotted)
        return ('obj', id(v))

    def decide(self, key, desc, node=None):
        """fork on an undecided condition, consistently along one path"""
        if key in self.decided:
            return self.decided[key]
        r = self.oracle.choose(2, f'{desc}@{getattr(node, "lineno", "?")}') == 0
        self.decided[key] = r
        self.pathcond.append((desc, r))
        return r

    def truth(self, v, node=None):
        if isinstance(v, K):
            return bool(v.v)
        if isinstance(v, Cond):
            r = self.decide(v.key, v.desc or str(v.key), node)
            return r if v.pol else not r
        if isinstance(v, PInt):
            if v.p.is_const():
                return v.p.cval() != 0
            c = self.int_cond(ast.NotEq(), v.p, Poly.const(0))
            return self.truth(c, node)
        if isinstance(v, PBits):
            if v.view in ('str', 'bytes', 'bits'):
                return len(v.pat) > 0
        if isinstance(v, BA):
            return len(v) > 0
        if isinstance(v, Inst):
            c, m = self.prog.find_method(v.cls, '__bool__') if v.cls else (None, None)
            if m is not None:
                return self.truth(self.invoke(FuncRef(m, c.module, c), [v], {}), node)
            if v.native is not None and hasattr(v.native, '__len__'):
                return len(v.native) > 0
            c, m = self.prog.find_method(v.cls, '__len__') if v.cls else (None, None)
            if m is not None:
                return self.truth(self.invoke(FuncRef(m, c.module, c), [v], {}), node)
            return True
        if isinstance(v, (ClassRef, FuncRef, Bound, Native, Ext, Builtin)):
            return True
        if isinstance(v, ListV):
            return len(v.items) > 0
        if isinstance(v, DictV):
            return len(v.d) > 0
        if isinstance(v, SetV):
            return len(v.items) > 0
        hook = getattr(v, 'abs_truth', None)
        if hook is not None:
            r = hook(self)
            if r is not None:
                return r
        bnd = getattr(v, 'bounds', None)
        if bnd is not None:
            if bnd[0] > 0 or (bnd[1] is not None and bnd[1] < 0):
                return True
            if bnd[1] == 0 and bnd[0] == 0:
                return False
        key = ('truth', self.vkey(v))
        return self.decide(key, f'truth({vrepr(v)[:40]})', node)

    def int_cond(self, op, pa, pb):
        """comparison of two polynomials -> K(bool) or canonical Cond"""
        d = pa - pb
        if d.is_const():
            c = d.cval()
            return K({ast.Lt: c < 0, ast.LtE: c <= 0, ast.Gt: c > 0, ast.GtE: c >= 0, ast.Eq: c == 0,
                      ast.NotEq: c != 0}[type(op)])
        t = type(op)
        if t in (ast.Eq, ast.NotEq):
            lead = sorted(d.t.items(), key=lambda kv: (len(kv[0]), kv[0]))[-1][1]
            if lead < 0:
                d = -d
            return Cond(('eq0', repr(d)), t is ast.Eq, f'{d} == 0')
        # normalise to  q >= 0
        one = Poly.const(1)
        if t is ast.Lt:
            q = -d - one
        elif t is ast.LtE:
            q = -d
        elif t is ast.Gt:
            q = d - one
        else:
            q = d
        # complementary form: not(q >= 0)  <=>  (-q-1) >= 0 ; canonical = the one whose leading coefficient is positive
        lead = sorted(q.t.items(), key=lambda kv: (len(kv[0]), kv[0]))
        lead = [kv for kv in lead if kv[0] != ()][-1][1]
        if lead < 0:
            q2 = -q - one
            return Cond(('ge0', repr(q2)), False, f'{q2} >= 0')
        return Cond(('ge0', repr(q)), True, f'{q} >= 0')

    # =============================================================== equality
    def eq3(self, a, b):
        """three-valued equality: True / False / None"""
        if isinstance(a, K) and isinstance(b, K):
            try:
                return a.v == b.v
            except Exception:
                return None
        pa, pb = as_poly(a), as_poly(b)
        if pa is not None and pb is not None:
            d = pa - pb
            if d.is_const():
                return d.cval() == 0
            return None
        if isinstance(b, PBits) and not isinstance(a, PBits):
            a, b = b, a
        if isinstance(a, PBits):
            pa_ = a.pat
            if isinstance(b, PBits):
                pb_ = b.pat
            elif isinstance(b, K):
                if isinstance(b.v, str) and a.view == 'str':
                    pb_ = b.v
                    if any(c not in '01' for c in pb_):
                        return False
                elif isinstance(b.v, bytes) and a.view == 'bytes':
                    pb_ = ''.join(format(x, '08b') for x in b.v)
                elif isinstance(b.v, int) and not isinstance(b.v, bool) and a.view in ('uint', 'int'):
                    w = len(pa_)
                    lo_, hi_ = (0, 1 << w) if a.view == 'uint' else (-(1 << (w - 1)), 1 << (w - 1))
                    if not lo_ <= b.v < hi_:
                        return False
                    pb_ = format(b.v & ((1 << w) - 1), f'0{w}b') if w else ''
                else:
                    return None
            else:
                return None
            if len(pa_) != len(pb_):
                return False
            unk = False
            for x, y in zip(pa_, pb_):
                if x == '?' or y == '?':
                    unk = True
                elif x != y:
                    return False
            return None if unk else True
        # byte strings of different (known) lengths are unequal
        if not (isinstance(a, K) and isinstance(b, K)):
            def _bl(v):
                if isinstance(v, K):
                    return len(v.v) if isinstance(v.v, (bytes, bytearray)) else None
                if isinstance(v, Term) or (isinstance(v, Sym) and v.meta.get('ty') == 'bytes') or type(v).__name__ == 'Rope':
                    r = self.models.bytes_len(self, v)
                    return r.v if isinstance(r, K) else None
                return None
            la, lb = _bl(a), _bl(b)
            if la is not None and lb is not None and la != lb:
                return False
        if isinstance(a, (Inst, ListV, DictV)) and isinstance(b, K) and b.v is None:
            return False
        if isinstance(b, (Inst, ListV, DictV)) and isinstance(a, K) and a.v is None:
            return False
        # containers against values of another kind: a list / tuple equals only a list / tuple, a dict only a dict, a set only a set
        for x, y in ((a, b), (b, a)):
            if isinstance(x, (ListV, DictV, SetV)) and isinstance(y, K):
                if isinstance(x, ListV) and isinstance(y.v, (list, tuple)):
                    try:
                        return self.models.to_const(x) == y.v
                    except self.models.NotConst:
                        return None if len(x.items) == len(y.v) else False
                if isinstance(x, DictV) and isinstance(y.v, dict) or isinstance(x, SetV) and isinstance(y.v, (set, frozenset)):
                    return None
                return False
            if isinstance(x, ListV) and isinstance(y, (DictV, SetV)) or isinstance(x, DictV) and isinstance(y, SetV):
                return False
        if isinstance(a, ClassRef) and isinstance(b, ClassRef):
            return a is b or (a.name == b.name and a.module == b.module and a.node is b.node)
        if isinstance(a, (Builtin, ClassRef, Ext)) and isinstance(b, (Builtin, ClassRef, Ext)):
            return self.vkey(a) == self.vkey(b)
        ka, kb = self.vkey(a), self.vkey(b)
        if ka == kb and not isinstance(a, (Inst, ListV, DictV)):
            return True
        if isinstance(a, ListV) and isinstance(b, ListV):
            if len(a.items) != len(b.items):
                return False
            res = True
            for x, y in zip(a.items, b.items):
                if x is y:
                    continue            # list equality short-cuts on identity
                if isinstance(x, Inst) and x.cls is not None and self.prog.find_method(x.cls, '__eq__')[1] is not None:
                    rr = self.cmp(ast.Eq(), x, y, None)     # element-wise __eq__ of user classes
                    r = bool(rr.v) if isinstance(rr, K) else None
                else:
                    r = self.eq3(x, y)
                if r is False:
                    return False
                if r is None:
                    res = None
            return res
        return None

    # =============================================================== expressions
    def ev(self, n, fr):
        self.steps += 1
        if self.steps > self.MAX_STEPS:
            raise Fail('step budget exceeded')
        m = getattr(self, 'ev_' + type(n).__name__, None)
        if m is None:
            raise Fail(f'unsupported expression {type(n).__name__} line {getattr(n, "lineno", "?")}')
        return m(n, fr)

    def ev_Constant(self, n, fr):
        return K(n.value)

    def ev_Name(self, n, fr):
        return self.lookup(n.id, fr, n)

    def lookup(self, name, fr, node=None):
        if fr.has(name):
            return fr.lookup(name)
        cs = getattr(fr, 'class_scope', None)
        if cs is not None:
            # an expression of a class body: names defined earlier in the body are in scope (a def is a plain function there)
            if name in cs.methods:
                f = FuncRef(cs.methods[name], cs.module, cs)
                decs = f.decorators()
                return f if not decs or all(d in ('staticmethod', 'classmethod') for d in decs) else self.decorated(f)
            if name in cs.class_attrs:
                r = self.class_attr(cs, name, None)
                if r is not None:
                    return r
            if name in getattr(cs, 'nested', {}):
                return cs.nested[name]
        return self.global_lookup(name, fr.module, node)

    def global_lookup(self, name, module, node=None):
        m = self.prog.modules.get(module)
        if m is not None:
            if name in m.classes:
                return m.classes[name]
            if name in m.funcs:
                return self.decorated(m.funcs[name])
            if name in m.imports:
                tgt, nm = m.imports[name]
                return self.resolve_import(tgt, nm)
            if (module, name) in self.__dict__.get('_globals', {}):
                return self._globals[(module, name)]
            if name in m.consts:
                # module-level objects are created once per process: keep their identity (module-level mutable state is observable)
                cache = self.__dict__.setdefault('_globals', {})
                if (module, name) not in cache:
                    cache[(module, name)] = self.ev(m.consts[name], Frame(module))
                return cache[(module, name)]
        if name in ('True', 'False', 'None'):
            return K({'True': True, 'False': False, 'None': None}[name])
        if m is not None and name in m.unindexed and name not in m.consts:
            # bound by module-level control flow (try/except fallbacks, if/else, loops filling tables): those statements are interpreted,
            # once, in the order they stand in the module
            ran = self.__dict__.setdefault('_module_init', {})
            if module not in ran:
                ran[module] = 'running'
                fr = Frame(module)
                for st in m.dynamic_stmts:
                    self.stmt(st, fr)
                cache = self.__dict__.setdefault('_globals', {})
                for k, v in fr.vars.items():
                    cache.setdefault((module, k), v)
                ran[module] = 'done'
            elif ran[module] == 'running':
                raise Fail(f'module-level name {name} of {module} is used while the module-level statements that bind it run')
            if (module, name) in self.__dict__.get('_globals', {}):
                return self._globals[(module, name)]
            raise Fail(f'module-level name {name} of {module} is not bound by the control flow that should bind it')
        import builtins as _bi
        if not hasattr(_bi, name) and name not in ('__name__', '__file__', '__doc__', '__class__', 'reveal_type'):
            raise Fail(f'name {name} is not defined in module {module}')
        if name in ('NotImplemented', 'Ellipsis', '__debug__'):
            return K(getattr(_bi, name))        # built-in constants are values, not callables
        return Builtin(name)

    TRANSPARENT_DECORATORS = ('property', 'staticmethod', 'classmethod', 'setter', 'getter', 'abstractmethod', 'lru_cache', 'cache', 'wraps', 'overload',
                              'cached_property', 'final', 'override', 'dataclass', 'total_ordering', 'no_type_check', 'deprecated')

    @staticmethod
    def dec_names(node):
        out = []
        for d in getattr(node, 'decorator_list', []):
            core = d.func if isinstance(d, ast.Call) else d
            out.append(core.id if isinstance(core, ast.Name) else core.attr if isinstance(core, ast.Attribute) else '?')
        return out

    def decorated(self, f):
        """what the name of a decorated def is bound to: decorators the interpreter does not model itself are applied (bottom-up) to the function"""
        decs = getattr(f.node, 'decorator_list', None)
        if not decs:
            return f
        cache = self.__dict__.setdefault('_decorated', {})
        key = id(f.node)
        if key in cache:
            return cache[key]
        v = f
        for d in reversed(decs):
            core = d.func if isinstance(d, ast.Call) else d
            name = core.id if isinstance(core, ast.Name) else core.attr if isinstance(core, ast.Attribute) else None
            if name in self.TRANSPARENT_DECORATORS:
                continue
            fr = Frame(f.module, f.closure, cls=f.cls)
            dec = self.ev(d, fr)
            if isinstance(dec, Ext) and dec.dotted in ('functools.singledispatch', 'singledispatch') and isinstance(v, FuncRef):
                v = self.models.SingleDispatch(self, v)
                continue
            if isinstance(dec, Ext) and dec.dotted in ('functools.singledispatchmethod', 'singledispatchmethod') and isinstance(v, FuncRef):
                v = self.models.SingleDispatch(self, v, method=True)
                continue
            if isinstance(dec, Ext) and dec.dotted in ('contextlib.contextmanager', 'contextmanager') and isinstance(v, FuncRef):
                v = self.models.ContextManagerFactory(v)
                continue
            if isinstance(dec, (Ext, Builtin, Sym, Term)):
                raise Fail(f'decorator {ast.unparse(d)[:40]} of {f.qual} is not modelled')
            v = self.call(dec, [v], {}, d)
        cache[key] = v
        return v

    def resolve_import(self, tgt, nm, seen=()):
        if tgt == '<ext>':
            if nm in EXT_CONSTANTS:
                return K(EXT_CONSTANTS[nm])
            return Ext(nm)
        full = f'{tgt}.{nm}' if tgt else nm
        if full in self.prog.modules and tgt in self.prog.modules and nm not in self.prog.modules[tgt].classes \
                and nm not in self.prog.modules[tgt].funcs and nm not in self.prog.modules[tgt].consts \
                and nm not in self.prog.modules[tgt].imports:
            return Ext('<pkg>.' + full)
        m = self.prog.modules.get(tgt)
        if m is None:
            if full in self.prog.modules:
                return Ext('<pkg>.' + full)
            return Ext(full)
        if nm in m.classes:
            return m.classes[nm]
        if nm in m.funcs:
            return self.decorated(m.funcs[nm])
        if nm in m.consts:
            cache = self.__dict__.setdefault('_globals', {})
            if (tgt, nm) not in cache:
                cache[(tgt, nm)] = self.ev(m.consts[nm], Frame(tgt))
            return cache[(tgt, nm)]
        if nm in m.imports and (tgt, nm) not in seen:
            t2, n2 = m.imports[nm]
            return self.resolve_import(t2, n2, seen + ((tgt, nm),))
        if full in self.prog.modules:
            return Ext('<pkg>.' + full)
        # fall back on the bare-name index (import cycles through __init__)
        if nm in self.prog.classes:
            return self.prog.classes[nm]
        if nm in self.prog.funcs:
            return self.prog.funcs[nm]
        return Ext(full)

    def ev_JoinedStr(self, n, fr):
        parts = []
        for v in n.values:
            if isinstance(v, ast.Constant):
                parts.append(K(v.value))
            else:
                x = self.ev(v.value, fr)
                spec = None
                if v.format_spec is not None:
                    sp = self.ev(v.format_spec, fr)
                    spec = sp.v if isinstance(sp, K) and isinstance(sp.v, str) else False
                if isinstance(x, Inst) and x.cls is not None:
                    # formatting an object runs its __format__ / __str__ / __repr__ (eagerly, when the f-string is evaluated)
                    order = ('__repr__',) if v.conversion == 114 else ('__str__', '__repr__')
                    for dn in order:
                        c, m = self.prog.find_method(x.cls, dn)
                        if m is not None:
                            x = self.invoke(FuncRef(m, c.module, c), [x], {})
                            break
                if isinstance(x, K) and spec is not False and not callable(x.v):
                    val = x.v
                    if v.conversion == 114:
                        val = repr(val)
                    elif v.conversion == 115:
                        val = str(val)
                    elif v.conversion == 97:
                        val = ascii(val)
                    try:
                        parts.append(K(format(val, spec or '')))
                    except (ValueError, TypeError) as e:
                        raise RaiseEx(type(e).__name__, 'format')
                elif isinstance(spec, str) and v.conversion == -1 and self.models.format_bits(x, spec) is not None:
                    parts.append(self.models.format_bits(x, spec))
                elif isinstance(x, PBits) and x.view == 'str' and spec is None and v.conversion == -1:
                    parts.append(x)
                elif spec is None and v.conversion == -1 and not isinstance(x, (Inst, ListV, DictV, SetV)):
                    parts.append(x)
                else:
                    parts.append(Term('fmt', x, K(spec if isinstance(spec, str) else None), K(v.conversion)))
        if all(isinstance(p, K) for p in parts):
            return K(''.join(str(p.v) for p in parts))
        if len(parts) == 1 and isinstance(parts[0], self.models.BinText):
            return parts[0]
        return Term('fstr', *parts)

    def ev_Tuple(self, n, fr):
        return ListV(self.ev_elts(n.elts, fr), tup=True)

    def ev_List(self, n, fr):
        return ListV(self.ev_elts(n.elts, fr))

    def ev_Set(self, n, fr):
        s = SetV()
        for e in self.ev_elts(n.elts, fr):
            s.items[self.dkey(e)] = e
        return s

    def ev_elts(self, elts, fr):
        out = []
        for e in elts:
            if isinstance(e, ast.Starred):
                v = self.ev(e.value, fr)
                it = self.iterate(v)
                if it is None:
                    raise Fail('starred over unknown')
                out += it
            else:
                out.append(self.ev(e, fr))
        return out

    def dkey(self, v):
        hook = getattr(v, 'abs_dkey', None)
        if hook is not None:
            return hook(self)
        if isinstance(v, Inst) and v.cls is not None:
            # user-defined __hash__ decides dictionary identity (its agreement with __eq__ is a separate obligation, C01.D6/C13.D5)
            c, m = self.prog.find_method(v.cls, '__hash__')
            if m is not None:
                h = self.invoke(FuncRef(m, c.module, c), [v], {})
                return ('hashed', v.cls.name, repr(self.vkey(h)))
            if any('dataclass' in self.models.class_decorators(k_) or '__eq__' in k_.methods or '__hash__' in k_.class_attrs for k_ in self.prog.mro(v.cls)):
                # generated / aliased / disabled __hash__: the hash builtin decides (TypeError for an unhashable key)
                h = self.models.builtin(self, 'hash', [v], {}, None)
                if not (isinstance(h, Term) and h.op == 'hash' and h.a and h.a[0] is v):
                    return ('hashed', v.cls.name, repr(self.vkey(h)))
        if isinstance(v, K):
            try:
                hash(v.v)
                return v.v
            except TypeError:
                return ('unhashable', id(v))
        if isinstance(v, ListV) and v.tup:
            # tuples are keyed by their contents
            return ('tuple',) + tuple(repr(self.dkey(x)) for x in v.items)
        return self.vkey(v)

    def ev_Dict(self, n, fr):
        d = DictV()
        for k, v in zip(n.keys, n.values):
            if k is None:
                src = self.ev(v, fr)
                if isinstance(src, DictV):
                    d.d.update(src.d)
                    d.keyobj.update(src.keyobj)
                continue
            kk = self.ev(k, fr)
            key = self.dkey(kk)
            d.d[key] = self.ev(v, fr)
            d.keyobj[key] = kk
        return d

    def ev_NamedExpr(self, n, fr):
        v = self.ev(n.value, fr)
        # the target of := is bound in the enclosing function scope, not in a comprehension's own scope
        f = fr
        while f.parent is not None and f.func is not None and f.parent.func is f.func and getattr(f, 'comp', False):
            f = f.parent
        self.assign(n.target, v, f)
        return v

    @staticmethod
    def is_generator(node):
        cache = getattr(node, '_is_gen', None)
        if cache is None:
            cache = False
            work = list(getattr(node, 'body', [])) if not isinstance(node, ast.Lambda) else []
            while work:
                x = work.pop()
                if isinstance(x, (ast.Yield, ast.YieldFrom)):
                    cache = True
                    break
                if isinstance(x, (ast.FunctionDef, ast.AsyncFunctionDef, ast.Lambda, ast.ClassDef)):
                    continue
                work.extend(ast.iter_child_nodes(x))
            node._is_gen = cache
        return cache

    class Coroutine:
        """a generator function being run: its body executes on a thread of its own that runs only between a request for the next item
        and the next `yield` (strict hand-over, never concurrently with the consumer) - so the body is suspended at each yield exactly
        as Python suspends it, and what the consumer does in between is visible to it"""
        def __init__(self, interp, f, fr):
            import threading
            self.interp, self.f, self.fr = interp, f, fr
            self.to_gen, self.to_main = threading.Semaphore(0), threading.Semaphore(0)
            self.item, self.done, self.exc, self.thread, self.pending = None, False, None, None, None
            self.cur, self.depth = list(interp.cur), interp.depth

        def body(self):
            self.to_gen.acquire()
            try:
                self.interp.block(self.f.node.body, self.fr)
            except ReturnEx:
                pass
            except BaseException as e:      # whatever ends the body ends the consumer's next() the same way
                self.exc = e
            self.done = True
            self.to_main.release()

        def emit(self, v):
            self.item = v
            self.to_main.release()
            self.to_gen.acquire()
            if self.pending is not None:
                e, self.pending = self.pending, None
                raise e                 # generator.throw(): the exception appears at the yield the body is suspended in

        def throw(self, exc):
            if self.done or self.thread is None:
                self.done = True
                raise exc
            self.pending = exc
            return self.next()

        def next(self):
            import threading
            if self.done:
                raise StopIter()
            it = self.interp
            if self.thread is None:
                old = threading.stack_size()
                try:
                    threading.stack_size(512 * 1024 * 1024)
                    self.thread = threading.Thread(target=self.body, daemon=True)
                    self.thread.start()
                finally:
                    threading.stack_size(old)
            saved = (it.cur, it.depth)
            it.cur, it.depth = self.cur, self.depth
            self.to_gen.release()
            self.to_main.acquire()
            self.cur, self.depth = it.cur, it.depth
            it.cur, it.depth = saved
            if self.exc is not None:
                e, self.exc = self.exc, None
                raise e
            if self.done:
                raise StopIter()
            return self.item

        def pump(self):
            while True:
                try:
                    x = self.next()
                except StopIter:
                    return
                yield x

    def gen_sink(self, fr):
        f = fr
        while f is not None:
            if getattr(f, 'gen', None) is not None:
                return f.gen
            f = f.parent if (f.parent is not None and f.parent.func is f.func) else None
        raise Fail('yield outside a generator frame')

    def ev_Yield(self, n, fr):
        sink = self.gen_sink(fr)
        sink.emit(self.ev(n.value, fr) if n.value is not None else K(None))
        return K(None)          # nothing is sent into the package's generators

    def ev_YieldFrom(self, n, fr):
        sink = self.gen_sink(fr)
        src = self.ev(n.value, fr)
        for x in self.pull_iter(src, n):
            sink.emit(x)
        return K(None)

    def ev_Starred(self, n, fr):
        raise Fail('starred expression outside a call / display')

    def ev_Lambda(self, n, fr):
        return FuncRef(n, fr.module, cls=fr.cls, closure=fr)

    def ev_IfExp(self, n, fr):
        c = self.ev(n.test, fr)
        return self.ev(n.body, fr) if self.truth(c, n) else self.ev(n.orelse, fr)

    def ev_UnaryOp(self, n, fr):
        v = self.ev(n.operand, fr)
        if isinstance(n.op, ast.Not):
            if isinstance(v, Cond):
                return Cond(v.key, not v.pol, v.desc)
            return K(not self.truth(v, n))
        if isinstance(v, K):
            try:
                if isinstance(n.op, ast.USub):
                    return K(-v.v)
                if isinstance(n.op, ast.Invert):
                    return K(~v.v)
                if isinstance(n.op, ast.UAdd):
                    return K(+v.v)
            except Exception:
                raise RaiseEx('TypeError', 'unary')
        p = as_poly(v)
        if p is not None:
            if isinstance(n.op, ast.USub):
                return PInt(-p)
            if isinstance(n.op, ast.Invert):
                return PInt(-p - Poly.const(1))
        return Term('unary' + type(n.op).__name__, v)

    def ev_BoolOp(self, n, fr):
        last = len(n.values) - 1
        if isinstance(n.op, ast.And):
            for i, e in enumerate(n.values):
                v = self.ev(e, fr)
                if i == last:
                    return v
                if not self.truth(v, n):
                    return v if not isinstance(v, Cond) else K(False)
        for i, e in enumerate(n.values):
            v = self.ev(e, fr)
            if i == last:
                return v
            if self.truth(v, n):
                return v if not isinstance(v, Cond) else K(True)

    def ev_Compare(self, n, fr):
        left = self.ev(n.left, fr)
        conds = []
        for op, rn in zip(n.ops, n.comparators):
            right = self.ev(rn, fr)
            r = self.cmp(op, left, right, n)
            if isinstance(r, K):
                if not r.v:
                    return K(False)
            else:
                conds.append(r)
            left = right
        if not conds:
            return K(True)
        if len(conds) == 1:
            return conds[0]
        for c in conds:
            if not self.truth(c, n):
                return K(False)
        return K(True)

    def cmp(self, op, a, b, n):
        """-> K(bool) or Cond"""
        hook = getattr(a, 'abs_cmp', None) or getattr(b, 'abs_cmp', None)
        if hook is not None:
            r = hook(self, op, a, b, n)
            if r is not None:
                return r
        t = type(op)
        if t in (ast.Eq, ast.NotEq):
            if isinstance(a, Inst) and a.cls is not None:
                c, m = self.prog.find_method(a.cls, '__eq__')
                if m is not None:
                    r = self.invoke(FuncRef(m, c.module, c), [a, b], {})
                    if isinstance(r, K) and r.v is NotImplemented:
                        # the comparison protocol: the reflected __eq__ of the other operand, then identity
                        r = None
                        if isinstance(b, Inst) and b.cls is not None:
                            c2, m2 = self.prog.find_method(b.cls, '__eq__')
                            if m2 is not None:
                                r = self.invoke(FuncRef(m2, c2.module, c2), [b, a], {})
                                if isinstance(r, K) and r.v is NotImplemented:
                                    r = None
                        if r is None:
                            r = K(a is b)
                    if t is ast.NotEq:
                        if isinstance(r, Cond):
                            return Cond(r.key, not r.pol, r.desc)
                        return K(not self.truth(r, n))
                    return r if isinstance(r, (K, Cond)) else K(self.truth(r, n))
                r = self.models.dataclass_eq(self, a, b)
                if r is not None:
                    if t is ast.NotEq:
                        return Cond(r.key, not r.pol, r.desc) if isinstance(r, Cond) else K(not self.truth(r, n))
                    return r
            pa, pb = as_poly(a), as_poly(b)
            if pa is not None and pb is not None and not (isinstance(a, K) and isinstance(b, K)):
                return self.int_cond(op, pa, pb)
            r = self.eq3(a, b)
            if r is None:
                ka, kb = sorted([repr(self.vkey(a)), repr(self.vkey(b))])
                return Cond(('eq', ka, kb), t is ast.Eq, f'{vrepr(a)[:40]} == {vrepr(b)[:40]}')
            return K(r if t is ast.Eq else not r)
        if t in (ast.In, ast.NotIn):
            rng = b.a if isinstance(b, Term) and b.op == 'range' and len(b.a) <= 2 else \
                (K(b.v.start), K(b.v.stop)) if isinstance(b, K) and isinstance(b.v, range) and b.v.step == 1 and not isinstance(a, K) else None
            if rng is not None and (as_poly(a) is not None or isinstance(a, (Sym, PInt))):
                lo, hi = (K(0), rng[0]) if len(rng) == 1 else rng
                inside = self.truth(self.cmp(ast.LtE(), lo, a, n), n) and self.truth(self.cmp(ast.Lt(), a, hi, n), n)
                return K(inside if t is ast.In else not inside)
            if isinstance(b, Inst) and b.cls is not None:
                c, m = self.prog.find_method(b.cls, '__contains__')
                if m is not None:
                    r = self.truth(self.invoke(FuncRef(m, c.module, c), [b, a], {}), n)
                    return K(r if t is ast.In else not r)
                c, m = self.prog.find_method(b.cls, '__iter__')
                if m is not None:
                    b = ListV(self.iterate(b))
            r = self.contains(b, a)
            if r is None:
                return Cond(('in', repr(self.vkey(a)), repr(self.vkey(b))), t is ast.In, f'{vrepr(a)[:30]} in {vrepr(b)[:30]}')
            return K(r if t is ast.In else not r)
        if t in (ast.Is, ast.IsNot):
            if isinstance(a, K) and isinstance(b, K):
                r = a.v is b.v or (a.v == b.v and type(a.v) is type(b.v) and isinstance(a.v, (int, str, bytes)))
                return K(r if t is ast.Is else not r)
            for x, y in ((a, b), (b, a)):
                if isinstance(x, K) and type(x.v) is object:
                    # a private sentinel `object()`: nothing but that very object is identical to it
                    same_obj = isinstance(y, K) and y.v is x.v
                    return K(same_obj if t is ast.Is else not same_obj)
            none_side = b if isinstance(b, K) and b.v is None else a if isinstance(a, K) and a.v is None else None
            other = a if none_side is b else b
            if none_side is not None:
                if isinstance(other, (Inst, ListV, DictV, SetV, BA, PBits, PInt, ClassRef, FuncRef, Bound, Native)) or \
                        getattr(other, 'not_none', False) or not isinstance(other, (K, Sym, Term, Cond)):
                    return K(t is ast.IsNot)        # only the constant None is None; model objects of library classes never are
                if isinstance(other, Sym) and other.meta.get('not_none'):
                    return K(t is ast.IsNot)
                if isinstance(other, (Term, Sym)) and isinstance(self.models.bytes_len(self, other), K):
                    return K(t is ast.IsNot)        # a byte string of known length is a value, not None
                if isinstance(other, Term) and other.op in ('hex', 'decode', 'encode', 'cat', 'sha256', 'sha512', 'to_bytes', 'from_bytes', 'fstr', 'tobytes',
                                                            'crc', 'bslice', 'fromhex', 'reversed_bytes', 'int', 'strfmt', 'join'):
                    return K(t is ast.IsNot)        # results of str/bytes/int operations are never None
                if isinstance(other, Term) and (other.op in ('+', '-', '*', '//', '%', '<<', '>>', '&', '|', '^', '**', 'mod2', 'mod2x', 'unaryUSub', 'unaryInvert',
                                                             'unaryNot', 'len', 'count', 'bool', 'bit', 'int2', 'abs', 'range') or getattr(other, 'bounds', None) is not None):
                    return K(t is ast.IsNot)        # results of arithmetic are numbers
                if isinstance(other, Term) and (other.op.startswith('ext:') or other.op.startswith('.') or other.op.startswith('builtin:')):
                    return K(t is ast.IsNot)        # opaque results of library calls / methods of library values: a value, not None
                return Cond(('isnone', repr(self.vkey(other))), t is ast.Is, f'{vrepr(other)[:40]} is None')
            if self.vkey(a) == self.vkey(b):
                return K(t is ast.Is)
            if isinstance(a, (Builtin, ClassRef, Ext)) and isinstance(b, (Builtin, ClassRef, Ext)):
                return K(t is ast.IsNot)
            if isinstance(a, (Inst, ListV, DictV, SetV, BA)) and isinstance(b, (Inst, ListV, DictV, SetV, BA)):
                return K((a is b) == (t is ast.Is))        # identity of heap objects is decided by the model's own identity
            return Cond(('is', repr(self.vkey(a)), repr(self.vkey(b))), t is ast.Is, 'is')
        if isinstance(a, Inst) and a.cls is not None:
            dn = {ast.Lt: '__lt__', ast.LtE: '__le__', ast.Gt: '__gt__', ast.GtE: '__ge__'}[t]
            c, m = self.prog.find_method(a.cls, dn)
            if m is not None:
                r = self.invoke(FuncRef(m, c.module, c), [a, b], {})
                return r if isinstance(r, (K, Cond)) else K(self.truth(r, n))
            if isinstance(b, Inst) and b.cls is not None:
                dn = {ast.Lt: '__gt__', ast.LtE: '__ge__', ast.Gt: '__lt__', ast.GtE: '__le__'}[t]
                c, m = self.prog.find_method(b.cls, dn)
                if m is not None:
                    r = self.invoke(FuncRef(m, c.module, c), [b, a], {})
                    return r if isinstance(r, (K, Cond)) else K(self.truth(r, n))
        if isinstance(a, (K, ListV)) and isinstance(b, (K, ListV)):
            try:
                ca, cb = self.models.to_const(a), self.models.to_const(b)
            except self.models.NotConst:
                ca = cb = None
                if isinstance(a, ListV) and isinstance(b, ListV):
                    # lexicographic comparison, element by element
                    for x, y in zip(a.items, b.items):
                        e = self.cmp(ast.Eq(), x, y, n)
                        if self.truth(e, n):
                            continue
                        strict = {ast.Lt: ast.Lt, ast.LtE: ast.Lt, ast.Gt: ast.Gt, ast.GtE: ast.Gt}[t]()
                        return self.cmp(strict, x, y, n)
                    la, lb = len(a.items), len(b.items)
                    return K({ast.Lt: la < lb, ast.LtE: la <= lb, ast.Gt: la > lb, ast.GtE: la >= lb}[t])
            else:
                try:
                    return K({ast.Lt: _op.lt, ast.LtE: _op.le, ast.Gt: _op.gt, ast.GtE: _op.ge}[t](ca, cb))
                except Exception:
                    raise RaiseEx('TypeError', 'unorderable')
        pa, pb = as_poly(a), as_poly(b)
        if pa is not None and pb is not None:
            return self.int_cond(op, pa, pb)
        # a symbolic quantity with known bounds against a constant
        for x, y, flip in ((a, b, False), (b, a, True)):
            bnd = getattr(x, 'bounds', None)
            if bnd is not None and isinstance(y, K) and isinstance(y.v, int):
                lo, hi = bnd
                tt = {ast.Lt: ast.Gt, ast.LtE: ast.GtE, ast.Gt: ast.Lt, ast.GtE: ast.LtE}[t] if flip else t
                c = y.v
                if tt is ast.GtE and lo >= c or tt is ast.Gt and lo > c or (hi is not None and (tt is ast.LtE and hi <= c or tt is ast.Lt and hi < c)):
                    return K(True)
                if hi is not None and (tt is ast.GtE and hi < c or tt is ast.Gt and hi <= c) or tt is ast.LtE and lo > c or tt is ast.Lt and lo >= c:
                    return K(False)
        ra, rb = self.models.irange(a), self.models.irange(b)
        if ra is not None and rb is not None:
            (alo, ahi), (blo, bhi) = ra, rb
            dec = {ast.Lt: (ahi < blo, alo >= bhi), ast.LtE: (ahi <= blo, alo > bhi), ast.Gt: (alo > bhi, ahi <= blo), ast.GtE: (alo >= bhi, ahi < blo)}[t]
            if dec[0]:
                return K(True)
            if dec[1]:
                return K(False)
        return Cond(('cmp', t.__name__, repr(self.vkey(a)), repr(self.vkey(b))), True,
                    f'{vrepr(a)[:40]} {t.__name__} {vrepr(b)[:40]}')

    def contains(self, coll, x):
        if isinstance(coll, ListV):
            items = coll.items
        elif isinstance(coll, DictV):
            if isinstance(x, K) or True:
                k = self.dkey(x)
                if k in coll.d:
                    return True
                if all(not isinstance(o, tuple) or o[:1] not in (('sym',), ('t',), ('p',)) for o in list(coll.d) + [k]):
                    return False
                # symbolic keys: unknown unless the same key object
                if getattr(self, 'INJECTIVE_KEYS', True):
                    return False
                return None if (isinstance(k, tuple) or any(isinstance(o, tuple) for o in coll.d)) else False
        elif isinstance(coll, SetV):
            k = self.dkey(x)
            if k in coll.items:
                return True
            if isinstance(x, K) and all(not isinstance(o, tuple) for o in coll.items):
                return False
            if all(not isinstance(o, tuple) or o[:1] not in (('sym',), ('t',), ('p',)) for o in list(coll.items) + [k]):
                return False        # constants and objects keyed by their own __hash__ result: absent means not a member
            if getattr(self, 'INJECTIVE_KEYS', True):
                return False
            return None if coll.items else False
        elif isinstance(coll, K) and isinstance(coll.v, (tuple, list, str, bytes, dict, range, set, frozenset)):
            if isinstance(x, K):
                try:
                    return x.v in coll.v
                except Exception:
                    return None
            if isinstance(x, PBits) and x.view == 'str' and isinstance(coll.v, str):
                return None
            if isinstance(coll.v, (tuple, list)):
                items = [K(i) for i in coll.v]
            else:
                return None
        elif isinstance(coll, PBits) and coll.view == 'str' and isinstance(x, K) and isinstance(x.v, str):
            if coll.known():
                return x.v in coll.pat
            return None
        elif isinstance(coll, Term) and coll.op == 'hex' and isinstance(x, K) and isinstance(x.v, str):
            if x.v == '':
                return True
            if set(x.v) - set('0123456789abcdef'):
                return False        # the text of bytes.hex() consists of lower-case hex digits only
            return None
        else:
            return None
        rx = self.models.irange(x) if not isinstance(x, K) else None
        if rx is not None and all(isinstance(i_, K) and isinstance(i_.v, int) for i_ in items) and rx[1] - rx[0] < 1024:
            # an integer known to lie in [lo, hi] against constants: a member when they cover the range, not one when none lies inside
            have = {int(i_.v) for i_ in items}
            if all(k_ in have for k_ in range(rx[0], rx[1] + 1)):
                return True
            if not any(rx[0] <= k_ <= rx[1] for k_ in have):
                return False
        anyunk = False
        for it in items:
            if it is x:
                return True             # membership short-cuts on identity
            if any(isinstance(o, Inst) and o.cls is not None and self.prog.find_method(o.cls, '__eq__')[1] is not None for o in (x, it)):
                rr = self.cmp(ast.Eq(), it, x, None)          # objects with their own __eq__ decide (the element is the left operand)
                r = bool(rr.v) if isinstance(rr, K) else None
            else:
                r = self.eq3(x, it)
            if r is True:
                return True
            if r is None:
                anyunk = True
        return None if anyunk else False

    def ev_BinOp(self, n, fr):
        a, b = self.ev(n.left, fr), self.ev(n.right, fr)
        return self.binop(n.op, a, b, n)

    def binop(self, op, a, b, node=None):
        hook = getattr(a, 'abs_binop', None)
        if hook is not None:
            r = hook(self, op, a, b, False)
            if r is not None:
                return r
        hook = getattr(b, 'abs_binop', None)
        if hook is not None:
            r = hook(self, op, a, b, True)
            if r is not None:
                return r
        t = type(op)
        dn = {ast.Add: 'add', ast.Sub: 'sub', ast.Mult: 'mul', ast.FloorDiv: 'floordiv', ast.Mod: 'mod', ast.LShift: 'lshift', ast.RShift: 'rshift',
              ast.BitAnd: 'and', ast.BitOr: 'or', ast.BitXor: 'xor', ast.Pow: 'pow', ast.Div: 'truediv', ast.MatMult: 'matmul'}.get(t)
        if dn is not None:
            for x, y, name in ((a, b, f'__{dn}__'), (b, a, f'__r{dn}__')):
                if isinstance(x, Inst) and x.cls is not None and not (x.native is not None and isinstance(x.native, BA)):
                    c, m = self.prog.find_method(x.cls, name)
                    if m is not None:
                        r = self.invoke(FuncRef(m, c.module, c), [x, y], {})
                        if not (isinstance(r, K) and r.v is NotImplemented):
                            return r
                        continue
                    if any(name in k.class_attrs for k in self.prog.mro(x.cls)):
                        # an operator bound by a class-level assignment (`__or__ = __ior__`)
                        r = self.call(self.class_attr(x.cls, name, x), [y], {}, node)
                        if not (isinstance(r, K) and r.v is NotImplemented):
                            return r
        if t is ast.Mult:
            for x, y in ((a, b), (b, a)):
                xb = x.native if isinstance(x, Inst) and isinstance(x.native, BA) and x.cls is None else x
                if isinstance(xb, BA) and isinstance(y, K) and isinstance(y.v, int) and not isinstance(y.v, bool):
                    self.allocation(len(xb) * max(0, y.v), node)
                    r = BA()
                    for _ in range(max(0, y.v)):
                        r.extend(xb)
                    return r
            # sequence repetition: the size of the result is work / memory the interpreted program spends
            for x, y in ((a, b), (b, a)):
                if isinstance(y, K) and isinstance(y.v, int) and not isinstance(y.v, bool):
                    size = len(x.items) if isinstance(x, ListV) else len(x.v) if isinstance(x, K) and isinstance(x.v, (str, bytes, list, tuple, bytearray)) else None
                    if size is not None and size * y.v > 0:
                        self.allocation(size * y.v, node)
        if (isinstance(a, K) and type(a.v).__name__ == 'SymBuf') or (isinstance(b, K) and type(b.v).__name__ == 'SymBuf'):
            # a bytearray with symbolic content in an expression: its value is the byte string it holds at this moment
            a = a.v.rope.simplify() if isinstance(a, K) and type(a.v).__name__ == 'SymBuf' else a
            b = b.v.rope.simplify() if isinstance(b, K) and type(b.v).__name__ == 'SymBuf' else b
        if isinstance(a, K) and isinstance(b, K):
            f = _BINOPS.get(t)
            if f:
                try:
                    return K(f(a.v, b.v))
                except ZeroDivisionError:
                    raise RaiseEx('ZeroDivisionError', '')
                except TypeError:
                    raise RaiseEx('TypeError', f'{type(a.v).__name__} {_OPNAME[t]} {type(b.v).__name__}')
                except (ValueError, OverflowError) as e:
                    raise RaiseEx(type(e).__name__, str(e))
        r = self.models.bounded_binop(self, t, a, b)
        if r is not None:
            return r
        pa, pb = as_poly(a), as_poly(b)
        if pa is not None and pb is not None and (isinstance(a, PInt) or isinstance(b, PInt)) \
                and not (isinstance(a, K) and isinstance(a.v, bool) and False):
            if t is ast.Add:
                return PInt(pa + pb)
            if t is ast.Sub:
                return PInt(pa - pb)
            if t is ast.Mult:
                return PInt(pa * pb)
            if t is ast.FloorDiv and pb.is_const() and pb.cval() > 0:
                q = pa.divide(pb)
                if q is not None:
                    return PInt(q)
            if t is ast.Mod and pb.is_const() and pb.cval() > 0 and pa.divide(pb) is not None:
                return K(0)
            if t is ast.LShift and pb.is_const() and pb.cval() >= 0:
                return PInt(pa * Poly.const(1 << pb.cval()))
            return atom(f'({pa}){_OPNAME[t]}({pb})')
        if isinstance(a, SetV) and isinstance(b, SetV) and t in (ast.BitOr, ast.BitAnd, ast.Sub, ast.BitXor):
            return self.models.set_op(self, a, {ast.BitOr: 'union', ast.BitAnd: 'intersection', ast.Sub: 'difference', ast.BitXor: 'symmetric_difference'}[t], [b])
        if t is ast.Add:
            r = self.concat(a, b)
            if r is not None:
                return r
        if t is ast.Mult:
            for x, y in ((a, b), (b, a)):
                if isinstance(y, K) and isinstance(y.v, int) and not isinstance(y.v, bool) and isinstance(x, Term):
                    is_str = x.op in ('builtin:str', 'fstr', 'hex', 'decode', 'strfmt', 'builtin:bin', 'builtin:format', 'builtin:chr')
                    is_bytes = not is_str and isinstance(self.models.bytes_len(self, x), K)
                    if (is_str or is_bytes) and y.v <= 0:
                        return K('' if is_str else b'')         # a text / byte string repeated zero times
                    if (is_str or is_bytes) and y.v == 1:
                        return x
                if isinstance(x, ListV) and isinstance(y, K) and isinstance(y.v, int):
                    return ListV(x.items * y.v, x.tup)
                if isinstance(x, K) and isinstance(x.v, (str, bytes)) and isinstance(y, PInt):
                    return Term('repeat', x, y)
        if t is ast.Mod and isinstance(a, K) and isinstance(a.v, (str, bytes)):
            try:
                cb = self.models.to_const(b)
                return K(a.v % cb)
            except self.models.NotConst:
                pass
            except (TypeError, ValueError) as e:
                raise RaiseEx(type(e).__name__, '% formatting')
            return Term('strfmt', a, b)
        return Term(_OPNAME.get(t, t.__name__), a, b)

    ALLOC_LIMIT = 20_000_000

    def allocation(self, n, node=None):
        """the interpreted program builds a sequence of n elements in one step"""
        if n > self.ALLOC_LIMIT:
            raise Fail(f'allocation of {n} elements at line {getattr(node, "lineno", "?")}')

    def concat(self, a, b):
        def pat(v):
            if isinstance(v, PBits) and v.view == 'str':
                return v.pat
            if isinstance(v, K) and isinstance(v.v, str) and all(c in '01' for c in v.v):
                return v.v
            return None
        pa, pb = pat(a), pat(b)
        if pa is not None and pb is not None and (isinstance(a, PBits) or isinstance(b, PBits)):
            return self.models.bits_value(pa + pb, 'str')
        if isinstance(a, ListV) and isinstance(b, ListV):
            return ListV(a.items + b.items, a.tup)
        if isinstance(a, BA) and isinstance(b, BA):
            r = a.copy()
            r.extend(b)
            return r
        def _nat(x):
            return x.native if isinstance(x, Inst) and isinstance(x.native, BA) else x if isinstance(x, BA) else None
        if (isinstance(a, Inst) or isinstance(b, Inst)) and _nat(a) is not None and _nat(b) is not None and \
                not any(isinstance(x, Inst) and x.cls is not None and self.prog.find_method(x.cls, dn)[1] is not None for x, dn in ((a, '__add__'), (b, '__radd__'))):
            # bitarray.__add__: a new object of the left operand's type holding both bit strings; it is built by the library itself
            # (no __init__ of a subclass runs, no overridden extend is called)
            left = a if isinstance(a, Inst) else None
            r = self.new_inst(left.cls) if left is not None and left.cls is not None else None
            joined = _nat(a).copy()
            joined.extend(_nat(b))
            if r is None:
                return joined
            r.native = joined
            return r
        # byte/str concatenation of symbolic pieces -> flattened 'cat' term
        def isseq(v):
            return (isinstance(v, K) and isinstance(v.v, (bytes, str, bytearray))) or \
                   (isinstance(v, Term) and v.op in ('cat', 'to_bytes', 'sha256', 'bytes', 'fstr', 'tobytes', 'crc', 'slice', 'hex', 'encode', 'b64')) or \
                   (isinstance(v, Sym) and v.meta.get('ty') in ('bytes', 'str')) or \
                   (isinstance(v, PBits) and v.view == 'bytes')
        if isseq(a) or isseq(b):
            parts = []
            for x in (a, b):
                if isinstance(x, Term) and x.op == 'cat':
                    parts += list(x.a)
                elif isinstance(x, K) and isinstance(x.v, (bytes, str, bytearray)) and len(x.v) == 0:
                    continue
                else:
                    parts.append(x)
            # merge adjacent constants; adjacent byte strings of bit containers are the byte string of the joined container
            out = []
            for p in parts:
                if out and isinstance(p, K) and isinstance(out[-1], K) and type(p.v) is type(out[-1].v):
                    out[-1] = K(out[-1].v + p.v)
                elif out and isinstance(p, Term) and p.op == 'tobytes' and isinstance(out[-1], Term) and out[-1].op == 'tobytes' and getattr(out[-1], 'sliced', True):
                    j = self.models.padded(out[-1].a[2].ba)
                    j.extend(p.a[2].ba)
                    out[-1] = self.models.tobytes_term(j)
                else:
                    out.append(p)
            if len(out) == 1:
                return out[0]
            if not out:
                return a
            return Term('cat', *out)
        return None

    def ev_Subscript(self, n, fr):
        v = self.ev(n.value, fr)
        sl = n.slice
        if isinstance(sl, ast.Slice):
            lo = self.ev(sl.lower, fr) if sl.lower else K(None)
            hi = self.ev(sl.upper, fr) if sl.upper else K(None)
            st = self.ev(sl.step, fr) if sl.step else K(None)
            return self.getslice(v, lo, hi, st, n)
        i = self.ev(sl, fr)
        return self.getitem(v, i, n)

    def getslice(self, v, lo, hi, st, n):
        if isinstance(v, K) and type(v.v).__name__ == 'SymBuf':
            return v.v.rope.abs_slice(self, lo, hi, st, n)
        hook = getattr(v, 'abs_slice', None)
        if hook is not None:
            return hook(self, lo, hi, st, n)
        if isinstance(v, Inst) and v.native is not None and isinstance(v.native, BA):
            v = v.native
        if all(isinstance(x, K) for x in (lo, hi, st)):
            if isinstance(v, K):
                try:
                    return K(v.v[lo.v:hi.v:st.v])
                except Exception:
                    raise RaiseEx('TypeError', 'slice')
            if isinstance(v, PBits) and st.v is None:
                if v.view == 'bytes':
                    a = None if lo.v is None else lo.v * 8
                    b = None if hi.v is None else hi.v * 8
                    return self.models.bits_value(v.pat[a:b], 'bytes')
                return self.models.bits_value(v.pat[lo.v:hi.v], v.view)
            if isinstance(v, PBits) and st.v == -1 and lo.v is None and hi.v is None:
                return PBits(v.pat[::-1], v.view) if v.view == 'str' else Term('rev', v)
            if isinstance(v, ListV):
                return ListV(v.items[lo.v:hi.v:st.v], v.tup)
            if isinstance(v, BA) and st.v is None:
                return v.slice(lo.v, hi.v)
        if isinstance(v, Term) and v.op == 'tobytes' and all(isinstance(x, K) for x in (lo, hi, st)) and st.v is None \
                and all(x.v is None or isinstance(x.v, int) for x in (lo, hi)):
            full = self.models.padded(v.a[2].ba)
            nb = len(full) // 8
            a_, b_, _ = slice(lo.v, hi.v).indices(nb)
            return self.models.tobytes_term(full.slice(8 * a_, 8 * max(a_, b_))) if b_ > a_ else K(b'')
        if getattr(self, 'ROPES', False) and isinstance(v, (Sym, Term)) and all(isinstance(x, K) for x in (lo, hi, st)) \
                and not (isinstance(v, Sym) and st.v is None):
            from .rope import Rope
            r = Rope.of(self, v)
            if r is not None:
                return r.abs_slice(self, lo, hi, st, n)
        if isinstance(v, Sym) and v.meta.get('ty') == 'bytes' and v.meta.get('n') is not None \
                and all(isinstance(x, K) for x in (lo, hi)) and isinstance(st, K) and st.v is None:
            n_ = v.meta['n']
            a, b, _ = slice(lo.v, hi.v).indices(n_)
            if a == 0 and b == n_:
                return v
            return Sym(f'{v.name}[{a}:{b}]', ty='bytes', n=max(0, b - a), key=('bslice', self.vkey(v), a, b))
        return Term('slice', v, lo, hi, st)

    def getitem(self, v, i, n):
        if isinstance(i, SliceV):
            return self.getslice(v, i.lo, i.hi, i.st, n)      # x[slice(a, b)] is x[a:b]
        hook = getattr(v, 'abs_item', None)
        if hook is not None:
            return hook(self, i, n)
        hook = getattr(i, 'abs_index_into', None)
        if hook is not None:
            r = hook(self, v, n)
            if r is not None:
                return r
        if isinstance(v, Inst):
            if v.native is not None and isinstance(v.native, BA) and isinstance(i, K):
                return v.native.bit(i.v)
            c, m = self.prog.find_method(v.cls, '__getitem__') if v.cls else (None, None)
            if m is not None:
                return self.invoke(FuncRef(m, c.module, c), [v, i], {})
        if isinstance(v, BA) and isinstance(i, K):
            return v.bit(i.v)
        if isinstance(v, DictV):
            k = self.dkey(i)
            if k in v.d:
                return v.d[k]
            if getattr(v, 'default_factory', None) is not None:
                v.d[k] = self.call(v.default_factory, [], {}, n)
                v.keyobj[k] = i
                return v.d[k]
            if isinstance(i, K) and all(not isinstance(o, tuple) for o in v.d):
                raise RaiseEx('KeyError', repr(i.v))
            if getattr(self, 'INJECTIVE_KEYS', True):
                raise RaiseEx('KeyError', vrepr(i)[:40])        # distinct symbolic keys denote distinct values
            return Term('item', v, i)
        if isinstance(v, ListV) and isinstance(i, K) and isinstance(i.v, int):
            try:
                return v.items[i.v]
            except IndexError:
                raise RaiseEx('IndexError', 'list index out of range')
        if isinstance(v, K) and isinstance(i, K):
            try:
                return K(v.v[i.v])
            except (IndexError, KeyError) as e:
                raise RaiseEx(type(e).__name__, '')
            except TypeError:
                raise RaiseEx('TypeError', 'not subscriptable')
        if isinstance(v, Term) and v.op == 'tobytes' and isinstance(i, K) and isinstance(i.v, int):
            full = self.models.padded(v.a[2].ba)
            nb = len(full) // 8
            k = i.v + nb if i.v < 0 else i.v
            if not 0 <= k < nb:
                raise RaiseEx('IndexError', 'index out of range')
            b8 = full.slice(8 * k, 8 * k + 8)
            return K(int(b8.pattern(), 2)) if b8.known() else self.models.ByteOf(b8)
        if isinstance(v, PBits) and isinstance(i, K) and v.view == 'str':
            try:
                c = v.pat[i.v]
            except IndexError:
                raise RaiseEx('IndexError', 'string index out of range')
            return K(c) if c != '?' else Sym('bitchar')
        if isinstance(v, PBits) and isinstance(i, K) and isinstance(i.v, int) and not isinstance(i.v, bool) and v.view == 'bytes':
            nb = len(v.pat) // 8
            k = i.v + nb if i.v < 0 else i.v
            if not 0 <= k < nb:
                raise RaiseEx('IndexError', 'index out of range')
            b8 = v.pat[8 * k: 8 * k + 8]
            if '?' not in b8:
                return K(int(b8, 2))            # a byte whose bits are all known (a constructor tag that was peeked at)
            owner = getattr(v, 'owner', None)
            if owner is not None:
                raise Fail('a byte of a peeked value whose bits are not determined by the constructor tags')
            return self.models.ByteOf(self.models.to_ba(self, PBits(b8, 'bits')))
        return Term('item', v, i)

    def ev_Attribute(self, n, fr):
        v = self.ev(n.value, fr)
        return self.getattr(v, n.attr, n)

    def getattr(self, v, a, n=None):
        if a == '__class__' and not isinstance(v, Inst) and getattr(v, 'abs_attr', None) is None:
            return self.models.builtin(self, 'type', [v], {}, n)        # x.__class__ is type(x)
        hook = getattr(v, 'abs_attr', None)
        if hook is not None:
            r = hook(self, a, n)
            if r is not None:
                return r
        if isinstance(v, Inst):
            if a in v.attrs:
                return v.attrs[a]
            if a == '__dict__' and v.native is None:
                return self.models.builtin(self, 'vars', [v], {}, n)
            if v.cls is not None:
                r = self.class_attr(v.cls, a, v)
                if r is not None:
                    return r
            if v.native is not None:
                r = self.models.native_attr(self, v.native, a, v)
                if r is not None:
                    return r
            if a == '__class__':
                return v.cls
            if v.cls is not None and getattr(v, 'open', False):
                v.attrs[a] = Sym(f'{v.cls.name}.{a}', key=('attr', id(v), a))
                return v.attrs[a]
            raise RaiseEx('AttributeError', f'{v.cls.name if v.cls else "?"} object has no attribute {a}', n)
        if isinstance(v, SuperProxy) and isinstance(v.inst, ExcV):
            mro = self.prog.mro(v.inst.cls)
            idx = [c.name for c in mro].index(v.after.name) if v.after.name in [c.name for c in mro] else -1
            for c in mro[idx + 1:]:
                if a in c.methods:
                    return Bound(v.inst, FuncRef(c.methods[a], c.module, c))
            if a == '__init__':
                def base_init(it, args, kw, node, _e=v.inst):
                    _e.args = tuple(args)
                    return K(None)
                return Native(base_init, 'BaseException.__init__')
            raise Fail(f'super().{a} on an exception')
        if isinstance(v, SuperProxy):
            mro = self.prog.mro(v.inst.cls if isinstance(v.inst, Inst) else v.inst)
            idx = [c.name for c in mro].index(v.after.name) if v.after.name in [c.name for c in mro] else -1
            for c in mro[idx + 1:]:
                if a in c.methods:
                    return Bound(v.inst, FuncRef(c.methods[a], c.module, c))
            if isinstance(v.inst, Inst) and v.inst.native is not None:
                r = self.models.native_attr(self, v.inst.native, a, v.inst)
                if r is not None:
                    return r
            if a == '__new__':
                rc = v.inst.cls if isinstance(v.inst, Inst) else v.inst
                nat = self.models.native_base(self, rc) if isinstance(rc, ClassRef) else None
                if nat is not None:
                    return self.models.native_attr(self, nat, '__new__', None)
                return Native(lambda it, args, kw, node: it.new_inst(args[0]), 'object.__new__')
            if a == '__init__':
                return Native(lambda it, args, kw, node: K(None), 'object.__init__')
            if a in ('__init_subclass__', '__set_name__', '__post_init__'):
                return Native(lambda it, args, kw, node: K(None), f'object.{a}')
            raise Fail(f'super().{a} unresolved')
        if isinstance(v, ClassRef):
            r = self.class_attr(v, a, None)
            if r is not None:
                return r
            if a == '__name__':
                return K(v.name)
            if a in ('_fields', '_make') and 'NamedTuple' in self.prog.ext_bases(v):
                names_ = [f for f, _, _ in self.models.dataclass_fields(self, v)]
                if a == '_fields':
                    return ListV([K(f) for f in names_], tup=True)
                return Native(lambda it, args, kw, node: it.construct(v, list(it.iterate(args[0])), {}, node), f'{v.name}._make')
            if a == '__new__':
                return Native(lambda it, args, kw, node: it.new_inst(args[0] if args else v), f'{v.name}.__new__')
            raise RaiseEx('AttributeError', f'class {v.name} has no attribute {a}', n)
        if isinstance(v, Ext):
            return Ext(v.dotted + '.' + a)
        if isinstance(v, Builtin):
            import builtins as _bi
            if a in ('__name__', '__qualname__') and '.' not in v.name:
                return K(v.name)
            ty = getattr(_bi, v.name, None) if '.' not in v.name else None
            if isinstance(ty, type) and not hasattr(ty, a):
                raise RaiseEx('AttributeError', f"type object '{v.name}' has no attribute '{a}'", n)
            return Builtin(v.name + '.' + a)
        if isinstance(v, FuncRef):
            if a == '__name__':
                return K(v.name)
            if a == '__qualname__':
                return K((v.cls.name + '.' if v.cls is not None else '') + v.name)
            if a == '__module__':
                return K('pytoniq_core.' + v.module)
            if a == '__doc__':
                return K(ast.get_docstring(v.node) if not isinstance(v.node, ast.Lambda) else None)
            return Sym(f'func.{a}')
        r = self.models.value_attr(self, v, a, n)
        if r is not None:
            return r
        raise Fail(f'getattr {v!r}.{a} line {getattr(n, "lineno", "?")}')

    def ensure_subclass_hooks(self, cls):
        """__init_subclass__ of a base class runs once for every subclass when that subclass is defined (import time): before anything
        of the family is looked at, the hooks of the whole family are run in definition order, with the keywords of the class statement"""
        done = self.__dict__.setdefault('_isc_done', set())
        for base in self.prog.mro(cls):
            if '__init_subclass__' not in base.methods or base.qual in done:
                continue
            done.add(base.qual)
            family = [c for c in self.prog.all_classes() if c is not base and any(k is base for k in self.prog.mro(c)[1:])]
            family.sort(key=lambda c: (c.module != base.module, c.module, getattr(c.node, 'lineno', 0)))
            for sub in family:
                owner = next((k for k in self.prog.mro(sub)[1:] if '__init_subclass__' in k.methods), None)
                if owner is None:
                    continue
                kw = {k: self.ev(e, Frame(sub.module)) for k, e in getattr(sub, 'keywords', {}).items()}
                self.invoke(FuncRef(owner.methods['__init_subclass__'], owner.module, owner), [sub], kw)

    def class_attr(self, cls, a, inst):
        if a != '__init_subclass__' and any('__init_subclass__' in k.methods for k in self.prog.mro(cls)):
            self.ensure_subclass_hooks(cls)
        if inst is None and self.models.enum_kind(self, cls) is not None:
            mem = self.models.enum_members(self, cls)
            if a in mem:
                return mem[a]
            if a == '__members__':
                d = DictV()
                for k, m in mem.items():
                    d.d[k] = m
                    d.keyobj[k] = K(k)
                return d
        for c in self.prog.mro(cls):
            late = getattr(self.prog.modules.get(c.module), 'late_attrs', {})
            if (c.name, a) in late or ((c.qual, a) in self.__dict__.get('_class_vals', {}) and a not in c.class_attrs):
                # rebound after the class body (module-level `Class.attr = ...`, or an assignment made by interpreted code): that value wins
                cache = self.__dict__.setdefault('_class_vals', {})
                if (c.qual, a) not in cache:
                    cache[(c.qual, a)] = self.ev(late[(c.name, a)], Frame(c.module))
                v = cache[(c.qual, a)]
                if isinstance(v, FuncRef) and inst is not None and not isinstance(v.node, ast.Lambda) and 'staticmethod' not in v.decorators():
                    return Bound(inst, v)
                if isinstance(v, FuncRef) and isinstance(v.node, ast.Lambda) and inst is not None:
                    return Bound(inst, v)
                return v
            if a in getattr(c, 'nested', {}) and a not in c.methods and a not in c.class_attrs:
                return c.nested[a]
            if a in c.methods:
                fn = c.methods[a]
                f = FuncRef(fn, c.module, c)
                decs = f.decorators()
                if a == '__new__':
                    return f
                alld = self.dec_names(fn)
                if alld and not all(d in self.TRANSPARENT_DECORATORS for d in alld):
                    g = self.decorated(f)
                    if g is not f and getattr(g, 'abs_bind', None) is not None and inst is not None:
                        return g.abs_bind(inst)
                    if g is not f:
                        if isinstance(g, FuncRef) and inst is not None and 'staticmethod' not in decs:
                            return Bound(inst if 'classmethod' not in decs else (inst.cls if isinstance(inst, Inst) else cls), g)
                        if isinstance(g, FuncRef) and 'classmethod' in decs:
                            return Bound(cls, g)
                        return g
                if inst is not None and 'property' in decs:
                    return self.invoke(f, [inst], {})
                if inst is not None and 'setter' in decs:
                    # getter is the other def with this name
                    for d in c.all_defs.get(a, []):
                        fd = FuncRef(d, c.module, c)
                        if 'property' in fd.decorators():
                            return self.invoke(fd, [inst], {})
                if 'staticmethod' in decs:
                    return f
                if 'classmethod' in decs:
                    return Bound(inst.cls if inst is not None else cls, f)
                if inst is not None:
                    return Bound(inst, f)
                return f
            if a in c.class_attrs or (c.qual, a) in self.__dict__.get('_class_vals', {}):
                # class-level objects are created once, when the class body runs: every access sees the same object (shared mutable
                # class attributes are observable state), and assignments to Class.attr rebind it
                cache = self.__dict__.setdefault('_class_vals', {})
                if (c.qual, a) not in cache:
                    cfr = Frame(c.module, cls=c)
                    cfr.class_scope = c
                    cache[(c.qual, a)] = self.ev(c.class_attrs[a], cfr)
                v = cache[(c.qual, a)]
                if isinstance(v, FuncRef) and inst is not None:
                    return Bound(inst, v)        # a function object stored in the class binds like a method (lambda or closure alike)
                return v
        return None

    def new_inst(self, cls):
        if isinstance(cls, Inst):
            cls = cls.cls
        inst = Inst(cls)
        nat = self.models.native_base(self, cls)
        if nat is not None:
            inst.native = nat
        return inst

    def comp_frame(self, fr):
        f = Frame(fr.module, fr, fr.func, fr.cls)
        f.comp = True
        return f

    def ev_ListComp(self, n, fr):
        out = []
        self.comp(n.generators, 0, self.comp_frame(fr), lambda f2: out.append(self.ev(n.elt, f2)))
        return ListV(out)

    def ev_GeneratorExp(self, n, fr):
        # lazy, as in python: the first iterable is evaluated now, everything else when the generator is advanced
        f0 = self.comp_frame(fr)
        first = self.ev(n.generators[0].iter, fr)

        def rec(i, f2):
            if i == len(n.generators):
                yield self.ev(n.elt, f2)
                return
            g = n.generators[i]
            src = first if i == 0 else self.ev(g.iter, f2)
            for x in self.pull_iter(src, g.iter):
                self.assign(g.target, x, f2)
                if all(self.truth(self.ev(c, f2), c) for c in g.ifs):
                    yield from rec(i + 1, f2)
        return IterV(gen=rec(0, f0))

    def pull_iter(self, v, node=None):
        """python iterator over the abstract items of v; iterator objects are advanced one item at a time (not drained)"""
        if isinstance(v, IterV):
            while True:
                try:
                    yield v.pull()
                except StopIter:
                    return
        lazy = getattr(v, 'abs_pull', None)
        if lazy is not None:
            yield from lazy(self)
            return
        items = self.iterate(v)
        if items is None:
            raise Fail(f'iteration over {v!r} line {getattr(node, "lineno", "?")}')
        yield from items

    def ev_SetComp(self, n, fr):
        s = SetV()

        def add(f2):
            v = self.ev(n.elt, f2)
            s.items[self.dkey(v)] = v
        self.comp(n.generators, 0, self.comp_frame(fr), add)
        return s

    def ev_DictComp(self, n, fr):
        d = DictV()

        def add(f2):
            k = self.ev(n.key, f2)
            key = self.dkey(k)
            d.d[key] = self.ev(n.value, f2)
            d.keyobj[key] = k
        self.comp(n.generators, 0, self.comp_frame(fr), add)
        return d

    def comp(self, gens, i, fr, emit):
        if i == len(gens):
            emit(fr)
            return
        g = gens[i]
        # the first iterable is evaluated in the enclosing scope (in a class body: with the names of the class body in view)
        it = self.ev(g.iter, fr.parent if i == 0 and getattr(fr, 'comp', False) and fr.parent is not None else fr)
        for x in self.pull_iter(it, g.iter):
            self.assign(g.target, x, fr)
            if all(self.truth(self.ev(c, fr), c) for c in g.ifs):
                self.comp(gens, i + 1, fr, emit)

    def iterate(self, it):
        hook = getattr(it, 'abs_iter', None)
        if hook is not None:
            return hook(self)
        if isinstance(it, IterV):
            return list(self.pull_iter(it))        # drains the iterator
        if isinstance(it, ListV):
            return list(it.items)
        if isinstance(it, K):
            if isinstance(it.v, range):
                if len(it.v) > self.MAX_UNROLL:
                    cap = getattr(self, 'RANGE_CAP', None)
                    if cap:
                        # abstraction chosen by the rule: a long counted loop whose body does not use the counter is walked for its first
                        # `cap` iterations and then left as exhausted (the exit after the last iteration exists for every count >= 1)
                        self.range_capped = True
                        return [K(x) for x in it.v[:cap]]
                    raise Fail(f'range of {len(it.v)} iterations')
                return [K(x) for x in it.v]
            if isinstance(it.v, (list, tuple)):
                return [K(x) for x in it.v]
            if isinstance(it.v, (str,)):
                return [K(x) for x in it.v]
            if isinstance(it.v, (bytes, bytearray)):
                return [K(x) for x in it.v]
            if isinstance(it.v, dict):
                return [K(x) for x in it.v]
        if isinstance(it, DictV):
            return [it.keyobj.get(k, K(k) if not isinstance(k, tuple) else Sym('key')) for k in it.d.keys()]
        if isinstance(it, SetV):
            return list(it.items.values())
        if isinstance(it, PBits) and it.view == 'str':
            return [K(c) if c != '?' else Sym('bitchar') for c in it.pat]
        if isinstance(it, BA):
            return [it.bit(i) for i in range(len(it))]
        if isinstance(it, Inst) and isinstance(it.native, BA):
            return [it.native.bit(i) for i in range(len(it.native))]
        if isinstance(it, ClassRef) and self.models.enum_kind(self, it) is not None:
            return list(self.models.enum_members(self, it).values())
        if isinstance(it, Inst) and it.cls is not None:
            c, m = self.prog.find_method(it.cls, '__iter__')
            if m is not None:
                r = self.invoke(FuncRef(m, c.module, c), [it], {})
                return self.iterate(r) if r is not it else None
        return None

    # =============================================================== calls
    def ev_Call(self, n, fr):
        f = self.ev(n.func, fr)
        args = self.ev_elts(n.args, fr)
        kw = {}
        for k in n.keywords:
            v = self.ev(k.value, fr)
            if k.arg is None:
                if isinstance(v, DictV):
                    kw.update({kk: vv for kk, vv in v.d.items() if isinstance(kk, str)})
                else:
                    raise Fail('**kwargs of unknown mapping')
            else:
                kw[k.arg] = v
        if isinstance(f, Builtin) and f.name == 'super' and not args:
            return self.do_super(fr)
        return self.call(f, args, kw, n)

    def do_super(self, fr):
        f = fr
        while f is not None and f.cls is None:
            f = f.parent
        if f is None:
            raise Fail('super() outside class')
        g = fr
        selfv = None
        while g is not None:
            if g.func is not None and g.cls is not None:
                a = g.func.node.args.args
                if a:
                    selfv = g.vars.get(a[0].arg)
                break
            g = g.parent
        return SuperProxy(selfv, f.cls)

    def call(self, f, args, kw, n=None):
        hook = getattr(f, 'abs_call', None)
        if hook is not None:
            return hook(self, args, kw, n)
        if isinstance(f, ClassRef):
            return self.construct(f, args, kw, n)
        if isinstance(f, FuncRef):
            return self.invoke(f, args, kw)
        if isinstance(f, Native):
            return f.fn(self, args, kw, n)
        if isinstance(f, Bound):
            if isinstance(f.func, FuncRef):
                decs = f.func.decorators()
                if 'staticmethod' in decs:
                    return self.invoke(f.func, args, kw)
                return self.invoke(f.func, [f.recv] + args, kw)
            if isinstance(f.func, Native):
                return f.func.fn(self, [f.recv] + args, kw, n)
            raise Fail(f'bound call {f.func!r}')
        if isinstance(f, Builtin):
            return self.models.builtin(self, f.name, args, kw, n)
        if isinstance(f, Ext):
            return self.models.ext_call(self, f.dotted, args, kw, n)
        if isinstance(f, (Sym, Term)):
            return self.opaque_call(f, args, kw, n)
        if isinstance(f, K) and f.v is None:
            raise RaiseEx('TypeError', 'NoneType is not callable')
        if isinstance(f, Inst) and f.cls is not None:
            c, m = self.prog.find_method(f.cls, '__call__')
            if m is not None:
                return self.invoke(FuncRef(m, c.module, c), [f] + list(args), kw)
        raise Fail(f'call of {f!r} line {getattr(n, "lineno", "?")}')

    def opaque_call(self, f, args, kw, n):
        for a in list(args) + list(kw.values()):
            if getattr(a, 'typestate', False):
                # a slice whose reads are being checked against a schema is handed to code the interpreter cannot follow: whatever it would
                # consume is unknown - an analysis error, never a silent "nothing was read"
                raise Fail(f'a typestate slice is passed to a callable the interpreter cannot follow: {vrepr(f)[:60]}')
            if isinstance(a, BA) or (isinstance(a, Inst) and a.native is not None):
                # a mutable model object of a library class goes into code the interpreter cannot follow: what happens to it is unknown
                raise Fail(f'a bit container is passed to a callable the interpreter cannot follow: {vrepr(f)[:60]}')
        return Term('call', f, *args)

    def construct(self, cls, args, kw, n=None):
        if self.models.enum_kind(self, cls) is not None:
            if len(args) != 1:
                raise Fail(f'{cls.name}(...) with {len(args)} arguments')
            return self.models.enum_lookup(self, cls, args[0])
        if 'NamedTuple' in self.prog.ext_bases(cls):
            fields = self.models.dataclass_fields(self, cls)
            dflt = [(f, d) for f, d, _ in fields if d is not None]
            nt = self.models.NamedTupleClass(cls.name, [f for f, _, _ in fields],
                                             ListV([self.ev(d, Frame(cls.module, getattr(cls, 'closure', None), cls=cls)) for _, d in dflt], tup=True) if dflt else None)
            nt.cls = cls
            return nt.abs_call(self, args, kw, n)
        if self.is_exception_class(cls):
            ev = ExcV(cls.name, tuple(args))
            ev.cls = cls
            c, init = self.prog.find_method(cls, '__init__')
            if init is not None:
                self.invoke(FuncRef(init, c.module, c), [ev] + list(args), kw)
            return ev
        cn, new = self.prog.find_method(cls, '__new__')
        if new is not None:
            inst = self.invoke(FuncRef(new, cn.module, cn), [cls] + list(args), dict(kw))
            if not (isinstance(inst, Inst) and inst.cls is not None and self.prog.is_subclass(inst.cls, cls.name)):
                return inst
        else:
            inst = self.new_inst(cls)
        c, init = self.prog.find_method(cls, '__init__')
        if init is not None:
            self.invoke(FuncRef(init, c.module, c), [inst] + args, kw)
        elif inst.native is not None:
            self.models.native_init(self, inst, args, kw)
        else:
            dc = self.models.dataclass_init(self, cls, inst, args, kw)
            if not dc and (args or kw):
                raise RaiseEx('TypeError', f'{cls.name}() takes no arguments')
        return inst

    def is_exception_class(self, cls):
        return any(b in _PY_EXC or b == 'BaseException' for b in self.prog.ext_bases(cls))

    def exc_matches(self, kind, names, value=None):
        """does exception `kind` match one of the handler's class names?"""
        cls = getattr(value, 'cls', None)
        if cls is not None:
            chain = [c.name for c in self.prog.mro(cls)] + list(self.prog.ext_bases(cls))
            for b in list(chain):
                cur = b
                for _ in range(20):
                    cur = _PY_EXC.get(cur, 'Exception' if cur not in ('Exception', 'BaseException') else None)
                    if cur is None:
                        break
                    chain.append(cur)
            chain.append('BaseException')
            return any(x in chain for x in names)
        chain = [kind]
        cur = kind
        if kind in ('NaclValueError', 'NaclTypeError'):
            # PyNaCl's own ValueError / TypeError derive from the builtin of that name *and* from nacl.exceptions.CryptoError
            chain += ['CryptoError']
            cur = kind[4:]
            chain.append(cur)
        for _ in range(20):
            c = self.prog.classes.get(cur)
            if c is not None:
                nxt = c.bases[0] if c.bases else None
            else:
                nxt = _PY_EXC.get(cur, 'Exception' if cur not in ('Exception', 'BaseException') else None)
            if nxt is None:
                break
            chain.append(nxt)
            cur = nxt
        chain.append('BaseException')
        return any(x in chain for x in names)

    def bind(self, f, args, kw, fr):
        node = f.node
        a = node.args
        params = [p.arg for p in a.posonlyargs + a.args]
        defaults = a.defaults
        kw = dict(kw)
        if len(args) > len(params) and not a.vararg:
            raise RaiseEx('TypeError', f'{f.name}() takes {len(params)} positional arguments but {len(args)} were given')
        for i, p in enumerate(params):
            if i < len(args):
                if p in kw:
                    raise RaiseEx('TypeError', f'multiple values for {p}')
                fr.vars[p] = args[i]
            elif p in kw:
                fr.vars[p] = kw.pop(p)
            else:
                di = i - (len(params) - len(defaults))
                if di >= 0:
                    fr.vars[p] = self.default_value(f, p, defaults[di], fr)
                else:
                    raise RaiseEx('TypeError', f'{f.name}() missing argument {p}')
        if a.vararg:
            fr.vars[a.vararg.arg] = ListV(args[len(params):], tup=True)
        for p, d in zip(a.kwonlyargs, a.kw_defaults):
            if p.arg in kw:
                fr.vars[p.arg] = kw.pop(p.arg)
            elif d is not None:
                fr.vars[p.arg] = self.ev(d, fr)
            else:
                raise RaiseEx('TypeError', f'missing kw-only {p.arg}')
        if a.kwarg:
            d = DictV(dict(kw))
            d.keyobj = {k: K(k) for k in kw}
            fr.vars[a.kwarg.arg] = d
        elif kw:
            raise RaiseEx('TypeError', f'{f.name}() got unexpected keyword {sorted(kw)[0]}')

    def default_value(self, f, pname, expr, fr):
        # default values are evaluated once at def time: mutable defaults are shared between calls
        cache = self.__dict__.setdefault('_defaults', {})
        key = (id(f.node), pname)
        if key not in cache:
            cache[key] = self.ev(expr, Frame(f.module, f.closure, cls=f.cls))
        return cache[key]

    def summary(self, f, args, kw):
        """call summaries: pure functions proven elsewhere are not inlined on symbolic input"""
        q = f.qual
        if q == 'crypto.crc.crc32c' and args and isinstance(args[0], K) and isinstance(args[0].v, (bytes, bytearray)) \
                and getattr(self, 'FAST_CRC', True) and len(args[0].v) > 64:
            # long concrete input: the checker's own CRC-32C (C18 proves the package's crc32c equal to it)
            from .bocspec import crc32c_fast
            order = args[1] if len(args) > 1 else kw.get('byteorder')
            if order is None:
                d = f.node.args.defaults
                order = self.ev(d[-1], Frame(f.module)) if d else K('little')
            if isinstance(order, K) and order.v in ('little', 'big'):
                r = crc32c_fast(bytes(args[0].v))
                return K(r if order.v == 'little' else r[::-1])
        if q in ('crypto.crc.crc32c', 'crypto.crc.crc16') and args and not (isinstance(args[0], K)) and not getattr(self, 'NO_CRC_SUMMARY', False):
            if q.endswith('crc16'):
                return Term('crc', K('crc16'), args[0], K(2))
            order = args[1] if len(args) > 1 else kw.get('byteorder')
            if order is None:
                d = f.node.args.defaults
                order = self.ev(d[-1], Frame(f.module)) if d else K('little')
            return Term('crc', K('crc32c'), args[0], order, K(4))
        hook = getattr(self, 'summary_hook', None)
        if hook is not None:
            return hook(f, args, kw)
        return None

    MEMO_DECORATORS = ('lru_cache', 'cache')

    def memo_decorated(self, f):
        for d in getattr(f.node, 'decorator_list', []):
            d = d.func if isinstance(d, ast.Call) else d
            name = d.id if isinstance(d, ast.Name) else d.attr if isinstance(d, ast.Attribute) else None
            if name in self.MEMO_DECORATORS:
                return True
        return False

    def invoke(self, f, args, kw):
        if self.memo_decorated(f):
            # functools.lru_cache / cache: the result of an earlier call with *equal* arguments is returned again - equality being the
            # arguments' own __eq__ (objects without one: identity), exactly as the cache's dictionary lookup decides it
            table = self.__dict__.setdefault('_memo_tables', {}).setdefault(f.qual, [])
            def same(x, y):
                r = self.cmp(ast.Eq(), x, y, f.node)
                if isinstance(r, K):
                    return bool(r.v)
                if getattr(self, 'INJECTIVE_KEYS', True):
                    return False        # the cache is a dictionary: distinct symbolic arguments denote distinct keys
                return self.truth(r, f.node)
            for a0, k0, r0 in table:
                if len(a0) == len(args) and sorted(k0) == sorted(kw) and \
                        all(same(x, y) for x, y in list(zip(a0, args)) + [(k0[k], kw[k]) for k in kw]):
                    return r0
            r = self.invoke_body(f, args, kw)
            table.append((list(args), dict(kw), r))
            return r
        return self.invoke_body(f, args, kw)

    def invoke_body(self, f, args, kw):
        node = f.node
        r = self.summary(f, args, kw)
        if r is not None:
            return r
        self.depth += 1
        if self.depth > self.MAX_DEPTH:
            self.depth -= 1
            raise Fail('call depth exceeded')
        self.cur.append(f)
        try:
            fr = Frame(f.module, f.closure, f, f.cls)
            self.bind(f, args, kw, fr)
            if isinstance(node, ast.Lambda):
                return self.ev(node.body, fr)
            if self.is_generator(node):
                fr.gen = self.Coroutine(self, f, fr)
                fr.gen.cur = list(self.cur)
                iv = IterV(gen=fr.gen.pump())
                iv.co = fr.gen
                return iv
            try:
                self.block(node.body, fr)
            except ReturnEx as r:
                return r.v
            return K(None)
        finally:
            self.depth -= 1
            self.cur.pop()

    # =============================================================== statements
    def block(self, body, fr):
        for st in body:
            self.stmt(st, fr)

    def stmt(self, st, fr):
        self.steps += 1
        m = getattr(self, 'st_' + type(st).__name__, None)
        if m is None:
            raise Fail(f'unsupported statement {type(st).__name__} line {st.lineno}')
        m(st, fr)

    def st_Expr(self, st, fr):
        self.ev(st.value, fr)

    def st_Assign(self, st, fr):
        v = self.ev(st.value, fr)
        for tg in st.targets:
            self.assign(tg, v, fr)

    def st_AnnAssign(self, st, fr):
        if st.value is not None:
            self.assign(st.target, self.ev(st.value, fr), fr)

    def st_AugAssign(self, st, fr):
        cur = self.ev(st.target, fr)
        v = self.ev(st.value, fr)
        r = None
        if isinstance(cur, Inst) and cur.cls is not None and not (cur.native is not None and isinstance(cur.native, BA)):
            # the in-place operator of a package class (__ior__, __iadd__, ...), when it has one
            dn = {ast.Add: 'add', ast.Sub: 'sub', ast.Mult: 'mul', ast.FloorDiv: 'floordiv', ast.Mod: 'mod', ast.LShift: 'lshift', ast.RShift: 'rshift',
                  ast.BitAnd: 'and', ast.BitOr: 'or', ast.BitXor: 'xor', ast.Pow: 'pow', ast.Div: 'truediv', ast.MatMult: 'matmul'}.get(type(st.op))
            name = f'__i{dn}__'
            c, m = self.prog.find_method(cur.cls, name)
            if m is not None:
                r = self.invoke(FuncRef(m, c.module, c), [cur, v], {})
            elif any(name in k.class_attrs for k in self.prog.mro(cur.cls)):
                r = self.call(self.class_attr(cur.cls, name, cur), [v], {}, st)
            if isinstance(r, K) and r.v is NotImplemented:
                r = None
        if r is None:
            r = self.models.inplace(self, st.op, cur, v)
        if r is None:
            r = self.binop(st.op, cur, v, st)
        self.assign(st.target, r, fr)

    def st_Return(self, st, fr):
        raise ReturnEx(self.ev(st.value, fr) if st.value else K(None))

    def st_Raise(self, st, fr):
        if st.exc is None:
            cur = getattr(fr, 'handling', None)
            if cur is not None:
                raise cur
            raise RaiseEx('Exception', 're-raise', st)
        e = st.exc
        kind = None
        val = None
        if isinstance(e, ast.Call):
            kind = e.func.id if isinstance(e.func, ast.Name) else e.func.attr if isinstance(e.func, ast.Attribute) else None
            try:
                val = self.ev(e, fr)
            except Fail:
                val = None
            if isinstance(val, ExcV):
                kind = val.kind
        elif isinstance(e, ast.Name):
            v = fr.lookup(e.id) if fr.has(e.id) else None
            kind = v.kind if isinstance(v, ExcV) else e.id
            val = v if isinstance(v, ExcV) else None
        else:
            v = self.ev(e, fr)
            if isinstance(v, ExcV):
                kind, val = v.kind, v
        ex = RaiseEx(kind or 'Exception', ast.unparse(e)[:80], st)
        ex.value = val if isinstance(val, ExcV) else None
        raise ex

    def st_Assert(self, st, fr):
        c = self.ev(st.test, fr)
        if not self.truth(c, st):
            raise RaiseEx('AssertionError', ast.unparse(st.test)[:80], st)

    # ---- structural pattern matching (PEP 634)
    def st_Match(self, st, fr):
        subject = self.ev(st.subject, fr)
        for case in st.cases:
            if self.match_pattern(case.pattern, subject, fr, st) and (case.guard is None or self.truth(self.ev(case.guard, fr), st)):
                self.block(case.body, fr)
                return

    def match_pattern(self, p, v, fr, node):
        if isinstance(p, ast.MatchValue):
            return self.truth(self.cmp(ast.Eq(), v, self.ev(p.value, fr), node), node)
        if isinstance(p, ast.MatchSingleton):
            return isinstance(v, K) and v.v is p.value
        if isinstance(p, ast.MatchAs):
            if p.pattern is not None and not self.match_pattern(p.pattern, v, fr, node):
                return False
            if p.name is not None:
                self.assign(ast.Name(id=p.name, ctx=ast.Store()), v, fr)
            return True
        if isinstance(p, ast.MatchOr):
            return any(self.match_pattern(q, v, fr, node) for q in p.patterns)
        if isinstance(p, ast.MatchSequence):
            if isinstance(v, K) and isinstance(v.v, (list, tuple)):
                items = [K(x) for x in v.v]
            elif isinstance(v, ListV):
                items = list(v.items)
            elif isinstance(v, K) or isinstance(v, (Inst, DictV, SetV)):
                return False                    # str / bytes / bytearray, numbers, None, mappings, sets and plain objects are not sequences
            else:
                raise Fail(f'sequence pattern over {v!r} line {node.lineno}')
            star = [i for i, q in enumerate(p.patterns) if isinstance(q, ast.MatchStar)]
            if not star:
                return len(items) == len(p.patterns) and all(self.match_pattern(q, x, fr, node) for q, x in zip(p.patterns, items))
            i = star[0]
            after = len(p.patterns) - i - 1
            if len(items) < len(p.patterns) - 1:
                return False
            if not all(self.match_pattern(q, x, fr, node) for q, x in zip(p.patterns[:i], items[:i])):
                return False
            if after and not all(self.match_pattern(q, x, fr, node) for q, x in zip(p.patterns[i + 1:], items[len(items) - after:])):
                return False
            if p.patterns[i].name is not None:
                self.assign(ast.Name(id=p.patterns[i].name, ctx=ast.Store()), ListV(items[i:len(items) - after]), fr)
            return True
        if isinstance(p, ast.MatchMapping):
            if not isinstance(v, DictV):
                if isinstance(v, (K, ListV, Inst, SetV)):
                    return False
                raise Fail(f'mapping pattern over {v!r} line {node.lineno}')
            used = []
            for kx, q in zip(p.keys, p.patterns):
                key = self.dkey(self.ev(kx, fr))
                if key not in v.d or not self.match_pattern(q, v.d[key], fr, node):
                    return False
                used.append(key)
            if p.rest is not None:
                rest = DictV()
                for k_, x in v.d.items():
                    if k_ not in used:
                        rest.d[k_] = x
                        rest.keyobj[k_] = v.keyobj[k_]
                self.assign(ast.Name(id=p.rest, ctx=ast.Store()), rest, fr)
            return True
        if isinstance(p, ast.MatchClass):
            cls = self.ev(p.cls, fr)
            if not self.truth(self.models.do_isinstance(self, v, cls, node), node):
                return False
            if p.patterns:
                single = isinstance(cls, Builtin) and cls.name in ('bool', 'bytearray', 'bytes', 'dict', 'float', 'frozenset', 'int', 'list', 'set', 'str', 'tuple')
                if single:
                    if len(p.patterns) != 1:
                        raise RaiseEx('TypeError', f'{cls.name}() accepts 1 positional sub-pattern', node)
                    if not self.match_pattern(p.patterns[0], v, fr, node):
                        return False
                else:
                    try:
                        names = self.iterate(self.getattr(cls, '__match_args__', node))
                    except RaiseEx:
                        raise RaiseEx('TypeError', 'class pattern with positional sub-patterns on a class without __match_args__', node)
                    if names is None or len(p.patterns) > len(names):
                        raise RaiseEx('TypeError', 'too many positional sub-patterns', node)
                    for nm, q in zip(names, p.patterns):
                        try:
                            x = self.getattr(v, nm.v, node)
                        except RaiseEx:
                            return False
                        if not self.match_pattern(q, x, fr, node):
                            return False
            for nm, q in zip(p.kwd_attrs, p.kwd_patterns):
                try:
                    x = self.getattr(v, nm, node)
                except RaiseEx as e:
                    if e.kind != 'AttributeError':
                        raise
                    return False
                if not self.match_pattern(q, x, fr, node):
                    return False
            return True
        raise Fail(f'unsupported pattern {type(p).__name__} line {node.lineno}')

    def st_If(self, st, fr):
        c = self.ev(st.test, fr)
        if isinstance(c, Cond) and c.key not in self.decided and self.ifconv(st, c, fr):
            return
        if self.truth(c, st):
            self.block(st.body, fr)
        else:
            self.block(st.orelse, fr)

    def ifconv(self, st, c, fr):
        """if-conversion of an undecided branch whose arms only assign call-free expressions to local names"""
        def simple(body):
            for s in body:
                if not (isinstance(s, ast.Assign) and len(s.targets) == 1 and isinstance(s.targets[0], ast.Name)):
                    return False
                if any(isinstance(x, (ast.Call, ast.Subscript, ast.Attribute)) for x in ast.walk(s.value)):
                    return False
            return True
        if not getattr(self, 'IFCONV', True) or not simple(st.body) or not simple(st.orelse) or not st.body:
            return False
        names = {s.targets[0].id for s in st.body + st.orelse}
        if not all(fr.has(nm) for nm in names):
            return False
        fa = Frame(fr.module, fr, fr.func, fr.cls)
        fb = Frame(fr.module, fr, fr.func, fr.cls)
        for s in st.body:
            fa.vars[s.targets[0].id] = self.ev(s.value, fa)
        for s in st.orelse:
            fb.vars[s.targets[0].id] = self.ev(s.value, fb)
        for nm in names:
            a, b = fa.lookup(nm), fb.lookup(nm)
            self.assign(ast.Name(id=nm), self.ite(c, a, b), fr)
        return True

    def ite(self, c, a, b):
        if self.vkey(a) == self.vkey(b):
            return a
        # Ite(x > y, x, y) -> max(x, y)
        pa, pb = as_poly(a), as_poly(b)
        if pa is not None and pb is not None and c.key[0] == 'ge0':
            for pol, (hi, lo) in ((True, (pa, pb)), (False, (pb, pa))):
                for strict in (0, 1):
                    q = hi - lo - Poly.const(strict)
                    k1 = self.int_cond(ast.GtE(), q, Poly.const(0))
                    if isinstance(k1, Cond) and k1.key == c.key and k1.pol == (c.pol if pol else not c.pol):
                        x, y = sorted([repr(pa), repr(pb)])
                        return atom(f'max({x}, {y})')
        return Term('ite', c, a, b)

    def st_For(self, st, fr):
        it = self.ev(st.iter, fr)
        if isinstance(it, IterV):
            items = self.pull_iter(it, st.iter)
        else:
            items = self.iterate(it)
        if items is None:
            items = self.opaque_loop(st, it, fr)
            if items is None:
                return
        broke = False
        for x in items:
            self.assign(st.target, x, fr)
            try:
                self.block(st.body, fr)
            except ContinueEx:
                continue
            except BreakEx:
                broke = True
                break
        if not broke and st.orelse:
            self.block(st.orelse, fr)

    def opaque_loop(self, st, it, fr):
        raise Fail(f'for over {it!r} line {st.lineno}')

    def st_While(self, st, fr):
        n = 0
        while True:
            c = self.ev(st.test, fr)
            if not self.truth(c, st):
                break
            n += 1
            if n > self.MAX_UNROLL:
                raise Fail(f'while loop line {st.lineno} exceeds unroll bound')
            try:
                self.block(st.body, fr)
            except ContinueEx:
                continue
            except BreakEx:
                return
        if st.orelse:
            self.block(st.orelse, fr)

    def st_Try(self, st, fr):
        try:
            try:
                self.block(st.body, fr)
            except RaiseEx as e:
                for h in st.handlers:
                    names = []
                    if h.type is None:
                        names = ['BaseException']
                    else:
                        ts = h.type.elts if isinstance(h.type, ast.Tuple) else [h.type]
                        for t in ts:
                            names.append(t.id if isinstance(t, ast.Name) else t.attr if isinstance(t, ast.Attribute) else '?')
                    if self.exc_matches(e.kind, names, getattr(e, 'value', None)):
                        if h.name:
                            fr.vars[h.name] = getattr(e, 'value', None) or ExcV(e.kind)
                        prev_h = getattr(fr, 'handling', None)
                        fr.handling = e
                        try:
                            self.block(h.body, fr)
                        finally:
                            fr.handling = prev_h
                        break
                else:
                    raise
            else:
                self.block(st.orelse, fr)
        finally:
            if st.finalbody:
                self.block(st.finalbody, fr)

    def st_With(self, st, fr):
        exits = []
        for item in st.items:
            v = self.ev(item.context_expr, fr)
            if isinstance(v, Inst) and v.cls is not None:
                c, m = self.prog.find_method(v.cls, '__enter__')
                c2, m2 = self.prog.find_method(v.cls, '__exit__')
                if (m is None or m2 is None) and getattr(v.native, 'abs_exit', None) is not None:
                    exits.append((v.native, None))      # the context protocol of a modelled library base class; `as` binds the object itself
                    if item.optional_vars is not None:
                        self.assign(item.optional_vars, v, fr)
                    continue
                if m is None or m2 is None:
                    raise Fail(f'with over an object without __enter__/__exit__ line {st.lineno}')
                exits.append((v, FuncRef(m2, c2.module, c2)))
                v = self.invoke(FuncRef(m, c.module, c), [v], {})
            elif getattr(v, 'abs_exit', None) is not None:
                exits.append((v, None))          # a modelled context manager
                if getattr(v, 'abs_enter', None) is not None:
                    v = v.abs_enter(self)
            if item.optional_vars is not None:
                self.assign(item.optional_vars, v, fr)
        try:
            self.block(st.body, fr)
        except RaiseEx as e:
            for o, ex in reversed(exits):
                if ex is None:
                    if o.abs_exit(self, e):
                        return
                    continue
                if self.truth(self.invoke(ex, [o, Sym('exc_type', not_none=True), ExcV(e.kind), Sym('traceback', not_none=True)], {})):
                    return
            raise
        except (ReturnEx, BreakEx, ContinueEx):
            for o, ex in reversed(exits):
                if ex is None:
                    o.abs_exit(self, None)
                else:
                    self.invoke(ex, [o, K(None), K(None), K(None)], {})
            raise
        else:
            for o, ex in reversed(exits):
                if ex is None:
                    o.abs_exit(self, None)
                else:
                    self.invoke(ex, [o, K(None), K(None), K(None)], {})

    def st_Continue(self, st, fr):
        raise ContinueEx()

    def st_Break(self, st, fr):
        raise BreakEx()

    def st_Pass(self, st, fr):
        pass

    def st_Global(self, st, fr):
        fr.__dict__.setdefault('globals_', set()).update(st.names)

    def st_Nonlocal(self, st, fr):
        fr.__dict__.setdefault('nonlocals', set()).update(st.names)

    def st_Import(self, st, fr):
        for a in st.names:
            fr.vars[a.asname or a.name.split('.')[0]] = Ext(a.name if a.asname else a.name.split('.')[0])

    def st_ImportFrom(self, st, fr):
        m = self.prog.modules.get(fr.module)
        for a in st.names:
            nm = a.asname or a.name
            if m is not None and nm in m.imports:
                tgt, n2 = m.imports[nm]
                fr.vars[nm] = self.resolve_import(tgt, n2)
            else:
                fr.vars[nm] = Ext(f'{st.module}.{a.name}')

    def st_FunctionDef(self, st, fr):
        fr.vars[st.name] = FuncRef(st, fr.module, cls=fr.cls, closure=fr)

    def st_ClassDef(self, st, fr):
        c = ClassRef(st.name, st, fr.module)
        c.closure = fr
        c.local = True
        fr.vars[st.name] = c

    def st_Delete(self, st, fr):
        for tg in st.targets:
            if isinstance(tg, ast.Subscript):
                o = self.ev(tg.value, fr)
                if isinstance(tg.slice, ast.Slice):
                    lo = self.ev(tg.slice.lower, fr) if tg.slice.lower else K(None)
                    hi = self.ev(tg.slice.upper, fr) if tg.slice.upper else K(None)
                    self.delitem(o, ('slice', lo, hi), st)
                else:
                    self.delitem(o, self.ev(tg.slice, fr), st)
            elif isinstance(tg, ast.Name):
                fr.vars.pop(tg.id, None)
            else:
                raise Fail('del target')

    def delitem(self, o, idx, node):
        hook = getattr(o, 'abs_delitem', None)
        if hook is not None:
            return hook(self, idx, node)
        if isinstance(o, Inst) and o.cls is not None:
            c, m = self.prog.find_method(o.cls, '__delitem__')
            if m is not None:
                if isinstance(idx, tuple):
                    idx = SliceV(idx[1], idx[2])
                return self.invoke(FuncRef(m, c.module, c), [o, idx], {})
            if o.native is not None:
                return self.models.native_delitem(self, o.native, idx)
        if isinstance(o, BA):
            return self.models.native_delitem(self, o, idx)
        if isinstance(o, K) and (isinstance(o.v, bytearray) or type(o.v).__name__ == 'SymBuf'):
            # del buf[a:b] / del buf[i] on a bytearray (concrete or with symbolic content)
            n_ = len(o.v)
            if isinstance(idx, tuple):
                lo, hi = idx[1], idx[2]
                if not all(isinstance(x, K) and (x.v is None or isinstance(x.v, int)) for x in (lo, hi)):
                    raise Fail('del of a symbolic range of a bytearray')
                a_, b_, _ = slice(lo.v, hi.v).indices(n_)
            elif isinstance(idx, K) and isinstance(idx.v, int):
                a_ = idx.v + n_ if idx.v < 0 else idx.v
                if not 0 <= a_ < n_:
                    raise RaiseEx('IndexError', 'bytearray index out of range')
                b_ = a_ + 1
            else:
                raise Fail('del of a symbolic index of a bytearray')
            if isinstance(o.v, bytearray):
                del o.v[a_:max(a_, b_)]
            else:
                from .rope import buf_store
                buf_store(self, o, a_, max(a_, b_), K(b''))
            return
        if isinstance(o, DictV) and not isinstance(idx, tuple):
            k = self.dkey(idx)
            if k in o.d:
                del o.d[k]
                o.keyobj.pop(k, None)
                return
            raise RaiseEx('KeyError', '')
        if isinstance(o, ListV):
            if isinstance(idx, tuple):
                lo, hi = idx[1].v, idx[2].v
                del o.items[lo:hi]
            else:
                del o.items[idx.v]
            return
        raise Fail(f'del on {o!r}')

    def assign(self, tg, v, fr):
        if isinstance(tg, ast.Name):
            # assignment to a name already bound in an enclosing *function* frame stays local (python semantics) unless nonlocal / global
            if tg.id in getattr(fr, 'nonlocals', ()):
                f = fr.parent
                while f is not None and tg.id not in f.vars:
                    f = f.parent
                if f is None:
                    raise Fail(f'nonlocal {tg.id} has no binding')
                f.vars[tg.id] = v
                return
            if tg.id in getattr(fr, 'globals_', ()):
                self.__dict__.setdefault('_globals', {})[(fr.module, tg.id)] = v
                self.__dict__.setdefault('global_writes', []).append((fr.module, tg.id, v))
                return
            fr.vars[tg.id] = v
        elif isinstance(tg, ast.Attribute):
            o = self.ev(tg.value, fr)
            self.setattr(o, tg.attr, v, tg)
        elif isinstance(tg, ast.Subscript):
            o = self.ev(tg.value, fr)
            if isinstance(tg.slice, ast.Slice):
                parts = [self.ev(x, fr) if x is not None else K(None) for x in (tg.slice.lower, tg.slice.upper, tg.slice.step)]
                if not all(isinstance(x, K) and (x.v is None or (isinstance(x.v, int) and not isinstance(x.v, bool))) for x in parts):
                    raise Fail('slice assignment with symbolic bounds')
                sl = slice(parts[0].v, parts[1].v, parts[2].v)
                from .rope import SymBuf, MemView, buf_store
                if isinstance(o, MemView):
                    if sl.step not in (None, 1):
                        raise Fail('strided slice assignment into a memoryview')
                    o.abs_setslice(self, sl.start, sl.stop, v)
                    return
                if isinstance(o, K) and isinstance(o.v, (bytearray, SymBuf)):
                    if isinstance(o.v, bytearray) and isinstance(v, K) and isinstance(v.v, (bytes, bytearray)):
                        try:
                            o.v[sl] = v.v
                        except ValueError as e:
                            raise RaiseEx('ValueError', str(e))
                        return
                    if sl.step not in (None, 1):
                        raise Fail('strided slice assignment of symbolic bytes')
                    a_, b_, _ = slice(sl.start, sl.stop).indices(len(o.v))
                    buf_store(self, o, a_, max(a_, b_), v)        # the buffer keeps its identity; its content becomes a rope
                    return
                if isinstance(o, ListV) and not o.tup:
                    items = self.iterate(v)
                    if items is None:
                        raise Fail('slice assignment from an unknown iterable')
                    try:
                        o.items[sl] = list(items)
                    except ValueError as e:
                        raise RaiseEx('ValueError', str(e))
                    return
                if isinstance(o, ListV) or (isinstance(o, K) and isinstance(o.v, (bytes, str, tuple))):
                    raise RaiseEx('TypeError', 'object does not support item assignment')
                raise Fail(f'slice assignment on {vrepr(o)[:40]}')
            k = self.ev(tg.slice, fr)
            self.setitem(o, k, v, tg)
        elif isinstance(tg, (ast.Tuple, ast.List)):
            items = self.iterate(v)
            star = [i for i, e in enumerate(tg.elts) if isinstance(e, ast.Starred)]
            if star:
                if items is None:
                    raise Fail('starred unpacking of an unknown iterable')
                si = star[0]
                after = len(tg.elts) - si - 1
                if len(items) < len(tg.elts) - 1:
                    raise RaiseEx('ValueError', 'not enough values to unpack')
                mid = items[si:len(items) - after]
                for e, x in zip(tg.elts[:si], items[:si]):
                    self.assign(e, x, fr)
                self.assign(tg.elts[si].value, ListV(mid), fr)
                for e, x in zip(tg.elts[si + 1:], items[len(items) - after:] if after else []):
                    self.assign(e, x, fr)
                return
            if items is None:
                items = [Term('unpack', v, K(i)) for i in range(len(tg.elts))]
            elif len(items) != len(tg.elts):
                raise RaiseEx('ValueError', 'unpack length')
            for e, x in zip(tg.elts, items):
                self.assign(e, x, fr)
        elif isinstance(tg, ast.Starred):
            raise Fail('starred assignment')
        else:
            raise Fail(f'assign target {type(tg).__name__}')

    def setattr(self, o, a, v, node=None):
        hook = getattr(o, 'abs_setattr', None)
        if hook is not None:
            return hook(self, a, v, node)
        if isinstance(o, Inst):
            if o.cls is not None:
                for c in self.prog.mro(o.cls):
                    for d in c.all_defs.get(a, []):
                        fd = FuncRef(d, c.module, c)
                        if 'setter' in fd.decorators():
                            self.invoke(fd, [o, v], {})
                            return
            o.attrs[a] = v
            return
        if isinstance(o, ClassRef):
            self.__dict__.setdefault('class_writes', []).append((o.name, a, v))
            self.__dict__.setdefault('_class_vals', {})[(o.qual, a)] = v
            return
        if isinstance(o, (Sym, Term)):
            return
        if isinstance(o, (FuncRef, Bound, Native)) and a in ('__name__', '__qualname__', '__doc__', '__module__', '__wrapped__', '__annotations__', '__dict__'):
            return          # cosmetic attributes of function objects do not affect what the function computes
        if isinstance(o, ExcV):
            o.__dict__.setdefault('attrs', {})[a] = v
            return
        raise Fail(f'setattr on {o!r}.{a}')

    def setitem(self, o, k, v, node=None):
        hook = getattr(o, 'abs_setitem', None)
        if hook is not None:
            return hook(self, k, v, node)
        if isinstance(o, DictV):
            key = self.dkey(k)
            o.d[key] = v
            o.keyobj[key] = k
        elif isinstance(o, ListV) and isinstance(k, K):
            try:
                o.items[k.v] = v
            except IndexError:
                raise RaiseEx('IndexError', 'assignment index')
        elif isinstance(o, (Sym, Term)):
            return
        elif isinstance(o, K) and isinstance(o.v, bytearray) and isinstance(k, K) and isinstance(v, K):
            try:
                o.v[k.v] = v.v
            except (IndexError, ValueError, TypeError) as e:
                raise RaiseEx(type(e).__name__, 'bytearray item assignment')
        else:
            raise Fail(f'setitem on {o!r}')


def run_paths(make, budget=4096):
    """enumerate all paths: make(oracle) runs one path and returns an outcome; yields (outcome, oracle description)"""
    orc = Oracle()
    n = 0
    while True:
        orc.pos = 0
        out = make(orc)
        yield out, orc.describe()
        n += 1
        if n > budget:
            raise Fail(f'path budget {budget} exceeded')
        if not orc.next_path():
            break
