"""C20 - ADNL channel crypto is symmetric between peers; signatures and keys are consistent.

The third-party primitives (X25519, AES-CTR, Ed25519, HMAC/PBKDF2) are replaced by algebraic models - scalar_mult(a, B) and
scalar_mult(b, A) are the same opaque secret, decrypt_{k,iv}(encrypt_{k,iv}(x)) = x, a signature is the term sig(seed, msg) and
verifies exactly under the matching public key for exactly that message and exactly 64 bytes - and the package's own code
(key split, key/iv derivation, packet layout, signing helpers, mnemonic generation) is abstractly interpreted for BOTH peers.

D1  key split: for the three possible orderings of the two ids (they are only ever compared) A.enc == B.dec and A.dec == B.enc.
D2  packets: B decrypts what A encrypts to the very plaintext symbol (both directions, all orderings); packet = key-id(enc key)
    | sha256(plaintext) | ciphertext; the key id is the one the peer computes for its dec key; key = 16+16, iv = 4+12 bytes.
D3  signing helpers return the 64-byte signature term; verify_sign is True for (matching key, same message, same signature) and
    not True for another key / message / signature or a shifted signature-message boundary.
D4  determinism: no randomness / time source is reachable from mnemonic_to_*; mnemonic_new returns only a list that
    mnemonic_is_valid accepts under the same decisions (default word count = the count the validator demands).
"""
import ast
from ..core import AnalysisError
from ..front import Program, FuncRef, dotted
from ..interp import Interp, Oracle
from ..values import *
from ..rope import Rope, install
from .. import cellmodel as cm

MANIFEST = dict(
    technique='abstract interpretation of AdnlChannel (both peers, all three id orderings), packet layout and signing helpers over algebraic models of X25519 / AES-CTR / Ed25519; call-graph effect analysis (no randomness reachable from key derivation); id parameters used only in comparisons (finite ordering domain)',
    text='Decides that the two ends of a channel derive complementary keys for every ordering of their ids (ids are only compared, so three cases are complete), that each end decrypts exactly '
         'what the other encrypts, that packets are key-id | sha256(plaintext) | ciphertext with the key id the peer expects, that the signing helpers return exactly the 64-byte signature '
         'which verify_sign accepts only with the matching key, message and length, that key derivation from a mnemonic reaches no randomness or time source, and that mnemonic_new only '
         'returns what mnemonic_is_valid accepts.'
         ' Key derivation gives, after any history of other derivations in the same process (other salts, other mnemonics), what it gives in a fresh process; ids are opaque symbols on every comparison path (nothing the channel keeps is computed from an id).'
         ' A bounded retry loop in mnemonic_new is walked for three draws and then as exhausted: what it returns after the last rejected draw must be valid too (raising is accepted).'
         ' Packets of different sizes sent through one channel are each 64 + len(data) bytes and decrypt to their own plaintext.'
         ' A channel re-opened over the same keys gets the same two keys again.',
    note='trusted: interpreter, rope model, the algebraic models of nacl / x25519 / Cryptodome / hashlib (these libraries are not analysed).',
    design_ref='DESIGN.md section 4 C20')


class Enc:
    """object with .encode() -> fixed bytes value (nacl key objects)"""
    def __init__(self, val, **attrs):
        self.val, self.attrs = val, attrs

    def abs_attr(self, it, a, node):
        if a == 'encode' or a == '__bytes__':
            return Native(lambda it_, args, kw, n: self.val, 'key.encode')
        if a in self.attrs:
            return self.attrs[a]
        return None

    def abs_key(self):
        return ('enc', repr(self.val))


class CipherModel:
    """AES-CTR as an algebra with its stream position: a cipher object is stateful - a second call continues the keystream"""
    def __init__(self, key, iv):
        self.key, self.iv = key, iv
        self.pos = 0

    def abs_attr(self, it, a, node):
        def length(x):
            n = it.models.bytes_len(it, x)
            return n.v if isinstance(n, K) else 0
        if a == 'encrypt':
            def enc(it_, args, kw, n):
                t = Term('aesctr', self.key, self.iv, args[0], K(self.pos))
                self.pos += length(args[0])
                out = kw.get('output')
                if out is not None and not (isinstance(out, K) and out.v is None):
                    # Cryptodome: with output=<writable buffer of the same length> the result is written there and None is returned
                    from ..rope import MemView, buf_store, SymBuf
                    if isinstance(out, MemView):
                        out.write(it_, t)
                    elif isinstance(out, K) and isinstance(out.v, (bytearray, SymBuf)):
                        if len(out.v) != length(args[0]):
                            raise RaiseEx('ValueError', 'output must have the same length as the input')
                        buf_store(it_, out, 0, len(out.v), t)
                    else:
                        raise Fail('cipher output= into something that is not a bytearray / memoryview')
                    return K(None)
                return t
            return Native(enc, 'aes.encrypt')
        if a == 'decrypt':
            def dec(it_, args, kw, n):
                x = args[0]
                from ..rope import MemView as _MV
                if isinstance(x, _MV):
                    x = x.rope_value(it_)

                at = self.pos
                self.pos += length(x)
                if isinstance(x, Term) and x.op == 'aesctr' and repr(it_.vkey(x.a[0])) == repr(it_.vkey(self.key)) and repr(it_.vkey(x.a[1])) == repr(it_.vkey(self.iv)) \
                        and isinstance(x.a[3], K) and x.a[3].v == at:
                    res = x.a[2]
                else:
                    res = Term('aesctr_garbage', self.key, self.iv, x)
                out = kw.get('output')
                if out is not None and not (isinstance(out, K) and out.v is None):
                    from ..rope import MemView, buf_store, SymBuf
                    if isinstance(out, MemView):
                        out.write(it_, res)
                    elif isinstance(out, K) and isinstance(out.v, (bytearray, SymBuf)):
                        buf_store(it_, out, 0, len(out.v), res)
                    else:
                        raise Fail('cipher output= into something that is not a bytearray / memoryview')
                    return K(None)
                return res
            return Native(dec, 'aes.decrypt')
        return None


def sig_term(seed, msg):
    return Term('ed25519sig', seed, msg)


class SignedRope(Rope):
    """nacl.signing.SignedMessage: the bytes signature | message, with the two parts also available as attributes"""
    def abs_attr(self, it, a, node):
        if a == 'signature':
            return self.cut(it, 0, 64).simplify()
        if a == 'message':
            return self.cut(it, 64, self.n).simplify()
        return super().abs_attr(it, a, node)


class SigningKeyModel:
    def __init__(self, seed):
        self.seed = seed

    def abs_attr(self, it, a, node):
        if a == 'sign':
            def sign(it_, args, kw, n):
                m = args[0]
                mr = Rope.of(it_, m)
                if mr is None:
                    raise Fail('message of unknown length')
                return SignedRope([(sig_term(self.seed, m), 64)] + mr.parts)
            return Native(sign, 'SigningKey.sign')
        if a == 'encode':
            return Native(lambda it_, args, kw, n: self.seed, 'SigningKey.encode')
        if a == 'verify_key':
            return Enc(Term('pub', self.seed))
        return None


class VerifyKeyModel:
    def __init__(self, pk, log):
        self.pk, self.log = pk, log

    def abs_attr(self, it, a, node):
        if a == 'verify':
            def verify(it_, args, kw, n):
                msg = args[0]
                sg = args[1] if len(args) > 1 else kw.get('signature')
                return verify_model(it_, self.pk, msg, sg)
            return Native(verify, 'VerifyKey.verify')
        return None


def verify_model(it, pk, msg, sg):
    """Ed25519 as an algebra: valid iff sg is exactly sig(seed, msg) (64 bytes) and pk = pub(seed)"""
    sr = Rope.of(it, sg) if sg is not None else None
    if sg is None:
        # combined form: first 64 bytes are the signature
        whole = Rope.of(it, msg)
        if whole is None or whole.n < 64:
            raise RaiseEx('BadSignatureError', 'too short')
        sg_v, m_v = whole.cut(it, 0, 64).simplify(), whole.cut(it, 64, whole.n).simplify()
    else:
        if sr is None or sr.n != 64:
            raise RaiseEx('ValueError', 'The signature must be exactly 64 bytes long')
        sg_v, m_v = sr.simplify(), msg
    if isinstance(sg_v, Term) and sg_v.op == 'ed25519sig':
        seed, m0 = sg_v.a
        mr, m0r = Rope.of(it, m_v), Rope.of(it, m0)
        same_msg = repr(it.vkey(m_v)) == repr(it.vkey(m0)) or (mr is not None and m0r is not None and repr(mr) == repr(m0r))
        if same_msg and repr(it.vkey(pk)) == repr(it.vkey(Term('pub', seed))):
            return m_v
    raise RaiseEx('BadSignatureError', 'oracle: signature does not verify')


def mk(prog):
    it = install(Interp(prog))
    it.INJECTIVE_KEYS = True

    def ext_hook(dotted_, args, kw, n):
        last = dotted_.split('.')[-1]
        if dotted_ == 'x25519.scalar_mult' or last in ('crypto_scalarmult', 'crypto_scalarmult_curve25519'):
            # (libsodium's crypto_scalarmult is the same function X25519 on well-formed 32-byte arguments)
            priv, pub = args
            # X25519: scalar_mult(a, pub(b)) == scalar_mult(b, pub(a)); the secret is a symbol named by the unordered pair
            def owner(v):
                return v.name if isinstance(v, Sym) else repr(v)
            a, b = owner(priv).replace('xpriv_', ''), owner(pub).replace('xpub_', '')
            pair = '+'.join(sorted([a, b]))
            return Sym(f'SHARED({pair})', ty='bytes', n=32, key=('shared', pair))
        if last == 'new' and 'AES' in dotted_:
            key = args[0]
            iv = kw.get('initial_value')
            return CipherModel(key, iv)
        if dotted_.endswith('SigningKey'):
            seed = kw.get('seed', args[0] if args else None)
            return SigningKeyModel(seed)
        if dotted_.endswith('VerifyKey'):
            return VerifyKeyModel(args[0] if args else kw.get('key'), None)
        if last == 'crypto_sign':
            m, sk = args
            mr = Rope.of(it, m)
            return Rope([(sig_term(sk, m), 64)] + mr.parts)
        if last == 'crypto_sign_open':
            return verify_model(it, args[1], args[0], None)
        if last == '_from_parts' and 'SignedMessage' in dotted_:
            return Enc(args[2], signature=args[0], message=args[1])
        return None
    it.ext_hook = ext_hook
    orig_resolve = it.resolve_import

    def resolve_import(tgt, nm, seen=()):
        r = orig_resolve(tgt, nm, seen)
        if isinstance(r, Ext) and r.dotted.endswith('crypto_sign_BYTES'):
            return K(64)
        return r
    it.resolve_import = resolve_import

    def method_hook(v, name, args, kw, node):
        return None
    it.method_hook = method_hook
    return it


class RawEncoderModel:
    def abs_attr(self, it, a, node):
        if a == 'encode' or a == 'decode':
            return Native(lambda it_, args, kw, n: args[0], 'RawEncoder.' + a)
        return None


def peer(prog, it, name):
    """Client for `name` (own keys) as the package builds it, with model key objects"""
    c = Inst(prog.cls('Client'))
    seed = Sym(f'seed_{name}', ty='bytes', n=32, key=('seed', name))
    c.attrs['ed25519_private'] = SigningKeyModel(seed)
    c.attrs['ed25519_public'] = Enc(Term('pub', seed))
    c.attrs['x25519_private'] = Enc(Sym(f'xpriv_{name}', ty='bytes', n=32, key=('xpriv', name)))
    c.attrs['x25519_public'] = Enc(Sym(f'xpub_{name}', ty='bytes', n=32, key=('xpub', name)))
    return c


def server_view(prog, it, client):
    s = Inst(prog.cls('Server'))
    s.attrs['ed25519_public'] = client.attrs['ed25519_public']
    s.attrs['x25519_public'] = client.attrs['x25519_public']
    s.attrs['host'], s.attrs['port'] = K('h'), K(1)
    return s


def same(it, a, b):
    return repr(it.vkey(a)) == repr(it.vkey(b))


def reachable_calls(prog, roots):
    """names (dotted where resolvable) of everything called from the given module-level functions, transitively inside the package"""
    seen, work, out = set(), list(roots), set()
    while work:
        f = work.pop()
        if f.qual in seen:
            continue
        seen.add(f.qual)
        m = prog.modules[f.module]
        for n in ast.walk(f.node):
            if isinstance(n, ast.Call):
                d = dotted(n.func)
                if d is None:
                    continue
                head = d.split('.')[0]
                if head in m.funcs:
                    work.append(m.funcs[head])
                    continue
                if head in m.imports:
                    tgt, nm = m.imports[head]
                    if tgt == '<ext>':
                        out.add(nm + d[len(head):])
                    else:
                        g = prog.modules.get(tgt)
                        if g is not None and nm in g.funcs:
                            work.append(g.funcs[nm])
                        else:
                            out.add(f'{tgt}.{nm}{d[len(head):]}')
                else:
                    out.add(d)
    return out, seen


def check(run):
    prog = Program()
    run.explanation = 'AdnlChannel, packet layout, signing helpers and mnemonic generation interpreted over algebraic models of the crypto libraries, for both peers.'
    run.rule('D1', 'complementary keys: A.enc == B.dec and A.dec == B.enc for id orderings >, <, ==; ids are used in comparisons only', 5)
    run.rule('D2', 'B.decrypt(A.encrypt(P)) is P; packet = sha256(d4adbc2d | enc key) | sha256(P) | ciphertext; key id = the peer\'s id of its dec key; AES key = key[0:16] | checksum[16:32], iv = checksum[0:4] | key[20:32] reported as INFO only', 12)
    run.rule('D3', 'get_signature / sign_message / Client.sign return the 64-byte signature; verify_sign is True only for matching key, message and a signature of exactly 64 bytes', 9)
    run.rule('D4', 'no randomness or clock is reachable from mnemonic_to_*; mnemonic_new returns only lists that mnemonic_is_valid accepts; default word count equals the validated count', 4)
    run.trust('CPython ast', 'checker interpreter', 'sa/rope.py', 'algebraic models of x25519.scalar_mult, AES-CTR, Ed25519 (nacl), hashlib')
    run.exhaustive = True
    AC = prog.cls('AdnlChannel')
    w = prog.where(prog.method('AdnlChannel', '__init__'))
    we = prog.where(prog.method('AdnlChannel', 'encrypt'))

    # ---- ids only compared (so the orderings are the complete domain): the constructor is interpreted with *opaque* ids - every way the
    # two ids can compare is a path - and on each path nothing the channel keeps may be computed from an id (helpers are followed, so
    # moving the split into a function changes nothing)
    from ..interp import run_paths
    IDL = Sym('LOCAL_ID', ty='bytes', n=32, key=('adnlid', 'local'), not_none=True)
    IDP = Sym('PEER_ID', ty='bytes', n=32, key=('adnlid', 'peer'), not_none=True)
    seen_paths = []

    def one(orc):
        it = mk(prog)
        it.oracle = orc
        A, B = peer(prog, it, 'A'), peer(prog, it, 'B')
        try:
            ch = it.construct(AC, [A, server_view(prog, it, B), IDL, IDP], {})
        except RaiseEx as e:
            return ('raise', str(e))
        leaked = sorted(a for a, v in ch.attrs.items() if v is not IDL and v is not IDP and any(nm in vrepr(v) for nm in ('LOCAL_ID', 'PEER_ID')))
        return ('ok', leaked)
    try:
        for (kind, detail), desc in run_paths(one, 64):
            seen_paths.append(desc)
            ok = kind == 'ok' and not detail
            run.check(ok, 'D1', 'AdnlChannel.__init__[ids only compared]' if not ok else f'ids only compared[{desc[:60] or "single path"}]',
                      (f'attributes {detail} are computed from the ids themselves, not only from how they compare' if kind == 'ok' else f'raises {detail}') if not ok
                      else 'nothing the channel keeps is computed from an id on this path', w)
            run.evaluations += 1
    except Fail as e:
        raise AnalysisError(f'AdnlChannel.__init__ with opaque ids: {e} (an id is used in an operation other than a comparison that the model cannot follow)')

    orderings = {'local>peer': (b'\x09' * 32, b'\x01' * 32), 'local<peer': (b'\x01' * 32, b'\x09' * 32), 'equal': (b'\x05' * 32, b'\x05' * 32),
                 'differ in last byte': (b'\x05' * 31 + b'\x06', b'\x05' * 31 + b'\x05')}
    for oname, (ida, idb) in orderings.items():
        it = mk(prog)
        A, B = peer(prog, it, 'A'), peer(prog, it, 'B')
        try:
            chA = it.construct(AC, [A, server_view(prog, it, B), K(ida), K(idb)], {})
            chB = it.construct(AC, [B, server_view(prog, it, A), K(idb), K(ida)], {})
        except RaiseEx as e:
            run.fail('D1', f'AdnlChannel.__init__[{oname}]', f'raises {e}', w)
            continue
        ea, da, eb, db = (chA.attrs.get('enc_key'), chA.attrs.get('dec_key'), chB.attrs.get('enc_key'), chB.attrs.get('dec_key'))
        for k_ in (ea, da, eb, db):
            if 'ext:' in vrepr(k_):
                # a key computed by a library routine the algebraic models do not cover: nothing can be said about the split
                raise AnalysisError(f'AdnlChannel keys are the result of an unmodelled library call: {vrepr(k_)[:80]}')
        ok = same(it, ea, db) and same(it, da, eb)
        run.check(ok, 'D1', 'AdnlChannel.__init__[key split]' if not ok else f'split[{oname}]',
                  f'{oname}: A.enc={vrepr(ea)[:40]} B.dec={vrepr(db)[:40]} | A.dec={vrepr(da)[:40]} B.enc={vrepr(eb)[:40]}', w, witness=dict(ordering=oname))
        run.evaluations += 1
        # a channel re-opened over the same keys (a reconnect) gets the same two keys again
        try:
            chA2 = it.construct(AC, [A, server_view(prog, it, B), K(ida), K(idb)], {})
            chA3 = it.construct(AC, [A, server_view(prog, it, B), K(ida), K(idb)], {})
            again = all(same(it, c_.attrs.get('enc_key'), ea) and same(it, c_.attrs.get('dec_key'), da) for c_ in (chA2, chA3))
            why2 = f'{oname}: the channel opened a second and third time over the same keys has ' + ('the same enc / dec keys' if again else
                    f'enc={vrepr(chA2.attrs.get("enc_key"))[:30]} / {vrepr(chA3.attrs.get("enc_key"))[:30]} where the first had {vrepr(ea)[:30]} - the peer no longer decrypts it')
        except RaiseEx as e:
            again, why2 = False, f'{oname}: re-opening the channel raises {e}'
        run.check(again, 'D1', 'AdnlChannel.__init__[channel re-opened]' if not again else f'reopened[{oname}]', why2, w)
        run.evaluations += 1
        if oname == 'equal':
            continue
        # ---- D2 packets, both directions
        for sname, snd, rcv in (('A->B', chA, chB), ('B->A', chB, chA)):
            P = Sym(f'PLAINTEXT', ty='bytes', n=100, key=('plain',))
            try:
                pkt = cm.call_method(it, snd, 'encrypt', P)
                pr = Rope.of(it, pkt)
                if pr is None or pr.n != 164:
                    run.fail('D2', 'AdnlChannel.encrypt[layout]', f'{oname} {sname}: packet {vrepr(pkt)[:80]} is not 32+32+len(data) bytes', we)
                    continue
                kid, chk, ct = pr.cut(it, 0, 32).simplify(), pr.cut(it, 32, 64).simplify(), pr.cut(it, 64, pr.n).simplify()
                enc_key = snd.attrs['enc_key']
                want_kid = Term('sha256', Rope.of(it, it.concat(K(b'\xd4\xad\xbc-'), enc_key)) if Rope.of(it, it.concat(K(b'\xd4\xad\xbc-'), enc_key)) is not None else None)
                ok_kid = same(it, kid, want_kid) and same(it, kid, rcv.attrs.get('server_aes_key_id'))
                ok_chk = same(it, chk, Term('sha256', P))
                back = cm.call_method(it, rcv, 'decrypt', ct, chk)
                ok_dec = back is P
                # key / iv composition
                ok_kiv = False
                why_kiv = ''
                if isinstance(ct, Term) and ct.op == 'aesctr':
                    key, iv = Rope.of(it, ct.a[0]), Rope.of(it, ct.a[1])
                    ek = Rope.of(it, enc_key)
                    ck = Rope.of(it, Term('sha256', P))
                    if key is not None and iv is not None and ek is not None:
                        wk = Rope(ek.cut(it, 0, 16).parts + ck.cut(it, 16, 32).parts)
                        wi = Rope(ck.cut(it, 0, 4).parts + ek.cut(it, 20, 32).parts)
                        ok_kiv = repr(key) == repr(wk) and repr(iv) == repr(wi) and same(it, ct.a[2], P)
                        why_kiv = f'key {key!r} iv {iv!r}'[:200]
                for ok, what, detail in ((ok_kid, 'key id', f'key id {vrepr(kid)[:60]}; peer expects {vrepr(rcv.attrs.get("server_aes_key_id"))[:60]}'),
                                         (ok_chk, 'checksum', f'checksum field {vrepr(chk)[:60]} (must be sha256 of the plaintext)'),
                                         (ok_dec, 'decrypt', f'peer decrypts to {vrepr(back)[:60]} (must be the plaintext)'),
                                         ):
                    run.check(ok, 'D2', f'AdnlChannel.encrypt/decrypt[{what}]' if not ok else f'{what}[{oname},{sname}]', f'{oname} {sname}: {detail}', we, witness=dict(ordering=oname, direction=sname))
                    run.evaluations += 1
                # the composition of the AES key / iv is not demanded by the property (any composition used identically by both ends keeps it true): reported only
                if not ok_kiv:
                    run.info(f'{oname} {sname}: AES key/iv composition differs from ADNL (key[0:16]|checksum[16:32], checksum[0:4]|key[20:32]): {why_kiv}')
            except RaiseEx as e:
                run.fail('D2', 'AdnlChannel.encrypt/decrypt', f'{oname} {sname}: raises {e}', we)

    # a packet must decrypt on its own: the same plaintext sent twice, the peer sees only the second copy (or sees one copy twice)
    it = mk(prog)
    A, B = peer(prog, it, 'A'), peer(prog, it, 'B')
    ida, idb = K(b'\x09' * 32), K(b'\x01' * 32)
    chA = it.construct(AC, [A, server_view(prog, it, B), ida, idb], {})
    chB = it.construct(AC, [B, server_view(prog, it, A), idb, ida], {})
    P = Sym('PLAINTEXT', ty='bytes', n=100, key=('plain',))
    try:
        p1 = Rope.of(it, cm.call_method(it, chA, 'encrypt', P))
        p2 = Rope.of(it, cm.call_method(it, chA, 'encrypt', P))
        second = cm.call_method(it, chB, 'decrypt', p2.cut(it, 64, p2.n).simplify(), p2.cut(it, 32, 64).simplify())
        again = cm.call_method(it, chB, 'decrypt', p2.cut(it, 64, p2.n).simplify(), p2.cut(it, 32, 64).simplify())
        ok = second is P and again is P
        why = f'same plaintext encrypted twice; the peer decrypts the second packet to {vrepr(second)[:40]} and the same packet again to {vrepr(again)[:40]} (both must be the plaintext: every packet is keyed by its own checksum from position 0)'
    except RaiseEx as e:
        ok, why = False, f'raises {e}'
    run.check(ok, 'D2', 'AdnlChannel.encrypt/decrypt[repeated packet]' if not ok else 'repeated plaintext / duplicated packet', why, we)
    # packets of different sizes through one channel: each packet is 32 + 32 + len(data) bytes whatever was sent before (a send buffer kept
    # between calls must not leave the tail of an earlier, longer packet behind)
    for sizes in ((100, 40), (40, 100, 8), (1, 16, 1)):
        it = mk(prog)
        A, B = peer(prog, it, 'A'), peer(prog, it, 'B')
        ida, idb = K(b'\x09' * 32), K(b'\x01' * 32)
        chA = it.construct(AC, [A, server_view(prog, it, B), ida, idb], {})
        chB = it.construct(AC, [B, server_view(prog, it, A), idb, ida], {})
        ok, why = True, f'packets of {list(sizes)} bytes in a row: each is 64 + len(data) bytes and decrypts to its own plaintext'
        try:
            for i, n_ in enumerate(sizes):
                Pi = Sym(f'PLAIN{i}', ty='bytes', n=n_, key=('plain', i)) if n_ else K(b'')
                pk = Rope.of(it, cm.call_method(it, chA, 'encrypt', Pi))
                if pk is None or pk.n != 64 + n_:
                    ok, why = False, f'packets of {list(sizes)} bytes in a row: packet #{i + 1} is {None if pk is None else pk.n} bytes long, expected {64 + n_}'
                    break
                back = cm.call_method(it, chB, 'decrypt', pk.cut(it, 64, pk.n).simplify(), pk.cut(it, 32, 64).simplify())
                same_ = back is Pi or (isinstance(back, K) and isinstance(Pi, K) and bytes(back.v) == bytes(Pi.v)) or repr(it.vkey(back)) == repr(it.vkey(Pi))
                if not same_:
                    ok, why = False, f'packets of {list(sizes)} bytes in a row: packet #{i + 1} decrypts to {vrepr(back)[:50]}, not to its plaintext'
                    break
        except RaiseEx as e:
            ok, why = False, f'packets of {list(sizes)} bytes in a row: raises {e}'
        run.check(ok, 'D2', 'AdnlChannel.encrypt[packets of different sizes in sequence]' if not ok else f'history: packets of {list(sizes)} bytes', why, we)
        run.evaluations += len(sizes)
    # ---- D3 signatures
    ws = prog.where(prog.func('verify_sign'))
    it = mk(prog)
    A = peer(prog, it, 'A')
    M = Sym('MSG', ty='bytes', n=40, key=('msg',))
    seedA = A.attrs['ed25519_private'].seed
    want = sig_term(seedA, M)
    outs = {}
    try:
        outs['get_signature'] = it.invoke(prog.func('get_signature'), [A.attrs['ed25519_private'], M], {})
        outs['Client.sign'] = cm.call_method(it, A, 'sign', M)
        sm = prog.func('sign_message')
        enc_default = RawEncoderModel()
        outs['sign_message'] = it.invoke(sm, [M, seedA, enc_default], {})
    except RaiseEx as e:
        run.fail('D3', 'signing helpers', f'raises {e}', ws)
    for k, v in outs.items():
        ok = same(it, v, want)
        run.check(ok, 'D3', k if not ok else f'{k} returns the 64-byte signature', f'{k} -> {vrepr(v)[:70]}', ws)
    # messages of every size are signed the same way (pure Ed25519 over the whole message): the empty one, and sizes around 64 KiB / 1 MiB / 16 MiB
    for n_ in (0, 1, 65535, 65536, (1 << 20) - 1, 1 << 20, (1 << 20) + 1, 3 << 20, 1 << 24):
        itn = mk(prog)
        An = peer(prog, itn, 'A')
        Mn = Sym(f'MSG{n_}', ty='bytes', n=n_, key=('msgn', n_)) if n_ else K(b'')
        seedn = An.attrs['ed25519_private'].seed
        wantn = sig_term(seedn, Mn)
        for k, call_ in (('get_signature', lambda: itn.invoke(prog.func('get_signature'), [An.attrs['ed25519_private'], Mn], {})),
                         ('sign_message', lambda: itn.invoke(prog.func('sign_message'), [Mn, seedn, RawEncoderModel()], {}))):
            try:
                v = call_()
                ok, why = same(itn, v, wantn), f'-> {vrepr(v)[:60]}'
                if ok:
                    r = itn.invoke(prog.func('verify_sign'), [Term('pub', seedn), Mn, v], {})
                    ok = isinstance(r, K) and r.v is True
                    why += f'; verify_sign -> {vrepr(r)[:20]}'
            except RaiseEx as e:
                ok, why = False, f'raises {e}'
            except Fail as e:
                raise AnalysisError(f'{k} on a message of {n_} bytes: {e}')
            run.check(ok, 'D3', f'{k}[message of {n_} bytes]' if not ok else f'{k}:{n_} bytes', f'{k} on a message of {n_} bytes {why} (must be the Ed25519 signature of the whole message, which verify_sign accepts)', ws)
            run.evaluations += 1
    pkA = Term('pub', seedA)
    pkB = Term('pub', Sym('seed_B', ty='bytes', n=32, key=('seed', 'B')))
    M2 = Sym('MSG2', ty='bytes', n=40, key=('msg2',))
    sgr = Rope([(want, 64)])
    cases = [
        ('genuine', pkA, M, want, True),
        ('other key', pkB, M, want, False),
        ('other message', pkA, M2, want, False),
        ('signature of another message', pkA, M, sig_term(seedA, M2), False),
        ('foreign signature bytes', pkA, M, Sym('X64', ty='bytes', n=64, key=('x64',)), False),
        ('boundary shifted left (60-byte signature, rest prepended to the message)', pkA, Rope(sgr.cut(it, 60, 64).parts + [(M, 40)]), sgr.cut(it, 0, 60).simplify(), False),
        ('boundary shifted right (68-byte signature taking 4 message bytes)', pkA, Rope.of(it, M).cut(it, 4, 40).simplify(), Rope([(want, 64)] + Rope.of(it, M).cut(it, 0, 4).parts), False),
        ('empty signature, signature prepended to the message', pkA, Rope([(want, 64), (M, 40)]), K(b''), False),
    ]
    for name, pk, m, sg, wantres in cases:
        it2 = mk(prog)
        try:
            r = it2.invoke(prog.func('verify_sign'), [pk, m, sg], {})
            got = r.v if isinstance(r, K) else repr(r)
        except RaiseEx as e:
            got = f'raises {e.kind}'
        ok = (got is True) if wantres else (got is not True)
        run.check(ok, 'D3', f'verify_sign[{name}]' if not ok else f'verify[{name}]', f'{name}: verify_sign -> {got} (must {"be True" if wantres else "not be True"})', ws)
        run.evaluations += 1

    # ---- D4 determinism and mnemonics
    km = prog.modules['crypto.keys']
    roots = [km.funcs[n] for n in ('mnemonic_to_entropy', 'mnemonic_to_seed', 'mnemonic_to_private_key', 'mnemonic_to_wallet_key') if n in km.funcs]
    if len(roots) < 4:
        raise AnalysisError('mnemonic_to_* anchors missing')
    calls, seen = reachable_calls(prog, roots)
    bad = sorted(c for c in calls if any(x in c for x in ('urandom', 'random', 'time', 'secrets', 'uuid', 'getrandbits', 'get_secure_random_number', 'datetime')))
    run.check(not bad, 'D4', 'mnemonic_to_*[effects]', f'randomness/time reachable: {bad}' if bad else f'{len(seen)} functions, external calls {sorted(calls)[:12]}: none is a randomness or time source',
              prog.where(roots[-1]))
    # mnemonic_new -> mnemonic_is_valid under the same decisions
    fnew, fvalid = km.funcs['mnemonic_new'], km.funcs['mnemonic_is_valid']
    # a bounded retry loop (`for _ in range(N)` with the counter unused): walked for three draws and then as exhausted - what is returned after
    # the last rejected draw must be valid as well
    capped = any(isinstance(x, ast.For) and isinstance(x.iter, ast.Call) and isinstance(x.iter.func, ast.Name) and x.iter.func.id == 'range'
                 and isinstance(x.target, ast.Name) and not any(isinstance(y, ast.Name) and y.id == x.target.id and isinstance(y.ctx, ast.Load) for y in ast.walk(x))
                 for x in ast.walk(fnew.node))
    for decisions in ((0,), (1, 0), (1, 1, 0)) + (((1, 1, 1),) if capped else ()):
        it = mk(prog)
        if capped:
            it.RANGE_CAP = 3
        it.STREAM_CAP = len(decisions) + 1      # an endless candidate stream (itertools.count) is walked for a prefix
        ctr = [0]

        def summary(f, args, kw, ctr=ctr):
            if f.name == 'get_secure_random_number':
                ctr[0] += 1
                return Sym(f'rnd{ctr[0]}', ty='int')
            return None
        it.summary_hook = summary
        orc = Oracle()
        orc.choices, orc.widths, orc.labels = list(decisions), [2] * len(decisions), [''] * len(decisions)
        it.oracle = orc
        try:
            res = it.invoke(fnew, [], {})
            n0 = len(it.pathcond)
            v = it.invoke(fvalid, [res], {})
            tv = it.truth(v)
            ok = tv is True and len(it.pathcond) == n0 and isinstance(res, ListV) and len(res.items) == 24
            why = f'after {len(decisions) - 1} rejected draw(s): returned {len(res.items) if isinstance(res, ListV) else "?"} words; mnemonic_is_valid -> {tv} with {len(it.pathcond) - n0} new undecided condition(s)'
        except RaiseEx as e:
            if getattr(it, 'range_capped', False) and all(decisions):
                ok, why = True, f'every draw of the bounded retry loop rejected: raises {e.kind} (no mnemonic is returned)'
            else:
                ok, why = False, f'raises {e}'
        except Fail as e:
            raise AnalysisError(f'mnemonic_new not interpretable: {e}')
        run.check(ok, 'D4', 'mnemonic_new/mnemonic_is_valid' if not ok else f'mnemonic_new[{len(decisions) - 1} retries]', why, prog.where(fnew))
        run.evaluations += 1
    # derivation is a function of the words only: two evaluations give the same term
    it = mk(prog)
    wl = ListV([K('abandon')] * 23 + [K('zoo')])
    try:
        a = it.invoke(km.funcs['mnemonic_to_wallet_key'], [wl], {})
        b = it.invoke(km.funcs['mnemonic_to_wallet_key'], [wl], {})
        ok = repr(a) == repr(b)
        why = f'two derivations give {"the same" if ok else "different"} term(s): {vrepr(a)[:80]}'
    except RaiseEx as e:
        ok, why = False, f'raises {e}'
    run.check(ok, 'D4', 'mnemonic_to_wallet_key[deterministic]' if not ok else 'derivation is a pure function of the words', why, prog.where(km.funcs['mnemonic_to_wallet_key']))
    # ... and of nothing else: whatever was derived before in the same process (other salts, other mnemonics, the other entry points),
    # each derivation gives what it gives in a fresh process
    wl2 = ListV([K('zoo')] * 23 + [K('abandon')])
    salts = (K(b'TON default seed'), K(b'TON HD Keys seed'), K(b'some other salt'))
    calls = [('mnemonic_to_seed', [wl, salts[1]]), ('mnemonic_to_wallet_key', [wl]), ('mnemonic_to_private_key', [wl]), ('mnemonic_to_seed', [wl, salts[0]]),
             ('mnemonic_to_seed', [wl, salts[2]]), ('mnemonic_to_wallet_key', [wl2]), ('mnemonic_to_seed', [wl2, salts[1]]), ('mnemonic_to_wallet_key', [wl]),
             ('mnemonic_to_entropy', [wl]), ('mnemonic_to_seed', [wl, salts[1]])]
    calls = [c for c in calls if c[0] in km.funcs]
    it = mk(prog)
    for i, (fn_, args_) in enumerate(calls):
        try:
            fresh = repr(mk(prog).invoke(km.funcs[fn_], list(args_), {}))
            got = repr(it.invoke(km.funcs[fn_], list(args_), {}))
            ok = fresh == got
            why = f'call #{i + 1} {fn_}({"first" if args_[0] is wl else "second"} mnemonic{", salt " + repr(args_[1].v) if len(args_) > 1 else ""}) after {i} earlier derivation(s): ' + \
                ('the same result as in a fresh process' if ok else f'{got[:70]} - in a fresh process {fresh[:70]}')
        except RaiseEx as e:
            ok, why = False, f'call #{i + 1} {fn_}: raises {e}'
        run.check(ok, 'D4', f'{fn_}[independent of earlier calls]' if not ok else f'history[{i}:{fn_}]', why, prog.where(km.funcs[fn_]))
        run.evaluations += 1
