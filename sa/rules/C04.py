"""C04 - emitted bag-of-cells bytes conform to the TON serialized_boc wire format.

Cell.to_boc is abstractly interpreted on DAG fixtures that hit every structural case (sharing, content-equal duplicates,
a cell referenced both directly and deeper, exotic cells, the 255/256-cell and 255/256-byte width boundaries) for all six
valid option combinations; the resulting byte string is decoded by an independent *strict* decoder transcribed from
boc.tlb (sa/bocspec.py), which checks widths, forward-only references, each distinct cell exactly once, the index being
cumulative end offsets (doubled with cache bits), tot_cells_size and the CRC-32C trailer.
"""
import sys
from ..core import AnalysisError
from ..front import Program
from ..interp import Interp
from ..values import *
from .. import bocspec, bocrun
from .. import cellmodel as cm

MANIFEST = dict(
    technique='abstract interpretation of Cell.to_boc on DAG fixtures x all 6 option sets; output decoded by an independent strict serialized_boc decoder (transcription of boc.tlb)',
    text='Decides, for every option combination and for DAG shapes covering sharing, duplicates, re-ordering, exotic cells and all header '
         'width boundaries, that the emitted bytes are accepted by a strict independent decoder and denote the same DAG: sufficient size/offset '
         'widths, forward-only references, one copy per distinct cell, index = cumulative end offsets (doubled with cache bits), CRC-32C over '
         'everything before it. DAG shapes are fixtures (finite), options are exhaustive.',
    note='trusted: interpreter, sa/bocspec.py (strict decoder + CRC-32C, transcribed from boc.tlb / boc.cpp). Not decided: the ordering algorithm as a graph theorem for all DAGs.',
    design_ref='DESIGN.md section 4 C04')

OPTS = [(False, False, False), (False, True, False), (True, False, False), (True, True, False), (True, False, True), (True, True, True)]


def opt_name(o):
    return f"idx={int(o[0])},crc={int(o[1])},cache={int(o[2])}"


def emit(prog, roots, opt):
    it = Interp(prog)
    c = bocrun.build(it, roots[0])
    out = cm.call_method(it, c, 'to_boc', K(opt[0]), K(opt[1]), K(opt[2]))
    return it, c, out


def check(run):
    sys.setrecursionlimit(20000)
    prog = Program()
    w = prog.where(prog.method('Cell', 'to_boc'))
    thorough = run.tier == 'thorough'
    run.explanation = 'to_boc interpreted on DAG fixtures x 6 option sets; bytes decoded by a strict independent serialized_boc decoder and compared with the source DAG.'
    run.rule('D1', 'emitted bytes are accepted by the strict serialized_boc decoder (layout, widths, flags, tot_cells_size, forward references) and decode to the same DAG', 60)
    run.rule('D2', 'the index holds cumulative end offsets, doubled when cache bits are on, in off_bytes wide enough for them', 30)
    run.rule('D3', 'CRC-32C (little-endian) over everything before it, appended last', 30)
    run.rule('D4', 'each distinct cell exactly once; single root at the index the root list names', 60)
    run.trust('CPython ast', 'checker interpreter', 'sa/bocspec.py strict decoder / CRC-32C (boc.tlb, boc.cpp)')
    small_scope(run, prog, w, 5 if thorough else 3)
    dags = bocrun.dags(thorough)
    big = {'tree341', 'heap255', 'heap256', 'heap257', 'tree85', 'payload70k'}
    for name, roots in dags.items():
        opts = OPTS if (thorough or name not in big) else [OPTS[3]] if name not in ('heap256', 'payload70k') else [OPTS[0], OPTS[5]]
        for opt in opts:
            tag = f'{name}[{opt_name(opt)}]'
            try:
                it, c, out = emit(prog, roots, opt)
            except RaiseEx as e:
                run.fail('D1', 'Cell.to_boc', f'{tag}: raises {e}', w, witness=dict(dag=name, opt=opt))
                continue
            run.evaluations += 1
            st = bocrun.stream_of(out)
            if st is None:
                raise AnalysisError(f'to_boc result is not a concrete byte string: {vrepr(out)[:80]}')
            raw = bytes(out.v)
            try:
                dec = bocspec.strict_decode(st)
            except bocspec.SpecError as e:
                rule = 'D2' if 'index' in str(e) else 'D1'
                run.fail(rule, 'Cell.to_boc' + ('[index]' if rule == 'D2' else ''), f'{tag}: strict decoder rejects the output: {e}', w, witness=dict(dag=name, opt=opt, boc=raw.hex()[:400]))
                continue
            flags_ok = (bool(dec['has_idx']), bool(dec['has_crc']), bool(dec['cache'])) == opt
            same = bocrun.decoded_key(dec, dec['roots'][0]) == bocrun.skey(roots[0])
            good = flags_ok and same
            run.check(good, 'D1', 'Cell.to_boc' if not good else tag,
                      f'{tag}: ' + ('accepted, same DAG' if good else f'flags as requested: {flags_ok}; decodes to the same DAG: {same}') +
                      f' (size={dec["size"]}, off_bytes={dec["off"]}, cells={len(dec["cells"])})', w, witness=dict(dag=name, opt=opt))
            nd = bocrun.n_distinct(roots)
            keys = [bocrun.decoded_key(dec, i) for i in range(len(dec['cells']))]
            once = len(dec['cells']) == nd and len(set(keys)) == len(keys) and len(dec['roots']) == 1
            run.check(once, 'D4', 'Cell.to_boc[dedup]' if not once else f'once:{tag}',
                      f'{tag}: {len(dec["cells"])} cells serialised, {nd} distinct in the DAG, {len(set(keys))} distinct serialised, {len(dec["roots"])} root(s)', w)
            if opt[0]:
                run.ok('D2', f'index:{tag}', f'{len(dec["index"])} entries = cumulative end offsets' + (' x2' if opt[2] else ''))
            if opt[1]:
                want = bocspec.crc32c_fast(raw[:-4])
                okc = raw[-4:] == want and dec['crc_at'] == len(raw) - 4
                run.check(okc, 'D3', 'Cell.to_boc[crc]' if not okc else f'crc:{tag}', f'{tag}: trailer {raw[-4:].hex()} vs CRC-32C(le) of the preceding bytes {want.hex()}', w)
    # histories: the same cell objects serialised in different bags, one after the other - positions in a bag belong to the bag, not to the cell
    run.rule('D5', 'a cell serialised before (alone, inside another bag, with other options) serialises afresh: every later bag is a strict serialized_boc of its own DAG', 4)
    from ..bocspec import SCell
    leafa, leafb = SCell('1010'), SCell('110011')
    inner = SCell('11110000', [leafa, leafb])
    mid = SCell('0101', [leafb, inner])
    outer = SCell('00111', [leafa, mid, inner])
    other = SCell('1', [inner, leafa])
    it = Interp(prog)
    memo = {}

    def obj(sc):
        if id(sc) not in memo:
            memo[id(sc)] = cm.new_cell(it, cm.tvm_bits(it, BA([Seg(len(sc.bits), 'k', sc.bits)])), [obj(r) for r in sc.refs])
        return memo[id(sc)]
    sequence = [('inner alone', inner, (False, False, False)), ('outer (inner deeper, other positions)', outer, (True, True, False)), ('mid', mid, (False, True, False)),
                ('other root over inner', other, (True, False, True)), ('outer again', outer, (False, False, False)), ('inner again', inner, (True, True, True))]
    for step, (what, sc, opt) in enumerate(sequence):
        try:
            out = cm.call_method(it, obj(sc), 'to_boc', K(opt[0]), K(opt[1]), K(opt[2]))
            st = bocrun.stream_of(out)
            dec = bocspec.strict_decode(st)
            same = bocrun.decoded_key(dec, dec['roots'][0]) == bocrun.skey(sc)
            ok, why = same, 'strict decoder accepts it' + ('' if same else ' but it decodes to a DIFFERENT DAG')
        except bocspec.SpecError as e:
            ok, why = False, f'strict decoder rejects the output: {e}'
        except RaiseEx as e:
            ok, why = False, f'raises {e}'
        run.evaluations += 1
        run.check(ok, 'D5', 'Cell.to_boc[cells serialised before]' if not ok else f'history step {step + 1}: {what}',
                  f'step {step + 1} of serialising shared cell objects in turn ({", ".join(w_ for w_, _, _ in sequence[:step + 1])}): {why}', w)
    # default options: no index, no crc
    it = Interp(prog)
    c = bocrun.build(it, dags['chain3'][0])
    out = cm.call_method(it, c, 'to_boc')
    try:
        dec = bocspec.strict_decode(bocrun.stream_of(out))
        good = not dec['has_idx'] and not dec['has_crc'] and not dec['cache']
    except bocspec.SpecError as e:
        run.fail('D1', 'Cell.to_boc', f'to_boc() with default options: strict decoder rejects the output: {e}', w)
        return
    run.check(good, 'D1', 'Cell.to_boc[defaults]' if not good else 'defaults', 'to_boc() without arguments: no index, no CRC, no cache bits', w)


def small_scope(run, prog, where, max_n):
    """small-scope exhaustive family (quick: <= 3 cells; thorough: up to 5): every DAG shape with <= 3 cells (<= 4 references each), 4 cells (<= 3) and 5 cells (<= 2), two content modes"""
    from .. import smallscope
    n, res = smallscope.run_family(prog, 'writer', max_n)
    run.count('small_scope_dags', n)
    bad = [r for r in res if r[2] != 'ok']
    if any(r[2] == 'undecided' for r in res):
        raise AnalysisError(f'small-scope family: {[r for r in res if r[2] == "undecided"][0]}')
    run.evaluations += len(res)
    for tag, opt, st, detail in res:
        if st == 'ok':
            run.ok('D1', f'small:{tag}{list(opt)}')
    for tag, opt, st, detail in bad[:3]:
        run.fail('D1', 'Cell.to_boc[small-scope DAG]', f'{tag} with options {opt}: {detail}  ({len(bad)} of {len(res)} small-scope cases fail)', where, witness=dict(dag=tag, opt=[str(o) for o in opt]))
