"""C16 - transaction, account and block parsers read exactly what block.tlb specifies.

Schema-directed typestate checking of every `deserialize` (sa/tlbslice.py): the abstract Slice is the remaining token stream
of a TL-B constructor lowered from the bundled block.tlb; the deserialiser is abstractly interpreted; every constructor of
the class's type, every optional-field / Either / Maybe / dictionary-presence combination and every value of every
schema-level discriminator is enumerated (paths by replay).  Obligations per (class, constructor, path):
 (a) every integer load coincides with exactly one schema field, in width AND signedness; only raw reads may span fields;
 (b) references are taken in schema order and parsed as the schema's type; dictionaries with the schema's key width, their
     value/extra deserialisers consume the whole value type;
 (c) at normal return nothing is left - bits or references;
 (d) a field's symbol is not stored under the name of a different field of the same constructor;
 (e) every constructor has a non-raising path.
"""
import ast
import collections
import multiprocessing as mp
import os
import sys
from ..core import AnalysisError, PKG
from ..front import Program, FuncRef, ClassRef
from ..interp import Interp, Oracle
from ..values import *
from ..tlbslice import *

MANIFEST = dict(
    technique='schema-directed typestate analysis: abstract interpretation of every deserialize with the Slice replaced by the remaining TL-B token stream lowered from block.tlb; exhaustive over constructors x optional/Either/Maybe/dictionary presence x schema discriminators',
    text='Decides for every class of the covered types and every constructor alternative and optional-field combination that the parser issues exactly the reads block.tlb prescribes - width, signedness, '
         'order of bit fields, order and type of references, dictionary key widths and value layouts - consumes exactly the encoded bits and references, and does not route a field into another field\'s attribute. '
         'Field values are opaque by construction; the bundled main-net block clause is a test, not an analysis, and is not claimed.'
         ' Sub-cells opened with begin_parse() must be consumed completely; struct.unpack over a raw multi-field read is matched item by item against the schema fields (width and signedness); a deserialiser that raises for every value of a schema-valid Maybe/Either/constructor choice is a rejection of valid encodings; deserialisers that inspect what is left in the slice are analysed inline in their callers.'
         ' A field that is present in the encoding and read does not come back as a constant because of its value (`just 0` is not `nothing`).',
    note='trusted: interpreter, checker TL-B parser and lowering (sa/tlbp.py, sa/tlbslice.py), the bundled block.tlb as the authority (docstring definitions only for constructors the file predates). '
         'Config parameters, out-actions and bridge parameters are analysed by the same code but reported as INFO only.',
    design_ref='DESIGN.md section 4 C16')

CLAIMED_CONFIG = {'ValidatorSet', 'ValidatorDescr', 'SigPubKey', 'CatchainConfig', 'ConfigParam28', 'ConfigParam32', 'ConfigParam34', 'ConfigParam36'}
INFO_PREFIX = ('ConfigParam', 'OutAction', 'OutList', 'LibRef', 'JettonBridge', 'OracleBridge', 'Vm', 'WalletV', 'Nft', 'HighloadWallet', 'WalletV4', 'Highload')
C17_CLASSES = ('VmStack', 'VmStackList', 'VmStackValue', 'VmTuple', 'VmTupleRef', 'VmCellSlice', 'VmCont', 'VmControlData', 'VmSaveList')


def load_db(prog):
    path = os.path.join(prog.pkg, 'tlb', 'schemas', 'block.tlb')
    if not os.path.exists(path):
        raise AnalysisError('bundled block.tlb not found')
    return SchemaDB(open(path, encoding='utf-8').read())


def arg_sets(con):
    sets = [[]]
    for p in con['args']:
        if p[0] == 'num':
            sets = [a + [p[1]] for a in sets]
        elif p[0] == 'add':
            sets = [a + [p[2][1]] for a in sets] + [a + [p[2][1] + 1] for a in sets]
        elif p[0] == 'id' and p[1].islower() and len(p[1]) <= 2:
            # a natural-number parameter (n, m, ...): small representatives
            sets = [a + [v] for a in sets for v in (0, 1, 2)]
        else:
            sets = [a + [('id', 'Any')] for a in sets]
    return sets


def instances(prog, db, classmap, only=None):
    """(class name, constructor decl, source, cargs) to analyse"""
    out = []
    for cname in sorted(classmap):
        if only and cname not in only:
            continue
        cls = prog.classes[cname]
        info = classmap[cname]
        c, fn = prog.find_method(cls, 'deserialize')
        if fn is None or is_stub(fn):
            continue
        tname = info['type']
        same = {n for n, i in classmap.items() if i['type'] == tname}
        if any(len(classmap[o]['cons']) > len(info['cons']) for o in same if o != cname) and not cname.startswith('ConfigParam'):
            continue        # a constructor-class: analysed inlined through its dispatcher, where the tag is consumed
        for dcon in info['cons']:
            cands = [d for d in db.by_name.get(dcon['name'], []) if d['type'] == tname] if dcon['name'] != '_' else \
                [d for d in db.types.get(tname, []) if d['name'] == '_' and len(db.types.get(tname, [])) == 1]
            con = cands[0] if cands else dcon
            src = 'block.tlb' if cands else 'docstring'
            for cargs in arg_sets(con):
                out.append((cname, con, src, cargs))
    return out


def run_instance(prog, db, classmap, cname, con, cargs, budget=6000):
    cls = prog.classes[cname]
    c, fn = prog.find_method(cls, 'deserialize')
    info = classmap[cname]
    orc = Oracle()
    npaths = 0
    outcomes = collections.Counter()
    problems = {}
    samples = []
    while True:
        orc.pos = 0
        it = Interp(prog, orc)
        it.MAX_STEPS = 400000
        install_modular(it, db, classmap, cname)
        sl = AbsSlice(it, db, [], {}, cname)
        kind, detail = None, ''
        try:
            sl.toks = sl.constructor_tokens(con, cargs)
            extra = [K(a) for a in cargs if isinstance(a, int)]
            if cname.startswith('ConfigParam'):
                extra = []
            nparams = len(fn.args.args) - 2
            extra = extra[:max(0, nparams)]
            first = sl
            pnames = [a.arg for a in fn.args.args]
            if len(pnames) > 1 and pnames[1] == 'cell':
                # the method takes the cell itself (exotic wrappers): hand it a cell whose content is the stream, of the exotic type the schema names
                first = CellObj(it, db, ('id', 'Cell'), {}, cname)
                first.root_slice = sl
                first.type_value = K({'!merkle_update': 4, '!merkle_proof': 3}.get(con['name'], -1))
                extra = [Native(lambda it_, a, k, n: (a[0].method(it_, 'load_snake_bytes', [], {}, n), Sym('parsed'))[1], 'deserializer')]
            try:
                res = it.call(Bound(cls, FuncRef(fn, c.module, c)), [first] + extra, {})
                subleft = [x for x in getattr(it, 'subslices', []) if x.trace and not x.only_any()]
                if sl.only_any() and subleft:
                    x = subleft[0]
                    kind, detail = 'leftover', f'the cell of `{x.label}` is opened with begin_parse() and left with unread ' + '; '.join(x.remaining_desc())[:200]
                elif sl.only_any():
                    bad = routing_problem(con, res) or lost_value_problem(it, orc, sl, res)
                    if not bad:
                        # the same value parsed a second time in the same process (same choices, equal field values, a fresh slice): the parser
                        # must read the second slice just as it read the first - whatever it remembers from earlier calls
                        save_pos = orc.pos
                        orc.pos = 0
                        sl2 = AbsSlice(it, db, [], {}, cname)
                        sl2.toks = sl2.constructor_tokens(con, cargs)
                        first2 = sl2
                        if isinstance(first, CellObj):
                            first2 = CellObj(it, db, ('id', 'Cell'), {}, cname)
                            first2.root_slice = sl2
                            first2.type_value = first.type_value
                        it.subslices = []
                        try:
                            it.call(Bound(cls, FuncRef(fn, c.module, c)), [first2] + extra, {})
                            sub2 = [x for x in getattr(it, 'subslices', []) if x.trace and not x.only_any()]
                            if not sl2.only_any() or sub2:
                                bad = 'parsed a second time in the same process, an equal value is not read: the second slice is left with ' + '; '.join((sub2[0] if sub2 else sl2).remaining_desc())[:160]
                        except RaiseEx as e2:
                            bad = f'parsed a second time in the same process, an equal value raises {e2.kind}'
                        except Mismatch as e2:
                            bad = f'second parse in the same process: {str(e2)[:160]}'
                        orc.pos = max(orc.pos, save_pos)
                        if bad:
                            kind, detail = 'leftover', bad
                    elif bad:
                        kind, detail = 'route', bad
                    if bad:
                        pass
                    else:
                        kind = 'ok'
                        if len(samples) < 2:
                            samples.append('; '.join(f'{a}<-{b}' for a, b in sl.trace[:8]))
                else:
                    kind, detail = 'leftover', 'returns with unread ' + '; '.join(sl.remaining_desc())[:220]
            except RaiseEx as e:
                kind, detail = 'raise', f'{e.kind}'
                why = unjustified_rejection(it, sl, con)
                if why:
                    kind, detail = 'reject', f'raises {e.kind}: {why}'
                elif not it.decided and not any(l.startswith(('truth', 'isinstance', 'cmp', 'eq', 'in(')) for l in orc.labels[:orc.pos]):
                    # nothing about the field *values* was tested on this path: the exception follows from the schema-level choices alone
                    # (constructor, Maybe / Either / dictionary presence, enumerated flag bits), every one of which is a valid encoding
                    kind, detail = 'reject', f'raises {e.kind} ({str(e.what)[:80]}) for every value with the schema-valid choices [{orc.describe()[:120] or "none"}]'
            except Mismatch as e:
                kind, detail = 'mismatch', str(e)[:260]
        except Fail as e:
            kind, detail = 'fail', str(e)[:200]
        except RecursionError:
            kind, detail = 'fail', 'recursion limit'
        outcomes[kind] += 1
        if kind in ('route', 'leftover', 'mismatch', 'fail', 'reject'):
            problems.setdefault((kind, detail), orc.describe()[:160])
        npaths += 1
        if npaths > budget:
            problems[('fail', f'path budget {budget} exceeded')] = ''
            break
        if not orc.next_path():
            break
    return dict(paths=npaths, outcomes=dict(outcomes), problems=problems, samples=samples)


def _norm(a, op, b, val):
    """the comparison `a op b` having truth value `val`, as a true statement (x, '<' | '<=', y); integer constants are folded into '<='"""
    t = {'Lt': '<', 'LtE': '<=', 'Gt': '>', 'GtE': '>=', '<': '<', '<=': '<=', '>': '>', '>=': '>='}[op]
    if t in ('>', '>='):
        a, b, t = b, a, '<' if t == '>' else '<='
    if not val:
        a, b, t = b, a, '<' if t == '<=' else '<='
    if t == '<' and isinstance(b, int):
        b, t = b - 1, '<='
    elif t == '<' and isinstance(a, int):
        a, t = a + 1, '<='
    return (a, t, b)


def unjustified_rejection(it, sl, con):
    """obligation (e): a deserializer may refuse a value only where the schema does.  When the raise is guarded by an order comparison between
    fields of this constructor (or a field and a constant), the guard - as decided on this path - must be the negation of one of the
    constructor's `{ a <= b }` constraints or lie outside the field's bit width; otherwise valid encodings are rejected."""
    if not it.decided:
        return None
    key, val = list(it.decided.items())[-1]
    if not (isinstance(key, tuple) and key and key[0] == 'cmp'):
        return None
    names = {}
    widths = {}
    for name, sym in sl.reads:
        if name:
            names[repr(it.vkey(sym))] = name
            n = getattr(getattr(sym, 'info', None), 'n', None)
            if isinstance(n, int):
                widths[name] = n

    def operand(r):
        if r in names:
            return names[r]
        try:
            v = ast.literal_eval(r)
        except Exception:
            return None
        if isinstance(v, tuple) and len(v) == 2 and v[0] == 'k':
            try:
                return int(v[1])
            except (TypeError, ValueError):
                return None
        return v if isinstance(v, int) and not isinstance(v, bool) else None
    a, b = operand(key[2]), operand(key[3])
    if a is None or b is None or (isinstance(a, int) and isinstance(b, int)):
        return None
    guard = _norm(a, key[1], b, val)
    fields = set(field_names(con))
    if not all(isinstance(x, int) or x in fields for x in (guard[0], guard[2])):
        return None
    allowed = set()
    for f in con['fields']:
        if f[0] == 'constraint' and len(f[1]) == 3 and f[1][1] in ('<=', '>=', '<', '>'):
            x, op, y = f[1]
            x = int(x) if x.lstrip('-').isdigit() else x
            y = int(y) if y.lstrip('-').isdigit() else y
            allowed.add(_norm(x, op, y, False))
            # fields the analysis enumerates concretely (flag bits that select optional parts) appear by value in the guard
            xs = [x] + ([sl.env[x]] if isinstance(x, str) and isinstance(sl.env.get(x), int) else [])
            ys = [y] + ([sl.env[y]] if isinstance(y, str) and isinstance(sl.env.get(y), int) else [])
            for x_ in xs:
                for y_ in ys:
                    if not (isinstance(x_, int) and isinstance(y_, int)):
                        allowed.add(_norm(x_, op, y_, False))
    if guard in allowed:
        return None
    x, t, y = guard
    if isinstance(y, int) and isinstance(x, str) and y < 0:
        return None        # x <= negative: impossible for an unsigned field, the raise is dead
    if isinstance(x, int) and isinstance(y, str) and y in widths and x > (1 << widths[y]) - 1:
        return None        # beyond the field's width: dead as well
    cons = ', '.join(' '.join(f[1]) for f in con['fields'] if f[0] == 'constraint') or 'none'
    return f'the value is refused when {x} {t} {y}, which the constraints of {con["name"]} ({cons}) do not exclude'


def lost_value_problem(it, orc, sl, res):
    """the parser returns every field with the encoded value: a field that is present in the encoding and was read must not come back as a
    constant because of what its VALUE happens to be - e.g. `(bit and load()) or None`, which turns `just 0` into `nothing`.  Reported when the
    attribute named after a field that was read holds a constant on a path that tested the truth of that field's value"""
    if not isinstance(res, Inst):
        return None
    reads = list(sl.reads) + [r for x in getattr(it, 'subslices', []) for r in getattr(x, 'reads', [])]
    by_name = {}
    for name, sym in reads:
        if name and isinstance(sym, Sym):
            by_name.setdefault(name, []).append(sym)
    labels = orc.labels[:orc.pos]
    for attr, v in res.attrs.items():
        syms = by_name.get(attr)
        if not syms or len(syms) != 1 or not isinstance(v, K):
            continue
        nm = syms[0].name
        if any(l.startswith('truth(') and nm in l for l in labels):
            return (f'field {attr} is present in this encoding and was read, but the parser returns {v.v!r} for it on the path where the VALUE read is falsy '
                    f'(a Maybe field holding `just 0` comes back as `nothing`)')
    return None


def routing_problem(con, res):
    """obligation (d): the symbol of schema field X must not end up in the attribute named after another field Y of the same constructor;
    a list of sub-cell slices handed out as the result (the leaves of a BinTree) is in the order the schema gives them: depth-first, left to right"""
    if not isinstance(res, Inst):
        return None
    for attr, v in res.attrs.items():
        if isinstance(v, ListV) and len(v.items) >= 2 and all(isinstance(x, AbsSlice) and hasattr(x, 'path') for x in v.items):
            paths = [x.path for x in v.items]
            if paths != sorted(paths):
                return f'the sub-cells collected in `{attr}` come in the order {paths}, the schema (left before right, depth first) gives {sorted(paths)}'
    names = set(field_names(con))
    for attr, v in res.attrs.items():
        if isinstance(v, Sym) and v.meta.get('field') and attr in names and v.meta['field'] in names and v.meta['field'] != attr:
            return f'field {v.meta["field"]} is stored in attribute {attr} (which is the name of another field of {con["name"]})'
    return None


def _worker(arg):
    pkg, idxs, only = arg
    sys.setrecursionlimit(20000)
    prog = Program(pkg)
    db = load_db(prog)
    classmap = build_classmap(prog)
    for cname, info in classmap.items():
        db.add(info['all'])
    inst = instances(prog, db, classmap, only)
    out = []
    for i in idxs:
        cname, con, src, cargs = inst[i]
        r = run_instance(prog, db, classmap, cname, con, cargs)
        out.append((i, cname, con['name'], src, cargs, r))
    return out


def analyse(prog, only=None):
    db = load_db(prog)
    classmap = build_classmap(prog)
    for cname, info in classmap.items():
        db.add(info['all'])
    inst = instances(prog, db, classmap, only)
    nproc = min(16, mp.cpu_count())
    chunks = [(prog.pkg, list(range(len(inst)))[k::nproc], only) for k in range(nproc)]
    with mp.Pool(nproc) as pool:
        res = [r for part in pool.map(_worker, chunks) for r in part]
    res.sort()
    return db, classmap, res


def in_scope(cname, module):
    if cname in C17_CLASSES:
        return False
    if module == 'tlb.config':
        return cname in CLAIMED_CONFIG
    if module in ('tlb.custom.wallet', 'tlb.custom.nft'):
        return False
    if cname.startswith(('OutAction', 'OutList', 'LibRef')):
        return False
    return True


def report(run, prog, res, scope, rule_prefix=''):
    """turn instance results into obligations; returns the number of instances in scope"""
    nscope = 0
    for i, cname, conname, src, cargs, r in res:
        cls = prog.classes[cname]
        claimed = scope(cname, cls.module)
        c, fn = prog.find_method(cls, 'deserialize')
        where = prog.where(FuncRef(fn, c.module, c))
        tag = f'{cname} x {conname}{cargs if cargs else ""}'
        run.evaluations += r['paths']
        bad = [(k, d, p) for (k, d), p in r['problems'].items()]
        fails = [b for b in bad if b[0] == 'fail']
        viol = [b for b in bad if b[0] != 'fail']
        if not claimed:
            for k, d, p in viol[:2]:
                run.info(f'(outside the claimed scope) {tag}: {d} @ {p}')
            continue
        nscope += 1
        if fails and not viol:
            raise AnalysisError(f'{tag}: {fails[0][1]} @ {fails[0][2]}')
        if viol:
            k, d, p = viol[0]
            run.fail('T', f'{cname}.deserialize[{conname}]', f'{tag} [{src}]: {d}  (path: {p or "-"}; {r["paths"]} paths, outcomes {r["outcomes"]})', where,
                     witness=dict(cls=cname, constructor=conname, args=[str(a) for a in cargs], path=p))
        elif not r['outcomes'].get('ok'):
            run.fail('T', f'{cname}.deserialize[{conname}]', f'{tag} [{src}]: no path parses this constructor (outcomes {r["outcomes"]})', where)
        else:
            run.ok('T', tag, f'{r["paths"]} path(s), {r["outcomes"].get("ok")} conforming' + (f': {r["samples"][0]}' if r['samples'] else ''))
    return nscope


def check(run):
    sys.setrecursionlimit(20000)
    prog = Program()
    run.explanation = 'every deserialize of the covered TL-B types interpreted against the token stream of each constructor of block.tlb; all presence/discriminator combinations enumerated.'
    run.rule('T', 'per (class, constructor): reads = schema fields in width, signedness and order; references in order and of the right type; exact consumption; no field routed to another field\'s attribute; at least one accepting path', 110)
    run.trust('CPython ast', 'checker interpreter', 'sa/tlbp.py + sa/tlbslice.py (TL-B parsing and lowering)', 'bundled block.tlb')
    run.exhaustive = True
    # the typestate model of Slice.load_hashmap_aug_e (consumes presence bit, root reference and root extra) is pinned to the code
    run.rule('M', 'the Slice methods the typestate models are pinned to the code where their contract is not obvious: load_hashmap_aug_e consumes the root extra:Y', 2)
    from .C10 import pin_aug_e
    aug = (lambda val: format(int(val, 2) % 16, '04b'), lambda l, r: format((int(l, 2) + int(r, 2)) % 16, '04b'))
    pin_aug_e(run, prog, 'M', aug, prog.where(prog.method('Slice', 'load_hashmap_aug_e')))
    db, classmap, res = analyse(prog)
    run.count('classes_with_tlb_docstring', len(classmap))
    run.count('instances', len(res))
    n = report(run, prog, res, in_scope)
    run.count('instances_in_scope', n)
