"""Regenerates MANIFEST.json from the rule modules that exist (each carries a MANIFEST dict) - run after adding a rule."""
import importlib
import json
import os
import sys

VERIF = os.path.dirname(os.path.dirname(os.path.abspath(__file__)))
sys.path.insert(0, VERIF)
NA_REASON = {}
base = {
    "version": 1,
    "setup_cmd": "true",
    "hooks": {
        "guard": "PYTONIQ_CORE_VERIF",
        "enable": "no source hooks are needed: the checkers read /repo's working tree with ast and never import or run it",
        "baseline_off_cmd": "cd /repo && /venv/bin/python -m pytest -ra -q -p no:cacheprovider --timeout=900 --continue-on-collection-errors",
        "source_commits": [],
        "add_only": True,
    },
    "engines": [
        {"name": "front", "path": "sa/front.py", "serves_properties": [], "kind_free_text": "ast loader, symbol tables, class hierarchy, import resolution"},
        {"name": "interp", "path": "sa/interp.py", "serves_properties": [], "kind_free_text": "the checker's own abstract interpreter (control concrete, data abstract, path enumeration by replay); library models in sa/models.py"},
        {"name": "tlb", "path": "sa/tlbp.py", "serves_properties": [], "kind_free_text": "TL-B parser and schema-directed typestate"},
    ],
    "checks": [],
    "not_applicable": [],
    "notes": "Static analysis only: no check imports or executes pytoniq_core. exit 0 pass / exit 1 + VIOLATION / exit 2 ANALYSIS-ERROR. known_findings.json lists genuine defects (fixed ones suppress nothing).",
}
props = [json.loads(l) for l in open(os.path.join(VERIF, 'properties.jsonl'))]
for p in props:
    pid = p['id']
    path = os.path.join(VERIF, 'sa', 'rules', pid + '.py')
    mod = None
    if os.path.exists(path):
        mod = importlib.import_module(f'sa.rules.{pid}')
    meta = getattr(mod, 'MANIFEST', None) if mod else None
    if meta is None or meta.get('not_applicable'):
        base['not_applicable'].append({'property_id': pid, 'reason': (meta or {}).get('not_applicable') or
                                       'checker not built yet in this round (DESIGN.md section 8 build order); it will be claimed once its check exists'})
        continue
    level = getattr(mod, 'LEVEL', 'other')
    base['checks'].append({
        'property_id': pid,
        'quick_cmd': f'./check {pid} --tier quick',
        'thorough_cmd': f'./check {pid} --tier thorough',
        'evidence_file': f'evidence/{pid}.json',
        'replay_cmd_template': f'./check {pid} --replay {{path}}',
        'engine': 'interp' if 'interpret' in meta['technique'] else 'front',
        'level_claimed': {'category': level, 'text': meta['text'], 'design_ref': meta.get('design_ref', 'DESIGN.md section 4')},
        'level_note': meta['note'],
        'technique': meta['technique'],
    })
json.dump(base, open(os.path.join(VERIF, 'MANIFEST.json'), 'w'), indent=1)
print(len(base['checks']), 'checks;', len(base['not_applicable']), 'not applicable')
