"""prints the path of a scratch worktree of /repo with the stored change <dir> applied (seeded/<name> or benign/<name>); remove it with tools/rmwt.sh <path>"""
import os, sys
sys.path.insert(0, os.path.dirname(os.path.abspath(__file__)))
import wt
d = sys.argv[1]
if not os.path.isdir(d):
    base = os.path.dirname(os.path.dirname(os.path.abspath(__file__)))
    d = os.path.join(base, 'benign' if '-b' in d else 'seeded', d)
w, info = wt.make(d, 'mkwt_' + os.path.basename(d))
print(w)
print(info, file=sys.stderr)
