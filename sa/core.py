"""Verdict protocol shared by every rule module: obligations, floors, known findings, evidence, exit codes.

exit 0  every obligation discharged (or only listed known findings)
exit 1  + "VIOLATION property=<id> replay=<path>"  an obligation failed that known_findings.json does not list
exit 2  + "ANALYSIS-ERROR ..."  anchor vanished / budget exceeded / floor not reached / checker raised
"""
import json
import os
import re
import sys
import time
import hashlib

VERIF = os.path.dirname(os.path.dirname(os.path.abspath(__file__)))
REPO = os.environ.get('VERIF_REPO', '/repo')
PKG = os.path.join(REPO, 'pytoniq_core')
OUT = os.environ.get('VERIF_OUT', VERIF)     # evidence/replays go here (self-test runs redirect it)


class AnalysisError(Exception):
    """the checker cannot decide (never a pass, never a violation)"""


def _slug(s):
    return re.sub(r'[^A-Za-z0-9_.-]+', '_', s)[:120]


class Run:
    def __init__(self, pid, tier, level='other', quiet=False):
        self.pid = pid
        self.tier = tier
        self.level = level
        self.t0 = time.time()
        self.obl = []            # dicts: rule, construct, ok, detail, where
        self.floors = {}         # rule -> minimum number of obligations
        self.rules = {}          # rule -> text
        self.infos = []
        self.samples = []
        self.counts = {}         # free-form measured counters
        self.trusted = []
        self.assumptions = []
        self.explanation = ''
        self.exhaustive = False
        self.quiet = quiet
        self.evaluations = 0
        try:
            self.seed = int(os.environ.get('VERIF_SEED', '0'))
        except ValueError:
            self.seed = 0

    # ---- declaration
    def rule(self, rid, text, floor=1):
        self.rules[rid] = text
        self.floors[rid] = floor

    def trust(self, *items):
        for i in items:
            if i not in self.trusted:
                self.trusted.append(i)

    def assume(self, *items):
        for i in items:
            if i not in self.assumptions:
                self.assumptions.append(i)

    def count(self, key, n=1):
        self.counts[key] = self.counts.get(key, 0) + n

    def info(self, msg):
        self.infos.append(msg)
        if not self.quiet:
            print('INFO', msg)

    # ---- obligations
    def ok(self, rule, construct, detail='', where=''):
        self._add(rule, construct, True, detail, where)

    def fail(self, rule, construct, detail='', where='', witness=None):
        self._add(rule, construct, False, detail, where, witness)

    def check(self, cond, rule, construct, detail='', where='', witness=None):
        self._add(rule, construct, bool(cond), detail, where, witness)
        return bool(cond)

    def _add(self, rule, construct, ok, detail, where, witness=None):
        if rule not in self.rules:
            raise AnalysisError(f'undeclared rule {rule}')
        self.obl.append(dict(rule=rule, construct=construct, ok=ok, detail=str(detail)[:600], where=where,
                             witness=witness))
        if len(self.samples) < 12 and ok:
            self.samples.append(f'{rule} {construct}: {str(detail)[:200]}' if detail else f'{rule} {construct}')

    def sample(self, s):
        if len(self.samples) < 40:
            self.samples.append(s)

    # ---- finish
    def known(self):
        p = os.path.join(VERIF, 'known_findings.json')
        if not os.path.exists(p):
            return {}
        out = {}
        for e in json.load(open(p)).get('findings', []):
            if e.get('property') == self.pid and e.get('status') == 'known':
                out[(e['rule'], e['construct'])] = e
        return out

    def unlisted_failures(self):
        known = self.known()
        return [o for o in self.obl if not o['ok'] and (o['rule'], o['construct']) not in known]

    def finish(self):
        wall = time.time() - self.t0
        known = self.known()
        bad = [o for o in self.obl if not o['ok']]
        viol, kf = {}, {}
        for o in bad:
            key = (o['rule'], o['construct'])
            (kf if key in known else viol).setdefault(key, o)
        if not viol:
            # floors: a rule that matched fewer sites than confirmed by hand can never pass (vacuous rules never pass)
            for rid, fl in self.floors.items():
                n = sum(1 for o in self.obl if o['rule'] == rid)
                if n < fl:
                    raise AnalysisError(f'rule {rid} decided {n} instance(s), floor is {fl} - anchor lost or rule went vacuous')
        for key, o in kf.items():
            print(f"KNOWN-FINDING: property={self.pid} {key[0]} {key[1]}: {known[key].get('what', o['detail'])}")
        rc = 0
        for key, o in viol.items():
            rc = 1
            path = os.path.join(OUT, 'replays', f'{self.pid}-{_slug(key[0])}-{_slug(key[1])}.json')
            try:
                os.makedirs(os.path.dirname(path), exist_ok=True)
                json.dump(dict(property=self.pid, rule=key[0], rule_text=self.rules.get(key[0], ''), construct=key[1],
                               detail=o['detail'], where=o['where'], witness=o.get('witness'), tier=self.tier),
                          open(path, 'w'), indent=1, default=str)
            except OSError:
                pass
            print(f"{o['where'] or '-'}  {key[0]}  {key[1]}  {o['detail']}")
            print(f'VIOLATION property={self.pid} replay={path}')
        self.write_evidence(wall, len(viol), len(kf))
        if not self.quiet:
            n = len(self.obl)
            print(f'{self.pid} {self.tier}: {n} obligations, {n - len(bad)} discharged, {len(kf)} known finding(s), '
                  f'{len(viol)} violation(s), {wall:.2f}s')
        return rc

    def write_evidence(self, wall, nviol, nknown):
        n = len(self.obl)
        distinct = len({(o['rule'], o['construct']) for o in self.obl})
        cov = dict(
            explanation=self.explanation or 'static rules over the syntax tree of /repo (see rules)',
            obligations=n,
            discharged=sum(1 for o in self.obl if o['ok']),
            evaluations=max(1, self.evaluations or n),
            distinct_nontrivial=max(distinct, 0),
            rule='one obligation per (rule, construct); distinct = distinct (rule id, construct) pairs; '
                 'evaluations = abstract states / paths / domain points evaluated by the checker',
            rules=self.rules,
            per_rule={r: dict(instances=sum(1 for o in self.obl if o['rule'] == r),
                              failed=sum(1 for o in self.obl if o['rule'] == r and not o['ok']),
                              floor=self.floors[r]) for r in self.rules},
            samples=self.samples[:40] or ['(none)'],
            checker_cmd=f'./check {self.pid} --tier {self.tier}',
            trusted_base=self.trusted,
            exhaustive=self.exhaustive,
            known_findings=nknown,
            infos=self.infos[:40],
            counts=self.counts,
            repo=REPO,
        )
        ev = dict(property_id=self.pid, tier=self.tier, seed=self.seed, level=self.level, coverage=cov,
                  assumptions=self.assumptions, wall_s=round(wall, 3), violations=nviol)
        d = os.path.join(OUT, 'evidence')
        os.makedirs(d, exist_ok=True)
        tmp = os.path.join(d, f'.{self.pid}.json.tmp')
        json.dump(ev, open(tmp, 'w'), indent=1, default=str)
        os.replace(tmp, os.path.join(d, f'{self.pid}.json'))


def digest(*parts):
    h = hashlib.sha256()
    for p in parts:
        h.update(repr(p).encode())
    return h.hexdigest()[:12]
