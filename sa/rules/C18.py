"""C18 - CRC-16/XMODEM and CRC-32C equal their bitwise definitions (level: proof).

The two functions are evaluated by a dedicated *GF(2)-affine* abstract interpreter: every integer is a vector of bits, every
bit an affine form (xor of input bits and the constant 1) over the symbolic state bits s0..s(W-1) and byte bits b0..b7.
Only operations that preserve affinity are representable (xor, shifts and masks by constants, lookup in a table that has
been shown GF(2)-linear); anything else is an ANALYSIS-ERROR, never a guess. The resulting per-byte transition map is
compared, as a matrix, with the map of the bitwise definition -> equal for all 2^(W+8) (state, byte) pairs; with the
initial value, the loop shape (every byte, in order, no early exit) and the output conversion this is the property for
all byte strings by induction on the length.
"""
import ast
from ..core import AnalysisError
from ..front import Program

LEVEL = 'proof'
MANIFEST = dict(
    technique='GF(2)-affine abstract interpretation of the CRC loops (bit-vector of affine forms), table generation from the polynomial, matrix equality with the bitwise definition, induction on length',
    text='Proof-level: every obligation (tables, linearity, per-byte transition as a GF(2) matrix, state range, initial value, output '
         'conversion, loop shape) is closed by an exhaustive or algebraic argument, so crc16/crc32c equal CRC-16/XMODEM and CRC-32C on all '
         'byte strings. Any construct outside the affine sub-language is an analysis error, never a guess.'
         " The names crc16/crc32c as callers see them (decorators applied) must return the analysed function's result in every call history (symbolic inputs, both functions interleaved)."
         ' The length-skeleton language covers counted and while loops, iterator cursors, zip units, enumerate, windows of any block size (symbolic residue), single-byte folds, '
         'multi-statement helpers, stripped inputs (fixed-point argument), bitwise (table-free) steps and binascii.crc_hqx (library contract). A routine outside that language '
         '(register kept in an object, engines, generators) is not proved for all lengths: rule O6 then decides it exactly for every input of 47 lengths up to 129 bytes, '
         'and the evidence says so.'
         ' For routines decided by O6 the result of a call does not depend on earlier calls, including calls that ended in an exception (rule O6h: histories in one interpreter).',
    note='trusted: CPython ast, the checker\'s GF(2) bit-vector evaluator, the transcription of the two bitwise CRC definitions',
    design_ref='DESIGN.md section 4 C18')
ONE = '1'


# ---------------------------------------------------------------- bitwise definitions (the oracle)
def step16(c, b):
    c ^= b << 8
    for _ in range(8):
        c = ((c << 1) ^ 0x1021) & 0xFFFF if c & 0x8000 else (c << 1) & 0xFFFF
    return c


def step32c(c, b):
    c ^= b
    for _ in range(8):
        c = (c >> 1) ^ 0x82F63B78 if c & 1 else c >> 1
    return c


def table_from(step, w):
    return [step(0, i) for i in range(256)] if w == 32 else [step(0, i) for i in range(256)]


SPEC = {
    'crc16': dict(w=16, step=step16, init=0, xorout=0, nbytes=2, table=[step16(0, i) for i in range(256)]),
    'crc32c': dict(w=32, step=step32c, init=0xFFFFFFFF, xorout=0xFFFFFFFF, nbytes=4,
                   table=[step32c(0, i) for i in range(256)]),
}


# ---------------------------------------------------------------- affine bit-vector domain
class Vec:
    """integer >= 0 as {bit position: frozenset(symbols)}; missing position = constant 0"""
    def __init__(self, bits=None):
        self.bits = {k: v for k, v in (bits or {}).items() if v}

    @staticmethod
    def const(c):
        if c < 0:
            raise AnalysisError('negative constant in CRC arithmetic')
        return Vec({i: frozenset([ONE]) for i in range(c.bit_length()) if c >> i & 1})

    @staticmethod
    def sym(prefix, w):
        return Vec({i: frozenset([f'{prefix}{i}']) for i in range(w)})

    def is_const(self):
        return all(v == frozenset([ONE]) for v in self.bits.values())

    def cval(self):
        return sum(1 << k for k in self.bits)

    def xor(self, o):
        r = dict(self.bits)
        for k, v in o.bits.items():
            r[k] = r.get(k, frozenset()) ^ v
        return Vec(r)

    def shl(self, n):
        return Vec({k + n: v for k, v in self.bits.items()})

    def shr(self, n):
        return Vec({k - n: v for k, v in self.bits.items() if k >= n})

    def mask(self, m):
        return Vec({k: v for k, v in self.bits.items() if m >> k & 1})

    def width(self):
        return max(self.bits) + 1 if self.bits else 0

    def __eq__(self, o):
        return isinstance(o, Vec) and self.bits == o.bits

    def eval(self, env):
        tot = 0
        for k, f in self.bits.items():
            b = 0
            for s in f:
                b ^= 1 if s == ONE else env[s]
            tot |= b << k
        return tot


def lookup(table, idx):
    """T[idx] for a GF(2)-linear table T and an affine index: xor_i idx_i * T[1<<i] (+ T[const part])"""
    if (1 << idx.width()) > len(table):
        raise AnalysisError(f'table index may exceed {len(table) - 1}')
    out = Vec()
    for i, form in idx.bits.items():
        col = table[1 << i]
        out = out.xor(Vec({k: form for k in range(col.bit_length()) if col >> k & 1}))
    return out


class Aff:
    """evaluates the straight-line integer code of one function in the affine domain"""
    def __init__(self, consts):
        self.env = dict(consts)

    def ev(self, n):
        if isinstance(n, ast.Constant):
            if isinstance(n.value, bool) or not isinstance(n.value, (int, str)):
                raise AnalysisError(f'constant {n.value!r}')
            return Vec.const(n.value) if isinstance(n.value, int) else n.value
        if isinstance(n, ast.Name):
            if n.id not in self.env:
                raise AnalysisError(f'unbound name {n.id}')
            return self.env[n.id]
        if isinstance(n, ast.BinOp):
            a, b = self.ev(n.left), self.ev(n.right)
            if not isinstance(a, Vec) or not isinstance(b, Vec):
                raise AnalysisError('non-integer operand')
            if isinstance(n.op, ast.BitXor):
                return a.xor(b)
            if isinstance(n.op, ast.LShift) and b.is_const():
                return a.shl(b.cval())
            if isinstance(n.op, ast.RShift) and b.is_const():
                return a.shr(b.cval())
            if isinstance(n.op, ast.BitAnd) and (a.is_const() or b.is_const()):
                return (a.mask(b.cval()) if b.is_const() else b.mask(a.cval()))
            if isinstance(n.op, ast.Mod) and b.is_const() and b.cval() & (b.cval() - 1) == 0 and b.cval() > 0:
                return a.mask(b.cval() - 1)
            if isinstance(n.op, ast.Mult) and b.is_const() and b.cval() & (b.cval() - 1) == 0 and b.cval() > 0:
                return a.shl(b.cval().bit_length() - 1)
            if isinstance(n.op, ast.FloorDiv) and b.is_const() and b.cval() & (b.cval() - 1) == 0 and b.cval() > 0:
                return a.shr(b.cval().bit_length() - 1)
            if isinstance(n.op, ast.BitOr) and not (set(a.bits) & set(b.bits)):
                return a.xor(b)        # disjoint supports: or == xor
            if a.is_const() and b.is_const():
                import operator as o
                f = {ast.Add: o.add, ast.Sub: o.sub, ast.Mult: o.mul, ast.BitOr: o.or_, ast.BitAnd: o.and_}.get(type(n.op))
                if f:
                    return Vec.const(f(a.cval(), b.cval()))
            raise AnalysisError(f'operation {type(n.op).__name__} is not GF(2)-affine on symbolic operands')
        if isinstance(n, ast.Subscript):
            t = self.ev(n.value)
            if isinstance(t, list):
                i = self.ev(n.slice)
                if not isinstance(i, Vec):
                    raise AnalysisError('table index')
                if i.is_const():
                    return Vec.const(t[i.cval()])
                return lookup(t, i)
            raise AnalysisError('subscript of non-table')
        if isinstance(n, ast.UnaryOp) and isinstance(n.op, ast.Invert):
            raise AnalysisError('~ yields negative ints')
        if isinstance(n, ast.IfExp):
            # c ? a : b  with c one bit of an affine value and a ^ b a constant:  b ^ c * (a ^ b)  stays affine (the bitwise CRC step is of this form)
            c = self.bit_test(n.test)
            a, b = self.ev(n.body), self.ev(n.orelse)
            if not isinstance(a, Vec) or not isinstance(b, Vec):
                raise AnalysisError('conditional expression over non-integers')
            if c is True or c is False:
                return a if c else b
            d = a.xor(b)
            if not d.is_const():
                raise AnalysisError('conditional expression whose arms differ by a data-dependent amount is not GF(2)-affine')
            out = dict(b.bits)
            for k_ in d.bits:
                out[k_] = out.get(k_, frozenset()) ^ c
            return Vec(out)
        raise AnalysisError(f'expression {type(n).__name__} outside the affine sub-language')

    def vrange(self, n):
        v = self.ev(n)
        if isinstance(v, Vec):
            return (v.cval(), v.cval()) if v.is_const() else (0, (1 << v.width()) - 1)
        lin = getattr(self, 'lin', None)
        if lin is not None:
            try:
                l = lin(v)
                if l.is_const():
                    return (l.b, l.b)
            except AnalysisError:
                pass
        return None

    def range_truth(self, t):
        """True / False when the ranges of the operands (affine values are 0 .. 2^width-1) decide the test, else None"""
        if isinstance(t, ast.UnaryOp) and isinstance(t.op, ast.Not):
            r = self.range_truth(t.operand)
            return None if r is None else not r
        if isinstance(t, ast.BoolOp):
            rs = [self.range_truth(v) for v in t.values]
            if isinstance(t.op, ast.And):
                return False if any(r is False for r in rs) else None if any(r is None for r in rs) else True
            return True if any(r is True for r in rs) else None if any(r is None for r in rs) else False
        if isinstance(t, ast.Compare):
            ops = [t.left] + list(t.comparators)
            try:
                rng = [self.vrange(o) for o in ops]
            except AnalysisError:
                return None
            out = True
            for (a, b), op in zip(zip(rng, rng[1:]), t.ops):
                if a is None or b is None:
                    return None
                (alo, ahi), (blo, bhi) = a, b
                if isinstance(op, ast.Lt):
                    r = True if ahi < blo else False if alo >= bhi else None
                elif isinstance(op, ast.LtE):
                    r = True if ahi <= blo else False if alo > bhi else None
                elif isinstance(op, ast.Gt):
                    r = True if alo > bhi else False if ahi <= blo else None
                elif isinstance(op, ast.GtE):
                    r = True if alo >= bhi else False if ahi < blo else None
                elif isinstance(op, (ast.Eq, ast.NotEq)):
                    r = False if (ahi < blo or bhi < alo) else True if alo == ahi == blo == bhi else None
                    if isinstance(op, ast.NotEq) and r is not None:
                        r = not r
                else:
                    return None
                if r is False:
                    return False
                if r is None:
                    out = None
            return out
        try:
            return self.bit_test(t) if isinstance(self.bit_test(t), bool) else None
        except AnalysisError:
            return None

    def bit_test(self, t):
        """the truth value of `t` as one affine bit form (or a Python bool when constant); only tests of a single bit are affine"""
        neg = False
        while isinstance(t, ast.UnaryOp) and isinstance(t.op, ast.Not):
            t, neg = t.operand, not neg
        if isinstance(t, ast.Compare) and len(t.ops) == 1 and isinstance(t.ops[0], (ast.Eq, ast.NotEq)):
            rhs = self.ev(t.comparators[0])
            lhs = self.ev(t.left)
            if isinstance(rhs, Vec) and rhs.is_const() and isinstance(lhs, Vec) and len(set(lhs.bits) | set(rhs.bits)) <= 1:
                form = frozenset()
                for kk in set(lhs.bits) | set(rhs.bits):
                    form = lhs.bits.get(kk, frozenset()) ^ rhs.bits.get(kk, frozenset())
                # form == 0  <=>  equal
                res = form ^ frozenset([ONE]) if isinstance(t.ops[0], ast.Eq) else form
                if neg:
                    res = res ^ frozenset([ONE])
                return (ONE in res) if res <= frozenset([ONE]) else res
            raise AnalysisError('comparison that is not a single-bit test')
        v = self.ev(t)
        if not isinstance(v, Vec):
            raise AnalysisError('condition over a non-integer')
        if len(v.bits) == 0:
            return neg
        if len(v.bits) > 1:
            raise AnalysisError('a condition over more than one data bit is not GF(2)-affine')
        form = next(iter(v.bits.values()))
        if neg:
            form = form ^ frozenset([ONE])
        return (ONE in form) if form <= frozenset([ONE]) else form


def fold_const(prog, module, expr, env=None):
    """constant folding of an input-independent expression with the general evaluator -> list of ints / Vec.const / None"""
    from ..interp import Interp, Frame
    from ..values import K, ListV, Fail, RaiseEx
    it = Interp(prog)
    fr = Frame(module)
    for k, v in (env or {}).items():
        if isinstance(v, list):
            fr.vars[k] = ListV([K(x) for x in v])
        elif isinstance(v, Vec) and v.is_const():
            fr.vars[k] = K(v.cval())
    try:
        r = it.ev(expr, fr)
    except (Fail, RaiseEx):
        return None
    if isinstance(r, K) and isinstance(r.v, int) and not isinstance(r.v, bool):
        return Vec.const(r.v) if r.v >= 0 else None
    if isinstance(r, K) and isinstance(r.v, (list, tuple)) and all(isinstance(x, int) for x in r.v):
        return list(r.v)
    if isinstance(r, ListV) and all(isinstance(x, K) and isinstance(x.v, int) for x in r.items):
        return [x.v for x in r.items]
    return None


def wrapper_branch(st, fname, data):
    """`if <type test on data>: return fname(<data or bytes(data)>, ...)` with no else"""
    if st.orelse or len(st.body) != 1 or not isinstance(st.body[0], ast.Return):
        return False
    call = st.body[0].value
    if not (isinstance(call, ast.Call) and isinstance(call.func, ast.Name) and call.func.id == fname and call.args):
        return False
    names = {n.id for n in ast.walk(st.test) if isinstance(n, ast.Name)}
    if not names <= {data, 'isinstance', 'type', 'bytes', 'bytearray', 'memoryview'}:
        return False
    a0 = call.args[0]
    same_data = (isinstance(a0, ast.Name) and a0.id == data) or \
        (isinstance(a0, ast.Call) and isinstance(a0.func, ast.Name) and a0.func.id in ('bytes', 'bytearray') and len(a0.args) == 1 and isinstance(a0.args[0], ast.Name) and a0.args[0].id == data)
    return same_data


def int_list(node):
    if isinstance(node, (ast.List, ast.Tuple)) and all(isinstance(e, ast.Constant) and isinstance(e.value, int) for e in node.elts):
        return [e.value for e in node.elts]
    return None


# ---------------------------------------------------------------- the length skeleton: positions as linear forms in q, len(data) = M*q + r
class Lin:
    """a*q + c*r + b for the path's symbolic q >= 0 and, when the modulus is too large to walk every residue, the symbolic residue 0 <= r < M"""
    __slots__ = ('a', 'b', 'c')

    def __init__(self, a, b, c=0):
        self.a, self.b, self.c = a, b, c

    def __add__(self, o):
        return Lin(self.a + o.a, self.b + o.b, self.c + o.c)

    def __sub__(self, o):
        return Lin(self.a - o.a, self.b - o.b, self.c - o.c)

    def __eq__(self, o):
        return isinstance(o, Lin) and (self.a, self.b, self.c) == (o.a, o.b, o.c)

    def __hash__(self):
        return hash((self.a, self.b, self.c))

    def is_const(self):
        return self.a == 0 and self.c == 0

    def scale(self, f):
        return Lin(self.a * f, self.b * f, self.c * f)


class Seg:
    """data[x:y] of the original input, 0 <= x <= y <= n on the path"""
    def __init__(self, x, y, lskip=None, rskip=None):
        self.x, self.y = x, y
        self.lskip, self.rskip = lskip, rskip      # byte values that may have been stripped from the left / right end (lstrip/rstrip/strip): the true bounds are unknown

    def fuzzy(self):
        return self.lskip is not None or self.rskip is not None


class Idx:
    """the index variable of `for i in range(x, y, k)` plus a constant"""
    def __init__(self, c):
        self.c = c


class Cursor:
    """iter(<input segment>): a position that advances as the iterator is consumed (one object, shared by every name bound to it)"""
    def __init__(self, seg):
        self.seg = seg


class InputError(Exception):
    """the analysed function raises on this path for a byte string"""


class HelperRaise(Exception):
    def __init__(self, st):
        self.st = st


class NeedModulus(Exception):
    def __init__(self, m):
        self.m = m


class PathEnd(Exception):
    pass


BYTE_TYPES = frozenset({'bytes', 'bytearray'})


class Path:
    """one path of the length skeleton: len(data) = M*q + r with q >= 0 symbolic; r is a concrete residue (every residue is walked) or,
    for a large modulus (r given as None), symbolic within [rlo, rhi]; comparisons the path does not decide fork it and refine the box"""
    def __init__(self, prefix, M, r):
        self.prefix, self.trail = list(prefix), []
        self.M, self.r = M, r
        self.qlo, self.qhi = 0, None
        self.rlo, self.rhi = (0, M - 1) if r is None else (r, r)
        self.dtypes = BYTE_TYPES
        self.events = []          # (kind, Seg, k, loop node)
        self.notes = []

    def decide(self):
        i = len(self.trail)
        v = self.prefix[i] if i < len(self.prefix) else True
        self.trail.append(v)
        return v

    def n(self):
        return Lin(self.M, self.r) if self.r is not None else Lin(self.M, 0, 1)

    def rbounds(self, l):
        xs = (l.c * self.rlo, l.c * self.rhi)
        return l.b + min(xs), l.b + max(xs)

    def ge0(self, l):
        """l >= 0 on this path (forks, refining the box of (q, r), when the path does not decide it)"""
        if l.a < 0:
            return not self.ge0(Lin(-l.a, -l.b - 1, -l.c))
        lo, hi = self.rbounds(l)
        if l.a == 0:
            if lo >= 0:
                return True
            if hi < 0:
                return False
            if l.c > 0:
                t = -(l.b // l.c)                # smallest r with c*r + b >= 0
                if self.decide():
                    self.rlo = max(self.rlo, t)
                    return True
                self.rhi = min(self.rhi, t - 1)
                return False
            t = l.b // (-l.c)                    # largest r with c*r + b >= 0
            if self.decide():
                self.rhi = min(self.rhi, t)
                return True
            self.rlo = max(self.rlo, t + 1)
            return False
        t_all = -(lo // l.a)                     # from this q on the form is >= 0 whatever r
        t_none = -(hi // l.a)                    # below this q it is < 0 whatever r
        if self.qlo >= t_all:
            return True
        if self.qhi is not None and self.qhi < t_none:
            return False
        if self.decide():
            self.qlo = max(self.qlo, t_all)
            if self.qhi is not None and self.qhi < self.qlo:
                raise PathEnd()
            return True
        self.qhi = t_all - 1 if self.qhi is None else min(self.qhi, t_all - 1)
        if self.qhi < self.qlo:
            raise PathEnd()
        if self.qhi < t_none:
            return False
        # t_none <= q < t_all: the answer depends on r; pin q to one value at a time (there are at most c*M/a + 1 of them)
        for _ in range(64):
            if self.qlo == self.qhi:
                return self.ge0(Lin(0, l.b + l.a * self.qlo, l.c))
            if self.decide():
                self.qhi = self.qlo
            else:
                self.qlo += 1
        raise AnalysisError('length skeleton: too many cases in one comparison')

    def is_zero(self, l):
        return self.ge0(l) and self.ge0(Lin(-l.a, -l.b, -l.c))

    def feasible(self):
        return (self.qhi is None or self.qlo <= self.qhi) and self.rlo <= self.rhi

    def show(self, l):
        if not isinstance(l, Lin):
            return str(l)
        if l.is_const():
            return str(l.b)
        nn = self.n()
        if (l.a, l.c) == (nn.a, nn.c):
            d = l.b - nn.b
            return 'n' + (f'{d:+d}' if d else '')
        return f'{l.a}q' + (f'{l.c:+d}r' if l.c else '') + (f'{l.b:+d}' if l.b else '')

    def cond(self):
        rng = f'q >= {self.qlo}' if self.qhi is None else f'{self.qlo} <= q <= {self.qhi}' if self.qlo != self.qhi else f'q = {self.qlo}'
        if self.r is None:
            n = f'len(data) = n = {self.M}q+r, {rng}, ' + (f'{self.rlo} <= r <= {self.rhi}' if self.rlo != self.rhi else f'r = {self.rlo}')
        else:
            n = (f'len(data) = n = {self.M}q+{self.r}, {rng}' if self.M > 1 else f'len(data) = n = q, {rng}')
        return n + (f', type {"/".join(sorted(self.dtypes))}' if self.dtypes != BYTE_TYPES else '')


STRUCT_FMT = {'<B': (1, 'little'), '>B': (1, 'big'), 'B': (1, 'little'), '<H': (2, 'little'), '>H': (2, 'big'), '!H': (2, 'big'),
              '<I': (4, 'little'), '>I': (4, 'big'), '!I': (4, 'big'), '<L': (4, 'little'), '>L': (4, 'big'),
              '<Q': (8, 'little'), '>Q': (8, 'big'), '!Q': (8, 'big')}


def bytes_vec(k, order, first=0):
    """the integer made of bytes first..first+k-1 of the current unit, as a Vec over b<8*i+j>"""
    bits = {}
    for i in range(k):
        pos = i if order == 'little' else k - 1 - i
        for j in range(8):
            bits[8 * pos + j] = frozenset([f'b{8 * (first + i) + j}'])
    return Vec(bits)


class PathEv(Aff):
    """the affine evaluator extended by the length skeleton (Lin / Seg / Idx) for one path"""
    def __init__(self, consts, path, ctx):
        super().__init__(consts)
        self.path, self.ctx = path, ctx

    # ---- conversions
    def lin(self, v):
        if isinstance(v, Lin):
            return v
        if isinstance(v, Vec) and v.is_const():
            return Lin(0, v.cval())
        raise AnalysisError('a data-dependent value is used as a length / position')

    def unlin(self, l):
        if isinstance(l, Lin) and l.is_const() and l.b >= 0:
            return Vec.const(l.b)
        return l

    def _block(self, l, m):
        """j with  j*m <= c*r + b < (j+1)*m  on the path (the residue box is split until one j fits)"""
        P = self.path
        if l.a % m:
            raise NeedModulus(m)
        for _ in range(64):
            lo, hi = P.rbounds(l)
            if lo // m == hi // m:
                return lo // m
            P.ge0(Lin(0, l.b - (lo // m + 1) * m, l.c))
        raise AnalysisError('length skeleton: a residue is divided into too many blocks (two unrelated block sizes)')

    def mod(self, l, m):
        j = self._block(l, m)
        return Lin(0, l.b - j * m, l.c)

    def div(self, l, m):
        j = self._block(l, m)
        return Lin(l.a // m, j)

    def ev(self, n):
        P = self.path
        if isinstance(n, ast.Call):
            f = n.func
            if isinstance(f, ast.Name) and f.id == 'len' and len(n.args) == 1:
                s = self.ev(n.args[0])
                if isinstance(s, Seg):
                    if s.fuzzy():
                        raise AnalysisError('len() of a stripped input (its length depends on the data)')
                    return s.y - s.x
                if isinstance(s, list):
                    return Vec.const(len(s))
                raise AnalysisError('len() of a non-sequence')
            if isinstance(f, ast.Name) and f.id in ('bytes', 'bytearray', 'memoryview') and len(n.args) == 1 and not n.keywords:
                s = self.ev(n.args[0])
                if isinstance(s, Seg):
                    return s
                raise AnalysisError(f'{f.id}() of a non-input value')
            if isinstance(f, ast.Name) and f.id == 'iter' and len(n.args) == 1 and not n.keywords:
                s = self.ev(n.args[0])
                if isinstance(s, Cursor):
                    return s
                if isinstance(s, Seg):
                    return Cursor(s)
                raise AnalysisError('iter() of a non-input value')
            if isinstance(f, ast.Name) and f.id == 'enumerate' and 1 <= len(n.args) <= 2:
                s = self.ev(n.args[0])
                if isinstance(s, (Seg, Cursor)):
                    return ('enum', s)
                raise AnalysisError('enumerate() of a non-input value')
            if isinstance(f, ast.Name) and f.id == 'zip' and n.args and not n.keywords:
                vs = [self.ev(a) for a in n.args]
                if all(isinstance(v, Cursor) for v in vs) and all(v is vs[0] for v in vs):
                    return ('zipcur', vs[0], len(vs))
                if all(isinstance(v, tuple) and v[0] == 'stride' for v in vs):
                    k = len(vs)
                    base = vs[0][1]
                    one = Lin(0, 1)
                    if all(v[2] == k and v[1].y == base.y and v[1].x == base.x + Lin(0, i) for i, v in enumerate(vs)):
                        return ('zipstride', base, k)
                raise AnalysisError('zip() of something other than one iterator repeated / the k interleaved strides of the input')
            if isinstance(f, ast.Attribute) and f.attr in ('lstrip', 'rstrip', 'strip') and not n.keywords and len(n.args) <= 1:
                s = self.ev(f.value)
                if isinstance(s, Seg):
                    chars = self.ev(n.args[0]) if n.args else ('bytes', b' \t\n\r\x0b\x0c')
                    if not (isinstance(chars, tuple) and chars[0] == 'bytes'):
                        raise AnalysisError('strip() with a non-constant argument')
                    cs = frozenset(chars[1])
                    return Seg(s.x, s.y, (s.lskip or frozenset()) | cs if f.attr != 'rstrip' else s.lskip,
                               (s.rskip or frozenset()) | cs if f.attr != 'lstrip' else s.rskip)
            if isinstance(f, ast.Attribute) and f.attr in ('cast', 'tobytes', 'toreadonly') and not n.keywords:
                s = self.ev(f.value)
                if isinstance(s, Seg) and (f.attr != 'cast' or (len(n.args) == 1 and isinstance(n.args[0], ast.Constant) and n.args[0].value in ('B', 'c', 'b') and n.args[0].value == 'B')):
                    return s
            if isinstance(f, ast.Name) and f.id in self.ctx.get('funcs', {}) and f.id not in self.ctx['helpers']:
                return self.ctx['call'](n)
            if isinstance(f, ast.Name) and f.id in ('min', 'max') and len(n.args) == 2:
                a, b = self.lin(self.ev(n.args[0])), self.lin(self.ev(n.args[1]))
                a_ge_b = P.ge0(a - b)
                return self.unlin((a if a_ge_b else b) if f.id == 'max' else (b if a_ge_b else a))
            if isinstance(f, ast.Attribute) and f.attr == 'from_bytes' and isinstance(f.value, ast.Name) and f.value.id == 'int':
                args = list(n.args) + [k.value for k in n.keywords if k.arg == 'byteorder']
                if any(k.arg == 'signed' and not (isinstance(k.value, ast.Constant) and not k.value.value) for k in n.keywords):
                    raise AnalysisError('signed from_bytes')
                chunk = self.ev(args[0])
                order = self.ev(args[1]) if len(args) > 1 else 'big'
                if isinstance(chunk, tuple) and chunk[0] == 'chunk' and order in ('little', 'big'):
                    return bytes_vec(chunk[2], order, chunk[1])
                raise AnalysisError('int.from_bytes of something other than a chunk of the current unit')
            if isinstance(f, ast.Name) and f.id in self.ctx['helpers']:
                return self.ev(self.ctx['inline'](n))
            raise AnalysisError(f'call {ast.unparse(n)[:50]} outside the affine sub-language')
        if isinstance(n, ast.BoolOp):
            for v_ in n.values[:-1]:
                t_ = self.truth(v_)
                if t_ == isinstance(n.op, ast.Or):
                    return self.ev(v_)
            return self.ev(n.values[-1])
        if isinstance(n, ast.UnaryOp) and isinstance(n.op, ast.USub):
            v = self.ev(n.operand)
            l = self.lin(v)
            return self.unlin(Lin(-l.a, -l.b, -l.c))
        if isinstance(n, ast.UnaryOp) and isinstance(n.op, ast.Invert):
            v = self.ev(n.operand)
            if isinstance(v, Vec) and v.is_const():
                return Lin(0, ~v.cval())
            raise AnalysisError('~ yields negative ints')
        if isinstance(n, ast.BinOp):
            a, b = self.ev(n.left), self.ev(n.right)
            if isinstance(a, Idx) or isinstance(b, Idx):
                if isinstance(n.op, ast.Add):
                    i, o = (a, b) if isinstance(a, Idx) else (b, a)
                    o = self.lin(o)
                    if o.is_const():
                        return Idx(i.c + o.b)
                if isinstance(n.op, ast.Sub) and isinstance(a, Idx):
                    o = self.lin(b)
                    if o.is_const():
                        return Idx(a.c - o.b)
                raise AnalysisError('arithmetic on the loop index other than + constant')
            if isinstance(a, Lin) or isinstance(b, Lin):
                la, lb = self.lin(a), self.lin(b)
                op = type(n.op)
                if op is ast.Add:
                    return self.unlin(la + lb)
                if op is ast.Sub:
                    return self.unlin(la - lb)
                if op is ast.Mult and (la.is_const() or lb.is_const()):
                    c, l = (la.b, lb) if la.is_const() else (lb.b, la)
                    return self.unlin(l.scale(c))
                if lb.is_const() and lb.b > 0:
                    m = lb.b
                    if op is ast.Mod:
                        return self.unlin(self.mod(la, m))
                    if op is ast.FloorDiv:
                        return self.unlin(self.div(la, m))
                    if op is ast.RShift:
                        return self.unlin(self.div(la, 1 << m))
                    if op is ast.LShift:
                        return self.unlin(la.scale(1 << m))
                    if op is ast.BitAnd and m & (m + 1) == 0:
                        return self.unlin(self.mod(la, m + 1))
                if op is ast.BitAnd and lb.is_const() and lb.b < 0 and (-lb.b) & (-lb.b - 1) == 0:
                    return self.unlin(la - self.mod(la, -lb.b))        # x & ~(2^k - 1)
                raise AnalysisError(f'operation {op.__name__} on a length is outside the skeleton language')
            return super().ev(n)
        if isinstance(n, ast.Subscript):
            t = self.ev(n.value)
            if isinstance(t, Seg):
                if t.fuzzy():
                    raise AnalysisError('indexing / slicing a stripped input (its bounds depend on the data)')
                if isinstance(n.slice, ast.Slice) and n.slice.step is not None:
                    stp = self.lin(self.ev(n.slice.step))
                    if not stp.is_const() or stp.b < 1:
                        raise AnalysisError('strided slice of the input with a non-constant or non-positive step')
                    if stp.b > 1:
                        lo = self.lin(self.ev(n.slice.lower)) if n.slice.lower is not None else Lin(0, 0)
                        if n.slice.upper is not None or not lo.is_const() or lo.b < 0:
                            raise AnalysisError('strided slice of the input other than data[c::k]')
                        return ('stride', Seg(t.x + lo, t.y), stp.b)
                if isinstance(n.slice, ast.Slice):
                    lo = self.ev(n.slice.lower) if n.slice.lower is not None else None
                    hi = self.ev(n.slice.upper) if n.slice.upper is not None else None
                    if isinstance(lo, Idx) or isinstance(hi, Idx):
                        if not (isinstance(lo, Idx) and isinstance(hi, Idx) and hi.c > lo.c):
                            raise AnalysisError('chunk bounds must both be loop index + constant')
                        self.ctx['unit_seg'].append(t)
                        return ('chunk', lo.c, hi.c - lo.c)
                    return self.slice(t, lo, hi)
                i = self.ev(n.slice)
                if isinstance(i, Idx):
                    self.ctx['unit_seg'].append(t)
                    if i.c < 0:
                        raise AnalysisError('negative offset from the loop index')
                    self.ctx['max_off'] = max(self.ctx.get('max_off', 0), i.c)
                    return Vec({j: frozenset([f'b{8 * i.c + j}']) for j in range(8)})
                # a single byte at a position that depends on the length only: data[0], data[-1], data[n - 1] ...
                l = self.lin(i)
                L = t.y - t.x
                if not P.ge0(l):
                    l = L + l
                    if not P.ge0(l):
                        raise InputError('IndexError (index before the start of the input)')
                elif P.ge0(l - L):
                    raise InputError('IndexError (index beyond the end of the input)')
                reads = self.ctx.setdefault('single', [])
                slots = self.ctx.setdefault('single_nodes', {})
                if id(n) not in slots:           # (an expression may be evaluated more than once: the read is recorded once per syntax node)
                    slots[id(n)] = len(reads)
                    reads.append(t.x + l)
                slot = slots[id(n)]
                return Vec({j: frozenset([f'b{8 * slot + j}']) for j in range(8)})
            if isinstance(t, tuple) and t[0] == 'chunk':
                raise AnalysisError('indexing a chunk')
            return super().ev(n)
        if isinstance(n, ast.Name) and n.id in self.env and isinstance(self.env[n.id], (Seg, Lin, Idx, tuple)):
            return self.env[n.id]
        if isinstance(n, ast.Constant) and isinstance(n.value, bytes):
            if not n.value:
                return Seg(Lin(0, 0), Lin(0, 0))        # folds nothing
            return ('bytes', n.value)
        if isinstance(n, ast.Constant) and (isinstance(n.value, bool) or n.value is None):
            return ('const', n.value)
        if isinstance(n, ast.Name) and n.id in self.env and isinstance(self.env[n.id], Cursor):
            return self.env[n.id]
        return super().ev(n)

    def slice(self, seg, lo, hi):
        P = self.path
        L = seg.y - seg.x

        def norm(v, default):
            if v is None:
                return default
            v = self.lin(v)
            if not P.ge0(v):                 # negative: counted from the end, clamped at 0
                v = L + v
                if not P.ge0(v):
                    v = Lin(0, 0)
            elif P.ge0(v - L):               # beyond the end: clamped
                v = L
            return v
        u, v = norm(lo, Lin(0, 0)), norm(hi, L)
        if not P.ge0(v - u):
            v = u
        return Seg(seg.x + u, seg.x + v)

    # ---- conditions
    def truth(self, n):
        P = self.path
        def is_type_of_input(x):
            return isinstance(x, ast.Call) and isinstance(x.func, ast.Name) and x.func.id == 'type' and len(x.args) == 1 \
                and isinstance(x.args[0], ast.Name) and isinstance(self.env.get(x.args[0].id), Seg)
        tt = None
        if isinstance(n, ast.Call) and isinstance(n.func, ast.Name) and n.func.id == 'isinstance' and len(n.args) == 2 \
                and isinstance(n.args[0], ast.Name) and isinstance(self.env.get(n.args[0].id), Seg):
            tt = (n.args[1], False)
        elif isinstance(n, ast.Compare) and len(n.ops) == 1 and is_type_of_input(n.left) and isinstance(n.ops[0], (ast.In, ast.NotIn, ast.Is, ast.IsNot, ast.Eq, ast.NotEq)):
            tt = (n.comparators[0], isinstance(n.ops[0], (ast.NotIn, ast.IsNot, ast.NotEq)))
        if tt is not None:
            # (the inputs of the property are byte strings: bytes or bytearray; a subclass test and an exact-type test split them the same way)
            t, negate = tt
            names = [e.id for e in (t.elts if isinstance(t, (ast.Tuple, ast.List, ast.Set)) else [t]) if isinstance(e, ast.Name)]
            tset = frozenset(names) & BYTE_TYPES
            if negate:
                tset = BYTE_TYPES - tset
            yes, no = P.dtypes & tset, P.dtypes - tset
            if not no:
                return True
            if not yes:
                return False
            if P.decide():
                P.dtypes = yes
                return True
            P.dtypes = no
            return False
        if isinstance(n, ast.UnaryOp) and isinstance(n.op, ast.Not):
            return not self.truth(n.operand)
        if isinstance(n, ast.BoolOp):
            if isinstance(n.op, ast.And):
                return all(self.truth(v) for v in n.values)
            return any(self.truth(v) for v in n.values)
        if isinstance(n, ast.Compare) and len(n.ops) == 1:
            a, b = self.lin(self.ev(n.left)), self.lin(self.ev(n.comparators[0]))
            op = type(n.ops[0])
            one = Lin(0, 1)
            if op is ast.GtE:
                return P.ge0(a - b)
            if op is ast.Gt:
                return P.ge0(a - b - one)
            if op is ast.LtE:
                return P.ge0(b - a)
            if op is ast.Lt:
                return P.ge0(b - a - one)
            if op in (ast.Eq, ast.NotEq):
                eq = P.ge0(a - b) and P.ge0(b - a)
                return eq if op is ast.Eq else not eq
            raise AnalysisError(f'comparison {op.__name__}')
        v = self.ev(n)
        if isinstance(v, tuple) and v and v[0] == 'const':
            return bool(v[1])
        if isinstance(v, tuple) and v and v[0] == 'bytes':
            return bool(v[1])
        if isinstance(v, Seg):
            if v.fuzzy():
                raise AnalysisError('truth value of a stripped input')
            return P.ge0(v.y - v.x - Lin(0, 1))
        l = self.lin(v)
        return not P.is_zero(l)


def compose_spec(specv, W, k):
    """the bitwise definition applied to bytes b0..b(k-1) in order, as a Vec over s*, b*"""
    cur = Vec.sym('s', W)
    for i in range(k):
        out = {}
        for bit, form in specv.items():
            acc = frozenset()
            for sym in form:
                if sym == ONE:
                    acc = acc ^ frozenset([ONE])
                elif sym[0] == 's':
                    acc = acc ^ cur.bits.get(int(sym[1:]), frozenset())
                else:
                    acc = acc ^ frozenset([f'b{8 * i + int(sym[1:])}'])
            if acc:
                out[bit] = acc
        cur = Vec(out)
    return cur


def spec_vec(spec):
    W, step = spec['w'], spec['step']
    specv = {}
    zero = step(0, 0)
    for k in range(W):
        f_ = set()
        if zero >> k & 1:
            f_.add(ONE)
        for i in range(W):
            if (step(1 << i, 0) ^ zero) >> k & 1:
                f_.add(f's{i}')
        for i in range(8):
            if (step(0, 1 << i) ^ zero) >> k & 1:
                f_.add(f'b{i}')
        if f_:
            specv[k] = frozenset(f_)
    pts = [(0x1234 & ((1 << W) - 1), 0x5A), ((1 << W) - 1, 0xFF), (0x8001, 0x01), (0xDEADBEEF & ((1 << W) - 1), 0x80)]
    ok = all(Vec(specv).eval({**{f's{i}': s >> i & 1 for i in range(W)}, **{f'b{i}': b >> i & 1 for i in range(8)}}) == step(s, b)
             for s, b in pts)
    if not ok:
        raise AnalysisError('oracle self-check failed')
    return specv


class FnCheck:
    """path-sensitive walk over one CRC function: which bytes are folded into the state, in which order, by which transition"""
    def __init__(self, run, prog, fname):
        self.run, self.prog, self.fname = run, prog, fname
        self.spec = SPEC[fname]
        self.W = self.spec['w']
        self.f = prog.func(fname, module='crypto.crc')
        self.fn = self.f.node
        self.where = prog.where(self.f)
        self.mod = prog.modules['crypto.crc']
        self.params = [a.arg for a in self.fn.args.args]
        if not self.params:
            raise AnalysisError(f'{fname} has no parameters')
        self.data = self.params[0]
        self.specv = spec_vec(self.spec)
        self.done = {}          # node id -> verdict already reported
        self.loop_no = {}
        self.sv = None
        self.main = None
        # single-expression helpers of the module are inlined
        self.helpers = {}
        for name, fobj in getattr(self.mod, 'funcs', {}).items():
            node = getattr(fobj, 'node', fobj)
            body = [s for s in node.body if not (isinstance(s, ast.Expr) and isinstance(s.value, ast.Constant))]
            if name != fname and len(body) == 1 and isinstance(body[0], ast.Return) and body[0].value is not None \
                    and not node.args.vararg and not node.args.kwarg and not node.args.kwonlyargs:
                self.helpers[name] = node
        self.funcs = {name: getattr(fobj, 'node', fobj) for name, fobj in getattr(self.mod, 'funcs', {}).items() if name != fname}
        self.call_depth = 0
        consts = {}
        for name, expr in self.mod.consts.items():
            il = int_list(expr)
            if il is not None:
                consts[name] = il
            elif isinstance(expr, ast.Constant) and isinstance(expr.value, int) and not isinstance(expr.value, bool):
                consts[name] = Vec.const(expr.value) if expr.value >= 0 else Lin(0, expr.value)
        for name, expr in self.mod.consts.items():
            if isinstance(expr, ast.Call) and isinstance(expr.func, ast.Attribute) and expr.func.attr == 'Struct' and isinstance(expr.func.value, ast.Name) \
                    and expr.func.value.id == 'struct' and len(expr.args) == 1 and isinstance(expr.args[0], ast.Constant) and isinstance(expr.args[0].value, str):
                consts[name] = ('struct', expr.args[0].value)
        for name, expr in self.mod.consts.items():
            if name not in consts and not isinstance(expr, (ast.Constant, ast.Lambda)):
                v = fold_const(prog, 'crypto.crc', expr)
                if v is not None:
                    consts[name] = v
        self.consts = consts
        self.struct_ok = any(isinstance(s, ast.Import) and any(a.name == 'struct' and a.asname in (None, 'struct') for a in s.names)
                             for s in self.mod.tree.body) if hasattr(self.mod, 'tree') else False

    def inline(self, call):
        node = self.helpers[call.func.id]
        ps = [a.arg for a in node.args.args]
        defaults = dict(zip(ps[len(ps) - len(node.args.defaults):], node.args.defaults))
        bind = {}
        for i, a in enumerate(call.args):
            bind[ps[i]] = a
        for k in call.keywords:
            bind[k.arg] = k.value
        for p_ in ps:
            if p_ not in bind:
                if p_ not in defaults:
                    raise AnalysisError(f'helper {call.func.id}: missing argument {p_}')
                bind[p_] = defaults[p_]

        class Sub(ast.NodeTransformer):
            def visit_Name(self, n):
                return bind[n.id] if n.id in bind else n
        import copy
        return Sub().visit(copy.deepcopy([s for s in node.body if isinstance(s, ast.Return)][0].value))

    # ---------------------------------------------------------------- normal form of the body
    def normalised(self):
        """the function body with (a) single-expression helpers inlined wherever a statement's expression calls them, (b) every
        functools.reduce(f, seq, init) hoisted into the loop it stands for:  acc = init; for b in seq: acc = f(acc, b)   (same fold, same order),
        (c) constant-count inner loops `for _ in range(K)` of assignments unrolled.  Purely syntactic, meaning-preserving rewrites."""
        if getattr(self, '_norm', None) is not None:
            return self._norm
        import copy
        counter = [0]

        def is_reduce(c):
            if not isinstance(c, ast.Call):
                return False
            f = c.func
            return isinstance(c, ast.Call) and ((isinstance(f, ast.Attribute) and f.attr == 'reduce' and isinstance(f.value, ast.Name) and f.value.id == 'functools')
                                                or (isinstance(f, ast.Name) and f.id == 'reduce')) and 2 <= len(c.args) <= 3 and not c.keywords

        def deep_inline(e):
            for _ in range(12):
                hit = [n for n in ast.walk(e) if isinstance(n, ast.Call) and isinstance(n.func, ast.Name) and n.func.id in self.helpers
                       and any(is_reduce(x) for x in ast.walk(self.helpers[n.func.id]))]
                if not hit:
                    return e
                tgt = hit[0]
                rep = self.inline(tgt)

                class R(ast.NodeTransformer):
                    def visit_Call(self_, n):
                        return rep if n is tgt else self_.generic_visit(n)
                e = R().visit(e) if e is not tgt else rep
            return e

        def hoist(e, pre):
            e = deep_inline(e)
            while True:
                red = next((n for n in ast.walk(e) if isinstance(n, ast.Call) and is_reduce(n)), None)
                if red is None:
                    return e
                if len(red.args) != 3:
                    raise AnalysisError(f'{self.fname}: functools.reduce without an initial value')
                fn_, seq, init = red.args
                if not (isinstance(fn_, ast.Name) and fn_.id in self.helpers and len(self.helpers[fn_.id].args.args) == 2):
                    raise AnalysisError(f'{self.fname}: functools.reduce with a step that is not a two-parameter single-expression helper')
                counter[0] += 1
                acc, b = f'__acc{counter[0]}', f'__b{counter[0]}'
                pre.append(ast.Assign(targets=[ast.Name(id=acc, ctx=ast.Store())], value=hoist(init, pre), lineno=getattr(red, 'lineno', 0)))
                loop = ast.For(target=ast.Name(id=b, ctx=ast.Store()), iter=seq,
                               body=[ast.Assign(targets=[ast.Name(id=acc, ctx=ast.Store())],
                                                value=ast.Call(func=ast.Name(id=fn_.id, ctx=ast.Load()), args=[ast.Name(id=acc, ctx=ast.Load()), ast.Name(id=b, ctx=ast.Load())], keywords=[]),
                                                lineno=getattr(red, 'lineno', 0))], orelse=[], lineno=getattr(red, 'lineno', 0))
                pre.append(loop)
                name = ast.Name(id=acc, ctx=ast.Load())

                class R(ast.NodeTransformer):
                    def visit_Call(self_, n):
                        return name if n is red else self_.generic_visit(n)
                e = name if e is red else R().visit(e)

        def as_value(x):
            """the value an Assign / AugAssign gives its (single Name) target"""
            if isinstance(x, ast.Assign) and len(x.targets) == 1 and isinstance(x.targets[0], ast.Name):
                return x.targets[0].id, x.value
            if isinstance(x, ast.AugAssign) and isinstance(x.target, ast.Name):
                return x.target.id, ast.BinOp(left=ast.Name(id=x.target.id, ctx=ast.Load()), op=x.op, right=x.value)
            return None

        def ifconv(body):
            """`if t: x = a  else: x = b`  ->  `x = a if t else b`   (no else: b = x);  the same meaning, one statement"""
            out = []
            for s_ in body:
                if isinstance(s_, ast.If) and len(s_.body) == 1 and len(s_.orelse) <= 1:
                    a = as_value(s_.body[0])
                    b = as_value(s_.orelse[0]) if s_.orelse else None
                    if a is not None and (not s_.orelse or (b is not None and b[0] == a[0])):
                        other = b[1] if b else ast.Name(id=a[0], ctx=ast.Load())
                        new_ = ast.Assign(targets=[ast.Name(id=a[0], ctx=ast.Store())], value=ast.IfExp(test=s_.test, body=a[1], orelse=other))
                        ast.copy_location(new_, s_)
                        ast.fix_missing_locations(new_)
                        out.append(new_)
                        continue
                if isinstance(s_, ast.For):
                    s_ = copy.copy(s_)
                    s_.body = unroll(ifconv(s_.body))
                out.append(s_)
            return out

        def unroll(body):
            out = []
            for s_ in body:
                if isinstance(s_, ast.For) and isinstance(s_.iter, ast.Call) and isinstance(s_.iter.func, ast.Name) and s_.iter.func.id == 'range' \
                        and len(s_.iter.args) == 1 and isinstance(s_.iter.args[0], ast.Constant) and isinstance(s_.iter.args[0].value, int) \
                        and 0 <= s_.iter.args[0].value <= 16 and not s_.orelse and isinstance(s_.target, ast.Name) \
                        and all(isinstance(x, (ast.Assign, ast.AugAssign)) for x in s_.body) \
                        and not any(isinstance(n, ast.Name) and n.id == s_.target.id for x in s_.body for n in ast.walk(x)):
                    out += [copy.deepcopy(x) for _ in range(s_.iter.args[0].value) for x in s_.body]
                else:
                    out.append(s_)
            return out

        def stmts(body):
            out = []
            for st in body:
                st = copy.copy(st)
                pre = []
                if isinstance(st, (ast.Assign, ast.AugAssign, ast.AnnAssign, ast.Return)) and st.value is not None:
                    st.value = hoist(copy.deepcopy(st.value), pre)
                elif isinstance(st, ast.If):
                    st.body, st.orelse = stmts(st.body), stmts(st.orelse)
                elif isinstance(st, (ast.For, ast.While)):
                    st.body = unroll(ifconv(st.body))
                out += pre + [st]
            return out
        self._norm = stmts(self.fn.body)
        for n in self._norm:
            ast.fix_missing_locations(n)
        return self._norm

    # ---------------------------------------------------------------- one path
    def run_path(self, P):
        ctx = dict(helpers=self.helpers, inline=self.inline, unit_seg=[], funcs=self.funcs, call=self.call_helper)
        E = PathEv(self.consts, P, ctx)
        E.fold = lambda expr: fold_const(self.prog, 'crypto.crc', expr, {k: v for k, v in E.env.items() if isinstance(v, (list, Vec))})
        E.env[self.data] = Seg(Lin(0, 0), P.n())
        defaults = dict(zip(self.params[len(self.params) - len(self.fn.args.defaults):], self.fn.args.defaults))
        for p_ in self.params[1:]:
            E.env[p_] = ('param', p_)
        self.E = E
        self.entered = False
        self.init_val = None
        try:
            out = self.block(self.normalised(), P)
        except PathEnd:
            return None
        except InputError as e:
            return ('raise', str(e))
        except HelperRaise as e:
            return ('raise', e.st)
        if out is None:
            out = ('fall', None)
        return out

    def assign(self, name, value_node):
        E = self.E
        il = int_list(value_node)
        if il is not None:
            E.env[name] = il
            return
        try:
            E.env[name] = E.ev(value_node)
        except AnalysisError:
            v = E.fold(value_node)
            if v is None:
                raise
            E.env[name] = v

    def call_helper(self, call):
        """a call of another function of the module: its body is walked like the analysed function's own (same path, own variables)"""
        E = self.E
        node = self.funcs[call.func.id]
        if node.args.vararg or node.args.kwarg or node.args.kwonlyargs or any(isinstance(x, (ast.Yield, ast.YieldFrom)) for x in ast.walk(node)):
            raise AnalysisError(f'call {ast.unparse(call)[:50]} outside the affine sub-language (generator / variadic helper)')
        if self.call_depth > 6:
            raise AnalysisError(f'{self.fname}: helper calls nested too deeply')
        ps = [a.arg for a in node.args.args]
        defaults = dict(zip(ps[len(ps) - len(node.args.defaults):], node.args.defaults))
        bind = {}
        for i, a in enumerate(call.args):
            if i >= len(ps) or isinstance(a, ast.Starred):
                raise AnalysisError(f'helper {call.func.id}: arguments')
            bind[ps[i]] = E.ev(a)
        for k in call.keywords:
            if k.arg not in ps:
                raise AnalysisError(f'helper {call.func.id}: keyword {k.arg}')
            bind[k.arg] = E.ev(k.value)
        saved = E.env
        E.env = dict(self.consts)
        try:
            for p_ in ps:
                if p_ not in bind:
                    if p_ not in defaults:
                        raise AnalysisError(f'helper {call.func.id}: missing argument {p_}')
                    bind[p_] = E.ev(defaults[p_])
            E.env.update(bind)
            self.call_depth += 1
            r = self.block(node.body, E.path)
            if r is None or (r[0] == 'return' and r[1].value is None):
                return ('const', None)
            if r[0] == 'raise':
                raise HelperRaise(r[1])
            return E.ev(r[1].value)
        finally:
            self.call_depth -= 1
            E.env = saved

    def fold_statement(self, st, target, value_node, P):
        """`crc = step(crc, data[<position>])` outside a loop: one unit folded at a position that depends on the length only"""
        E = self.E
        cur = E.env.get(target)
        if not isinstance(cur, Vec):
            return False
        if not any(isinstance(x, ast.Subscript) and isinstance(x.value, ast.Name) and isinstance(E.env.get(x.value.id), Seg)
                   and not isinstance(x.slice, ast.Slice) for x in ast.walk(value_node)):
            return False
        saved = dict(E.env)
        E.ctx['single'], E.ctx['single_nodes'] = [], {}
        E.env[target] = Vec.sym('s', self.W)
        new = E.ev(value_node)
        reads = E.ctx.pop('single', [])
        E.ctx.pop('single_nodes', None)
        E.env = saved
        if not reads or not isinstance(new, Vec):
            return False
        k = len(reads)
        for i in range(1, k):
            if not (reads[i] - reads[i - 1] == Lin(0, 1)):
                raise AnalysisError(f'{self.fname}: one statement folds non-consecutive bytes')
        if not self.entered:
            self.init_val = cur
            self.run.check(cur.is_const() and cur.cval() == self.spec['init'], 'O3', f'{self.fname}.init',
                           f'initial value {cur.cval() if cur.is_const() else "?"} (spec {self.spec["init"]:#x})', self.where)
        elif not (cur == Vec.sym('s', self.W)):
            self.run.check(False, 'O2', f'{self.fname}.step', f'the state is modified between two folds of the input ({P.cond()})', self.where)
        self.entered = True
        key = ('fold', st.lineno, getattr(st, 'col_offset', 0))
        if key not in self.done:
            self.done[key] = True
            tag = f'[single fold at line {st.lineno - self.fn.lineno + 1}]'
            self.run.check(new.width() <= self.W, 'O2b', f'{self.fname}.state-range{tag}', f'state stays within {self.W} bits (width {new.width()})', self.where)
            want = compose_spec(self.specv, self.W, k)
            same = new.bits == want.bits
            diff = sorted(b for b in set(new.bits) | set(want.bits) if new.bits.get(b) != want.bits.get(b))[:4]
            self.run.check(same, 'O2', f'{self.fname}.step{tag}', (f'transition of the {k}-byte fold equals {k} applications of the bitwise definition'
                           if same else f'transition differs from the bitwise definition in output bits {diff}'), self.where)
        E.env[target] = Vec.sym('s', self.W)
        P.events.append((Seg(reads[0], reads[-1] + Lin(0, 1)), k, st))
        return True

    def library_fold(self, st, target, value, P):
        """`crc = binascii.crc_hqx(<input segment>, <start>)`: the standard library's CRC-CCITT (polynomial 0x1021, MSB first, no final xor) folds the
        segment into the register it is started with - by its documented contract the same map as the bitwise CRC-16/XMODEM definition.
        binascii.crc32 / zlib.crc32 are CRC-32 (0xEDB88320), which is not the Castagnoli polynomial."""
        E = self.E
        if not (isinstance(value, ast.Call) and isinstance(value.func, ast.Attribute) and isinstance(value.func.value, ast.Name)
                and (value.func.value.id, value.func.attr) in (('binascii', 'crc_hqx'), ('binascii', 'crc32'), ('zlib', 'crc32')) and value.args):
            return False
        lib = f'{value.func.value.id}.{value.func.attr}'
        seg = E.ev(value.args[0])
        if not isinstance(seg, Seg) or seg.fuzzy():
            raise AnalysisError(f'{self.fname}: {lib} of something other than a segment of the input')
        if lib != 'binascii.crc_hqx' or self.fname != 'crc16':
            self.run.check(False, 'O2', f'{self.fname}.step', f'{lib} folds the input with a polynomial that is not the one of {"CRC-16/XMODEM" if self.fname == "crc16" else "CRC-32C (0x82F63B78)"}', self.where)
            raise PathEnd()
        if len(value.args) < 2:
            raise AnalysisError(f'{self.fname}: crc_hqx without a start value')
        start = E.ev(value.args[1])
        if not isinstance(start, Vec):
            raise AnalysisError(f'{self.fname}: crc_hqx start value')
        if not self.entered:
            self.init_val = start
            key = ('init', st.lineno)
            if key not in self.done:
                self.done[key] = True
                self.run.check(start.is_const() and start.cval() == self.spec['init'], 'O3', f'{self.fname}.init',
                               f'initial value {start.cval() if start.is_const() else "?"} (spec {self.spec["init"]:#x})', self.where)
        elif not (start == Vec.sym('s', self.W)):
            self.run.check(False, 'O2', f'{self.fname}.step', f'the register handed to {lib} is not the one left by the previous fold ({P.cond()})', self.where)
        key = ('lib', st.lineno)
        if key not in self.done:
            self.done[key] = True
            self.run.check(True, 'O2', f'{self.fname}.step[{lib}]', 'the segment is folded by binascii.crc_hqx: CRC-CCITT 0x1021, the bitwise definition by the library contract', self.where)
        self.entered = True
        self.sv = target
        E.env[target] = Vec.sym('s', self.W)
        P.events.append((seg, 1, st))
        return True

    def while_loop(self, st, P):
        """`while i < bound: ...; i += k`  ==  `for i in range(i0, bound, k)` with i left at the first value that fails the test"""
        E = self.E
        if st.orelse:
            raise AnalysisError(f'{self.fname}: while/else')
        incs = [x for x in st.body if isinstance(x, ast.AugAssign) and isinstance(x.op, ast.Add) and isinstance(x.target, ast.Name)
                and isinstance(E.env.get(x.target.id), (Lin, Vec)) and not isinstance(E.env.get(x.target.id), list)]
        cand = None
        for x in incs:
            try:
                step = E.lin(E.ev(x.value))
                start = E.lin(E.env[x.target.id])
            except AnalysisError:
                continue
            names_in_test = {n_.id for n_ in ast.walk(st.test) if isinstance(n_, ast.Name)}
            if step.is_const() and step.b > 0 and x.target.id in names_in_test and x is st.body[-1]:
                cand = (x, step.b, start)
        if cand is None:
            raise AnalysisError(f'{self.fname}: while loop that is not a counted loop (index += constant as its last statement)')
        inc, k, start = cand
        idx = inc.target.id
        if any(isinstance(n_, ast.Name) and n_.id == idx and isinstance(n_.ctx, ast.Store) for x in st.body[:-1] for n_ in ast.walk(x)):
            raise AnalysisError(f'{self.fname}: while loop index assigned inside the body')
        t = st.test
        if not (isinstance(t, ast.Compare) and len(t.ops) == 1):
            raise AnalysisError(f'{self.fname}: while condition')
        # the test as  idx + c  <op>  bound   with both sides linear in the length; evaluate with idx = 0 to get c
        saved = E.env[idx]
        E.env[idx] = Lin(0, 0)
        try:
            a0, b0 = E.lin(E.ev(t.left)), E.lin(E.ev(t.comparators[0]))
            E.env[idx] = Lin(0, 1)
            a1, b1 = E.lin(E.ev(t.left)), E.lin(E.ev(t.comparators[0]))
        finally:
            E.env[idx] = saved
        da, db = a1 - a0, b1 - b0
        op = type(t.ops[0])
        if da == Lin(0, 1) and db == Lin(0, 0) and op in (ast.Lt, ast.LtE):
            stop = b0 - a0 + (Lin(0, 1) if op is ast.LtE else Lin(0, 0))
        elif db == Lin(0, 1) and da == Lin(0, 0) and op in (ast.Gt, ast.GtE):
            stop = a0 - b0 + (Lin(0, 1) if op is ast.GtE else Lin(0, 0))
        else:
            raise AnalysisError(f'{self.fname}: while condition is not `index (+ c) < bound`')
        body = ast.For(target=ast.Name(id=idx, ctx=ast.Store()), iter=ast.Constant(value=None), body=st.body[:-1], orelse=[], lineno=st.lineno, col_offset=st.col_offset)
        ast.fix_missing_locations(body)
        self.loop(body, P, rng_override=(start, stop, k), key_node=st)
        d = stop - start
        if not P.ge0(d - Lin(0, 1)):
            E.env[idx] = E.unlin(start)
        else:
            E.env[idx] = E.unlin(stop + E.mod(Lin(0, 0) - d, k))

    def block(self, stmts, P):
        E = self.E
        for st in stmts:
            if isinstance(st, ast.Expr) and isinstance(st.value, ast.Constant):
                continue
            if isinstance(st, ast.Pass):
                continue
            if isinstance(st, ast.Assign) and len(st.targets) == 1 and isinstance(st.targets[0], ast.Name):
                if not self.library_fold(st, st.targets[0].id, st.value, P) and not self.fold_statement(st, st.targets[0].id, st.value, P):
                    self.assign(st.targets[0].id, st.value)
            elif isinstance(st, ast.AnnAssign) and isinstance(st.target, ast.Name) and st.value is not None:
                self.assign(st.target.id, st.value)
            elif isinstance(st, ast.AugAssign) and isinstance(st.target, ast.Name):
                full = ast.BinOp(left=ast.Name(id=st.target.id, ctx=ast.Load()), op=st.op, right=st.value)
                ast.copy_location(full, st)
                ast.fix_missing_locations(full)
                if not self.fold_statement(st, st.target.id, full, P):
                    E.env[st.target.id] = E.ev(full)
            elif isinstance(st, ast.While):
                self.while_loop(st, P)
            elif isinstance(st, ast.With) and all(isinstance(i_.context_expr, ast.Call) and isinstance(i_.context_expr.func, ast.Name)
                                                  and i_.context_expr.func.id == 'memoryview' for i_ in st.items):
                for i_ in st.items:
                    v_ = E.ev(i_.context_expr)
                    if i_.optional_vars is not None:
                        if not isinstance(i_.optional_vars, ast.Name):
                            raise AnalysisError(f'{self.fname}: with-target')
                        E.env[i_.optional_vars.id] = v_
                r = self.block(st.body, P)
                if r is not None:
                    return r
            elif isinstance(st, ast.Assign) and len(st.targets) == 1 and isinstance(st.targets[0], (ast.Tuple, ast.List)) \
                    and isinstance(st.value, (ast.Tuple, ast.List)) and len(st.value.elts) == len(st.targets[0].elts) \
                    and all(isinstance(e, ast.Name) for e in st.targets[0].elts):
                vals = [E.ev(e) if int_list(e) is None else int_list(e) for e in st.value.elts]
                for e, v_ in zip(st.targets[0].elts, vals):
                    E.env[e.id] = v_
            elif isinstance(st, ast.If):
                if wrapper_branch(st, self.fname, self.data):
                    self.wrapper(st)
                    # the branch is taken for non-bytes inputs only; the main path continues for the others
                    continue
                r = self.block(st.body if E.truth(st.test) else st.orelse, P)
                if r is not None:
                    return r
            elif isinstance(st, ast.For):
                self.loop(st, P)
            elif isinstance(st, ast.Return):
                return ('return', st)
            elif isinstance(st, ast.Raise):
                return ('raise', st)
            elif isinstance(st, ast.Assert):
                if not E.truth(st.test):
                    return ('raise', st)
            else:
                raise AnalysisError(f'{self.fname}: unsupported statement: {ast.unparse(st)[:60]}')
        return None

    def wrapper(self, st):
        if id(st) in self.done:
            return
        self.done[id(st)] = True
        call = st.body[0].value
        missing = []
        for i, pname in enumerate(self.params[1:], start=1):
            passed = call.args[i] if i < len(call.args) else next((k.value for k in call.keywords if k.arg == pname), None)
            if not (isinstance(passed, ast.Name) and passed.id == pname):
                missing.append(pname)
        self.run.check(not missing, 'O3b', f'{self.fname}.output' if missing else f'{self.fname}.wrapper-branch',
                       f'the branch `{ast.unparse(st.test)[:50]}` re-enters {self.fname} ' + (f'without forwarding {missing}: the result ignores the requested {", ".join(missing)}' if missing else 'forwarding every parameter'), self.where)

    # ---------------------------------------------------------------- loops
    def loop(self, st, P, rng_override=None, key_node=None):
        E = self.E
        fname = self.fname
        key_node = key_node or st
        if any(isinstance(s_, (ast.For, ast.While)) for s_ in st.body):
            return self.outer_loop(st, P, rng_override, key_node)
        if st.orelse or any(isinstance(x, (ast.Break, ast.Continue, ast.Return, ast.While, ast.For, ast.Try))
                            for s in st.body for x in ast.walk(s)):
            raise AnalysisError(f'{fname}: loop over the input with an early exit (data-dependent control flow is outside the affine sub-language)')
        it = st.iter
        k, order, seg, binder, rng = None, None, None, None, None
        binders, cursor, lost = None, None, Lin(0, 0)
        if rng_override is not None:
            x, y, k = rng_override
            rng = (x, y)
        elif isinstance(it, ast.Call) and isinstance(it.func, ast.Name) and it.func.id == 'range' and 1 <= len(it.args) <= 3 and not it.keywords:
            a = [E.lin(E.ev(x)) for x in it.args]
            x, y, stp = (Lin(0, 0), a[0], Lin(0, 1)) if len(a) == 1 else (a[0], a[1], Lin(0, 1)) if len(a) == 2 else (a[0], a[1], a[2])
            if not stp.is_const() or stp.b <= 0 or not isinstance(st.target, ast.Name):
                raise AnalysisError(f'{fname}: range loop with a non-constant or non-positive step')
            k, rng = stp.b, (x, y)
        elif isinstance(it, ast.Call) and isinstance(it.func, ast.Attribute) and it.func.attr == 'iter_unpack' \
                and isinstance(it.func.value, ast.Name) and ((it.func.value.id == 'struct' and self.struct_ok and len(it.args) == 2)
                                                             or (isinstance(E.env.get(it.func.value.id), tuple) and E.env[it.func.value.id][:1] == ('struct',) and len(it.args) == 1)):
            if it.func.value.id == 'struct' and len(it.args) == 2:
                fmt = it.args[0].value if isinstance(it.args[0], ast.Constant) else None
            else:
                fmt = E.env[it.func.value.id][1]
                it = ast.Call(func=it.func, args=[None, it.args[0]], keywords=[])
            if fmt not in STRUCT_FMT:
                raise AnalysisError(f'{fname}: struct format {fmt!r} not modelled')
            k, order = STRUCT_FMT[fmt]
            seg = E.ev(it.args[1])
            if not (isinstance(st.target, ast.Tuple) and len(st.target.elts) == 1 and isinstance(st.target.elts[0], ast.Name)):
                raise AnalysisError(f'{fname}: iter_unpack target must be a 1-tuple')
            binder = st.target.elts[0].id
        else:
            seg = E.ev(it)
            target = st.target
            if isinstance(seg, tuple) and seg and seg[0] == 'enum':
                if not (isinstance(target, ast.Tuple) and len(target.elts) == 2 and isinstance(target.elts[0], ast.Name)):
                    raise AnalysisError(f'{fname}: enumerate() target')
                E.env[target.elts[0].id] = ('loopcount',)
                seg, target = seg[1], target.elts[1]
            if isinstance(seg, Cursor):
                cursor, seg = seg, seg.seg
            if isinstance(seg, tuple) and seg and seg[0] in ('zipcur', 'zipstride'):
                kind, base, k = seg
                if kind == 'zipcur':
                    cursor, base = base, base.seg
                if base.fuzzy():
                    raise AnalysisError(f'{fname}: zip over a stripped input')
                if not (isinstance(target, ast.Tuple) and len(target.elts) == k and all(isinstance(e, ast.Name) for e in target.elts)):
                    raise AnalysisError(f'{fname}: zip() target must be {k} names')
                binders = [e.id for e in target.elts]
                L0 = base.y - base.x
                rem = E.mod(L0, k)
                seg = Seg(base.x, base.y - rem)
                lost = rem if kind == 'zipcur' else Lin(0, 0)     # zip() has already taken these items from the iterator when it stops
                order = 'little'
            else:
                if not isinstance(target, ast.Name):
                    raise AnalysisError(f'{fname}: loop target')
                k, order, binder = 1, 'little', target.id
        if rng is None and not isinstance(seg, Seg):
            if isinstance(seg, list):
                raise AnalysisError(f'{fname}: loop over a table inside the function body')
            raise AnalysisError(f'{fname}: loop over something that is not the input')
        # ---- state variable
        assigned = []

        def collect(body):
            for s in body:
                if isinstance(s, ast.If):
                    collect(s.body)
                    collect(s.orelse)
                    continue
                if isinstance(s, (ast.Raise, ast.Pass, ast.Assert)) or (isinstance(s, ast.Expr) and isinstance(s.value, ast.Constant)):
                    continue
                tg = s.targets[0] if isinstance(s, ast.Assign) and len(s.targets) == 1 else s.target if isinstance(s, ast.AugAssign) else None
                if not isinstance(tg, ast.Name):
                    raise AnalysisError(f'{fname}: unsupported loop statement {ast.unparse(s)[:60]}')
                if tg.id not in assigned:
                    assigned.append(tg.id)
        collect(st.body)
        state = [v for v in assigned if v in E.env and isinstance(E.env[v], Vec)]
        if len(state) != 1:
            raise AnalysisError(f'{fname}: expected one loop-carried state variable, found {state}')
        sv = state[0]
        self.sv = sv
        cur = E.env[sv]
        if not self.entered:
            self.init_val = cur
            if ('init', key_node.lineno) not in self.done:
                self.done[('init', key_node.lineno)] = True
                self.run.check(cur.is_const() and cur.cval() == self.spec['init'], 'O3', f'{fname}.init',
                               f'initial value {cur.cval() if cur.is_const() else "?"} (spec {self.spec["init"]:#x})', self.where)
        elif not (cur == Vec.sym('s', self.W)):
            self.run.check(False, 'O2', f'{fname}.step', f'the state is modified between two loops over the input ({P.cond()})', self.where)
        self.entered = True
        # ---- transition of one unit
        ctx = E.ctx
        ctx['unit_seg'] = []
        ctx['max_off'] = 0
        saved = dict(E.env)
        E.env[sv] = Vec.sym('s', self.W)
        if rng is not None:
            E.env[st.target.id] = Idx(0)
        elif binders is not None:
            for i_, b_ in enumerate(binders):
                E.env[b_] = bytes_vec(1, 'little', i_)
        else:
            E.env[binder] = bytes_vec(k, order)
        def run_body(body):
            for s in body:
                if isinstance(s, ast.Assign):
                    E.env[s.targets[0].id] = E.ev(s.value)
                elif isinstance(s, ast.AugAssign):
                    E.env[s.target.id] = E.ev(ast.BinOp(left=ast.Name(id=s.target.id, ctx=ast.Load()), op=s.op, right=s.value))
                elif isinstance(s, (ast.If, ast.Assert)):
                    # a test the value ranges decide (a byte is 0..255, the register has its width): dead checks a maintainer keeps for non-bytes input
                    t_ = E.range_truth(s.test)
                    if t_ is None:
                        raise AnalysisError(f'{fname}: data-dependent condition `{ast.unparse(s.test)[:50]}` in the loop over the input')
                    if isinstance(s, ast.Assert):
                        if not t_:
                            raise AnalysisError(f'{fname}: assertion fails for every byte')
                    else:
                        run_body(s.body if t_ else s.orelse)
                elif isinstance(s, ast.Raise):
                    raise AnalysisError(f'{fname}: the loop over the input raises for every byte')
        run_body(st.body)
        new = E.env[sv]
        tables_used = {n.id for s in st.body for n in ast.walk(s) if isinstance(n, ast.Name) and isinstance(saved.get(n.id), list)}
        E.env = saved
        if rng is not None:
            segs = ctx['unit_seg']
            if not segs or any(s_ is not segs[0] and (s_.x, s_.y) != (segs[0].x, segs[0].y) for s_ in segs):
                raise AnalysisError(f'{fname}: counted loop that does not read the input at the index')
            base = segs[0]
            x, y = rng
            L = base.y - base.x
            if not P.ge0(y - x - Lin(0, 1)):
                seg = Seg(base.x, base.x)       # no iteration
                count_ok = True
            else:
                if not P.ge0(x):
                    raise AnalysisError(f'{fname}: range starting at a negative index')
                d = y - x
                end = y + E.mod(Lin(0, 0) - d, k)
                # every read at offset c < k of the last unit must lie inside the sequence, else IndexError / short chunk
                if not P.ge0(L - end):
                    self.path_violation(P, 'O4', f'{fname}.loop', f'the counted loop reads past the end of the input: units of {k} bytes from {P.show(x)} to {P.show(y)} over {P.show(L)} bytes')
                    raise PathEnd()
                seg = Seg(base.x + x, base.x + end)
        else:
            L = seg.y - seg.x
            if k > 1:
                if not P.is_zero(E.mod(L, k)):
                    self.path_violation(P, 'O4', f'{fname}.loop', f'struct.iter_unpack over {P.show(L)} bytes, not a multiple of {k}: raises struct.error')
                    raise PathEnd()
        # ---- verdict on the transition (once per loop)
        key = ('loop', key_node.lineno, getattr(key_node, 'col_offset', 0))
        if key not in self.done:
            self.done[key] = True
            no = len([1 for q_ in self.done if isinstance(q_, tuple) and q_[0] == 'loop'])
            tag = '' if k == 1 and no == 1 else f'[unit of {k} bytes]' if k > 1 else f'[loop {no}]'
            if k == 1:
                self.main = dict(sv=sv, loop=st, new=new, W=self.W, spec=self.spec)
            for t in sorted(tables_used):
                T = E.env[t]
                nb = len(T).bit_length() - 1
                lin = len(T) >= 2 and len(T) == 1 << nb and T[0] == 0 and all(T[a] == _xor([T[1 << i] for i in range(nb) if a >> i & 1]) for a in range(len(T)))
                if k == 1 and len(T) == 256:
                    ok = T == self.spec['table']
                    bad = [i for i in range(min(len(T), 256)) if T[i] != self.spec['table'][i]][:3]
                    self.run.check(ok, 'O1', f'{fname}.table', f'{len(T)} entries equal the table generated from the polynomial'
                                   if ok else f'table `{t}` differs from the generated table at indices {bad} (len {len(T)})', self.where)
                self.run.check(lin, 'O1b', f'{fname}.table-linear{tag and "-" + t}', f'`{t}`: T[a^b] = T[a]^T[b] on all {len(T)} entries (premise of the affine lookup)', self.where)
                if not lin:
                    raise PathEnd()
            if not tables_used:
                self.run.info(f'{fname}: table-free loop')
            self.run.check(new.width() <= self.W, 'O2b', f'{fname}.state-range{tag}', f'state stays within {self.W} bits (width {new.width()})', self.where)
            want = compose_spec(self.specv, self.W, k)
            same = new.bits == want.bits
            diff = sorted(b for b in set(new.bits) | set(want.bits) if new.bits.get(b) != want.bits.get(b))[:4]
            self.run.check(same, 'O2', f'{fname}.step{tag}', (f'per-unit transition equals {k} applications of the bitwise definition as a {self.W}x{self.W + 8 * k} GF(2) matrix'
                           if same else f'transition differs from the bitwise definition in output bits {diff}'), self.where)
            self.run.evaluations += (self.W + 8 * k + 1) + 256
        E.env[sv] = Vec.sym('s', self.W)
        if cursor is not None:
            cursor.seg = Seg(seg.y + lost, cursor.seg.y, None, cursor.seg.rskip)
        P.events.append((seg, k, key_node))

    def outer_loop(self, st, P, rng_override, key_node):
        """a counted loop whose body contains loops (windows / blocks of the input): its iterations are walked as straight-line code -
        all of them when there are at most two, otherwise the first, a generic middle one (which must be the first one shifted by the step
        and leave the register in the same symbolic relation to the last fold) and the last"""
        E, fname = self.E, self.fname
        if st.orelse:
            raise AnalysisError(f'{fname}: for/else')
        if rng_override is not None:
            x, y, k = rng_override
        else:
            it = st.iter
            if not (isinstance(it, ast.Call) and isinstance(it.func, ast.Name) and it.func.id == 'range' and 1 <= len(it.args) <= 3 and not it.keywords
                    and isinstance(st.target, ast.Name)):
                raise AnalysisError(f'{fname}: nested loops whose outer loop is not a counted loop')
            a = [E.lin(E.ev(v)) for v in it.args]
            x, y, stp = (Lin(0, 0), a[0], Lin(0, 1)) if len(a) == 1 else (a[0], a[1], Lin(0, 1)) if len(a) == 2 else (a[0], a[1], a[2])
            if not stp.is_const() or stp.b <= 0:
                raise AnalysisError(f'{fname}: range loop with a non-constant or non-positive step')
            k = stp.b
        idx = st.target.id
        if any(isinstance(n_, ast.Name) and n_.id == idx and isinstance(n_.ctx, ast.Store) for s_ in st.body for n_ in ast.walk(s_)):
            raise AnalysisError(f'{fname}: loop index assigned inside the body')
        K_ = Lin(0, k)
        d = y - x

        def one(at):
            E.env[idx] = E.unlin(at)
            e0 = len(P.events)
            r = self.block(st.body, P)
            if r is not None:
                raise AnalysisError(f'{fname}: return / raise inside a loop over windows of the input')
            return P.events[e0:]
        if not P.ge0(d - Lin(0, 1)):
            return                                  # no iteration
        if P.ge0(K_ - d):
            one(x)                                  # exactly one
            return
        if P.ge0(K_ + K_ - d):
            one(x)
            one(x + K_)                             # exactly two
            return
        last = y + E.mod(Lin(0, 0) - d, k) - K_
        A = one(x)
        sv = self.sv
        after_a = E.env.get(sv) if sv else None
        B = one(x + K_)
        after_b = E.env.get(sv) if sv else None
        shifted = len(A) == len(B) and all((b_[0].x - a_[0].x) == K_ and (b_[0].y - a_[0].y) == K_ and a_[1] == b_[1] for a_, b_ in zip(A, B))
        if not shifted or not (isinstance(after_a, Vec) and after_a == after_b):
            raise AnalysisError(f'{fname}: the iterations of the loop over windows are not uniform (second iteration is not the first shifted by {k})')
        A_ne = [e for e in A if not (e[0].x == e[0].y)]
        if A_ne and all(A_ne[i][0].y == A_ne[i + 1][0].x for i in range(len(A_ne) - 1)) and (A_ne[-1][0].y - A_ne[0][0].x) == K_:
            # every middle iteration folds the k bytes after its predecessor's: iterations 3 .. last-1 cover this stretch
            lo, hi = B[-1][0].y if B else x + K_ + K_, last + (A_ne[0][0].x - x)
            if P.ge0(hi - lo - Lin(0, 1)):
                P.events.append((Seg(lo, hi), k, key_node))
        one(last)

    def path_violation(self, P, rule, construct, msg):
        key = (rule, construct, msg)
        if key in self.done:
            return
        self.done[key] = True
        self.run.check(False, rule, construct, f'{msg}  [{P.cond()}]', self.where)

    # ---------------------------------------------------------------- output
    def output(self, P, st):
        E, fname, spec = self.E, self.fname, self.spec
        r = st.value
        if isinstance(r, ast.Call) and isinstance(r.func, ast.Name) and r.func.id in self.helpers:
            r = self.inline(r)
        detail = ast.unparse(r)[:80]
        okc = False
        cur = E.env.get(self.sv) if self.sv else None
        if isinstance(r, ast.Call) and isinstance(r.func, ast.Attribute) and r.func.attr == 'to_bytes':
            val = E.ev(r.func.value)
            state = Vec.sym('s', self.W) if self.entered else Vec.const(spec['init'])
            want = state.xor(Vec.const(spec['xorout']))
            args = list(r.args)
            kws = {k.arg: k.value for k in r.keywords}
            length = args[0] if args else kws.get('length')
            order = args[1] if len(args) > 1 else kws.get('byteorder')
            signed = kws.get('signed')
            try:
                lv = E.ev(length) if length is not None else None
            except AnalysisError:
                lv = None
            len_ok = isinstance(lv, Vec) and lv.is_const() and lv.cval() == spec['nbytes']
            if fname == 'crc16':
                ord_ok = isinstance(order, ast.Constant) and order.value == 'big'
                if order is not None and not ord_ok:
                    try:
                        ord_ok = E.ev(order) == 'big'
                    except AnalysisError:
                        ord_ok = False
            else:
                try:
                    ov = E.ev(order) if order is not None else None
                except AnalysisError:
                    ov = None
                ord_ok = ov == ('param', self.params[1]) if len(self.params) > 1 else False
            sg_ok = signed is None or (isinstance(signed, ast.Constant) and not signed.value)
            okc = isinstance(val, Vec) and val == want and len_ok and ord_ok and sg_ok
            detail = f'value==state^{spec["xorout"]:#x}:{isinstance(val, Vec) and val == want} length:{len_ok} byteorder:{ord_ok} unsigned:{sg_ok}'
        key = ('out', id(st), self.entered)
        if key not in self.done or not okc:
            if okc:
                self.done[key] = True
                self.run.check(True, 'O3b', f'{fname}.output', detail, self.where)
            else:
                self.path_violation(P, 'O3b', f'{fname}.output', detail)

    def coverage(self, P):
        """the consumed segments are [0,p1), [p1,p2), ... [pk, n) in this order"""
        pos = Lin(0, 0)
        same = lambda a, b: a == b or (P.ge0(a - b) and P.ge0(b - a))
        folded_any = False
        for seg, k, st in P.events:
            if same(seg.x, seg.y):
                continue        # an empty segment folds nothing, wherever it is
            if seg.fuzzy() and same(seg.x, pos):
                step = self.spec['step']
                line = st.lineno - self.fn.lineno + 1
                if seg.lskip:
                    # leading bytes with these values are not folded: harmless only if such a byte leaves the register as it is at that point
                    if not folded_any and self.init_val is not None and self.init_val.is_const():
                        s0 = self.init_val.cval()
                        badc = [c for c in sorted(seg.lskip) if step(s0, c) != s0]
                        if badc:
                            self.path_violation(P, 'O4', f'{self.fname}.loop', f'leading bytes {bytes(badc[:1])!r} are stripped before the fold at line {line}, but a byte {badc[0]:#04x} moves the register from its initial value {s0:#x} to {step(s0, badc[0]):#x}: input {bytes(badc[:1])!r} + X has the checksum of X')
                            return False
                    else:
                        c = sorted(seg.lskip)[0]
                        self.path_violation(P, 'O4', f'{self.fname}.loop', f'bytes {bytes([c])!r} at position {P.show(pos)} are stripped before the fold at line {line} although the register is not at a fixed point there (state 1 -> {step(1, c):#x})')
                        return False
                if seg.rskip:
                    c = sorted(seg.rskip)[0]
                    self.path_violation(P, 'O4', f'{self.fname}.loop', f'trailing bytes {bytes([c])!r} are stripped before the fold at line {line}: X + {bytes([c])!r} gets the checksum of X (a byte {c:#04x} moves the register, e.g. 1 -> {step(1, c):#x})')
                    return False
            if not same(seg.x, pos):
                what = 'again' if not P.ge0(seg.x - pos) else 'after skipping'
                self.path_violation(P, 'O4', f'{self.fname}.loop',
                                    f'loop at line {st.lineno - self.fn.lineno + 1} of the function folds bytes [{P.show(seg.x)}, {P.show(seg.y)}) {what} [..{P.show(pos)}): not every byte exactly once, in order')
                return False
            pos = seg.y
            folded_any = True
        if not same(pos, P.n()):
            self.path_violation(P, 'O4', f'{self.fname}.loop', f'only bytes [0, {P.show(pos)}) of {P.show(P.n())} are folded into the checksum')
            return False
        return True


def check_fn(run, prog, fname):
    fc = FnCheck(run, prog, fname)
    # the modulus discovery pass must not emit verdicts twice: collect with a recording run first
    M = 1
    import math
    for attempt in range(8):
        rec = _Recorder(run)
        fc.run, fc.done, fc.sv, fc.main = rec, {}, None, None
        try:
            results = []
            for r in (range(M) if M <= 64 else [None]):
                stack = [[]]
                while stack:
                    prefix = stack.pop()
                    P = Path(prefix, M, r)
                    out = fc.run_path(P)
                    if out is not None and P.feasible():
                        kind, st = out
                        try:
                            if kind == 'return':
                                r_ = st.value
                                if isinstance(r_, ast.Call) and isinstance(r_.func, ast.Name) and r_.func.id in fc.helpers:
                                    r_ = fc.inline(r_)
                                if not (isinstance(r_, ast.Call) and isinstance(r_.func, ast.Attribute) and r_.func.attr == 'to_bytes'):
                                    raise AnalysisError(f'{fname}: the result is not produced by an int.to_bytes the analysis can see: `{ast.unparse(st.value)[:50] if st.value is not None else None}`')
                                fc.coverage(P)
                                fc.output(P, st)
                            elif kind == 'raise':
                                fc.path_violation(P, 'O4', f'{fname}.loop', f'raises `{st if isinstance(st, str) else ast.unparse(st)[:50]}` for a byte string')
                            else:
                                fc.path_violation(P, 'O3b', f'{fname}.output', 'falls off the end of the function (returns None)')
                            results.append((P, out))
                        except PathEnd:
                            pass
                    for i in range(len(prefix), len(P.trail)):
                        stack.append(P.trail[:i] + [not P.trail[i]])
                    if len(results) > 4000:
                        raise AnalysisError(f'{fname}: too many paths in the length skeleton')
            break
        except NeedModulus as e:
            M = M * e.m // math.gcd(M, e.m)
    else:
        raise AnalysisError(f'{fname}: length skeleton does not stabilise')
    rec.flush()
    npaths = len(results)
    good = not any(not c for c, *_ in rec.items if _[0] == 'O4')
    if good:
        run.check(True, 'O4', f'{fname}.loop', f'{npaths} path(s) of the length skeleton (n = {M}q+r): the loops fold [0,n) exactly once, in order, no early exit', fc.where)
    return fc.main


class _Recorder:
    """buffers verdicts of one exploration so that a restart with a finer modulus does not report twice"""
    def __init__(self, run):
        self.real, self.items, self.infos = run, [], []
        self.evaluations = 0

    def check(self, cond, rule, construct, detail='', where='', witness=None):
        self.items.append((cond, rule, construct, detail, where))

    def info(self, msg):
        if msg not in self.infos:
            self.infos.append(msg)

    def flush(self):
        seen = set()
        for cond, rule, construct, detail, where in self.items:
            if (cond, rule, construct, detail) in seen:
                continue
            seen.add((cond, rule, construct, detail))
            self.real.check(cond, rule, construct, detail, where)
        for m in self.infos:
            self.real.info(m)
        self.real.evaluations += self.evaluations


def _xor(xs):
    r = 0
    for x in xs:
        r ^= x
    return r


def _worker16(arg):
    lo, hi, const, cs, cb = arg
    # extracted affine map through per-byte column tables (exact: the map is affine)
    mhi = [_xor([cs[8 + i] for i in range(8) if a >> i & 1]) for a in range(256)]
    mlo = [_xor([cs[i] for i in range(8) if a >> i & 1]) for a in range(256)]
    mb = [_xor([cb[i] for i in range(8) if a >> i & 1]) for a in range(256)]
    bad = 0
    first = None
    for s in range(lo, hi):
        base = const ^ mhi[s >> 8] ^ mlo[s & 255]
        for b in range(256):
            c = s ^ (b << 8)
            for _ in range(8):
                c = ((c << 1) ^ 0x1021) & 0xFFFF if c & 0x8000 else (c << 1) & 0xFFFF
            if base ^ mb[b] != c:
                bad += 1
                if first is None:
                    first = (s, b)
    return bad, first


def exhaustive16(run, ctx, where):
    """thorough: the extracted transition map of crc16 against the bitwise definition on all 2^24 (state, byte) pairs"""
    import multiprocessing as mp
    new = ctx['new']
    env0 = {f's{i}': 0 for i in range(16)}
    env0.update({f'b{i}': 0 for i in range(8)})
    const = new.eval(env0)
    cs = [new.eval({**env0, f's{i}': 1}) ^ const for i in range(16)]
    cb = [new.eval({**env0, f'b{i}': 1}) ^ const for i in range(8)]
    jobs = [(lo, lo + 4096, const, cs, cb) for lo in range(0, 1 << 16, 4096)]
    with mp.Pool(min(16, mp.cpu_count())) as pool:
        res = pool.map(_worker16, jobs)
    bad = sum(r[0] for r in res)
    first = next((r[1] for r in res if r[1]), None)
    run.evaluations += 1 << 24
    run.check(bad == 0, 'O2x', 'crc16.exhaustive', f'{1 << 24} (state, byte) pairs: extracted transition == bitwise definition'
              if not bad else f'{bad} pairs differ, first {first}', where)


FALLBACK_LENGTHS = list(range(0, 41)) + [63, 64, 65, 127, 128, 129]


def bounded_fallback(run, prog, fname, reason):
    """the routine is written in a way the length-skeleton analysis cannot parse (`reason`): it is interpreted by the general interpreter on
    symbolic byte strings of fixed lengths, over the same GF(2)-affine domain; for each length the result - an affine map of all input bits -
    must equal the bitwise definition's.  Exact for every input of the enumerated lengths, not a proof for all lengths (rule O6)."""
    from ..interp import Interp
    from ..values import K, RaiseEx, Fail
    from .. import gf2
    spec = SPEC[fname]
    where = prog.where(prog.func(fname, module='crypto.crc'))
    run.rule('O6', 'routines outside the length-skeleton language: for every enumerated length the result, as a GF(2)-affine map of all input bits, equals the bitwise definition (bounded in length, exhaustive in content)', 1)
    run.info(f'{fname}: outside the length-skeleton language ({reason[:120]}); decided by O6 for all inputs of {len(FALLBACK_LENGTHS)} lengths up to {max(FALLBACK_LENGTHS)} bytes only')
    variants = [('bytes', {})] if fname == 'crc16' else [('bytes', {}), ('bytes', {'byteorder': K('big')}), ('bytes', {'byteorder': K('little')})]
    variants += [('bytearray', dict(v[1])) for v in variants[:1]]
    bad = 0
    for n in FALLBACK_LENGTHS:
        want = gf2.spec_fold(spec, n)
        for kind, kw in variants:
            if n > 40 and (kw or kind != 'bytes'):
                continue
            it = Interp(prog)
            it.builtin_hook = gf2.builtin_hook(it)
            it.ext_hook = gf2.ext_hook(it)
            it.NO_CRC_SUMMARY, it.FAST_CRC = True, False
            it.MAX_STEPS = 2_000_000
            order = kw.get('byteorder', K('big' if fname == 'crc16' else 'little')).v
            try:
                res = it.call(it.global_lookup(fname, 'crypto.crc'), [gf2.SymBytes(0, n, kind)], dict(kw))
            except RaiseEx as e:
                res = f'raises {e}'
            except Fail as e:
                raise AnalysisError(f'{fname}: {reason}; and the general interpreter cannot follow it on a symbolic {n}-byte input either: {e}')
            if isinstance(res, K) and isinstance(res.v, (bytes, bytearray)):
                res = gf2.GFBytes(Vec.const(int.from_bytes(res.v, order)), len(res.v), order)
            if not isinstance(res, (gf2.GFBytes, str, K)):
                # an opaque term: the routine left the affine domain through an operation the domain has no rule for - no verdict
                raise AnalysisError(f'{fname}: {reason}; and on a symbolic {n}-byte input its result is outside the affine domain: {str(res)[:120]}')
            ok = isinstance(res, gf2.GFBytes) and res.vec == want and res.nbytes == spec['nbytes'] and res.order == order
            run.evaluations += 1
            if ok:
                run.ok('O6', f'{fname}[{n} bytes,{kind}{",byteorder=" + order if kw else ""}]')
            else:
                bad += 1
                if bad <= 2:
                    if isinstance(res, gf2.GFBytes):
                        diff = sorted(b_ for b_ in set(res.vec.bits) | set(want.bits) if res.vec.bits.get(b_) != want.bits.get(b_))[:4]
                        why = f'result differs from the definition in output bits {diff}' if diff else f'{res.nbytes} bytes in {res.order} order (expected {spec["nbytes"]}, {order})'
                    else:
                        why = str(res)[:80]
                    run.check(False, 'O6', f'{fname}.result', f'{fname} on every {kind} input of {n} bytes{" (byteorder=" + order + ")" if kw else ""}: {why}', where)
    fallback_history(run, prog, fname, spec, where)


def fallback_history(run, prog, fname, spec, where):
    """O6h: a routine decided by O6 may keep its register in an object that outlives the call.  In ONE interpreter: a call on other data,
    a call that fails half way (a byte value outside 0..255 in the input; for crc32c also a byte order the conversion refuses), then a
    call on the symbolic bytes b0..: its result must be the definition's fold of exactly these bytes, from the initial value"""
    from ..interp import Interp
    from ..values import K, ListV, RaiseEx, Fail
    from .. import gf2
    run.rule('O6h', 'routines decided by O6: the result of a call does not depend on earlier calls, including calls that ended in an exception', 1)
    order = 'big' if fname == 'crc16' else 'little'
    befores = {'after a call on other bytes': [([gf2.SymBytes(40, 45, 'bytes')], {})],
               'after a call that fails on a value outside 0..255': [([ListV([K(7), K(300), K(1)])], {})]}
    if fname == 'crc32c':
        befores['after a call refused for its byte order'] = [([gf2.SymBytes(40, 43, 'bytes')], {'byteorder': K('BIG')})]
        befores['after two failing calls and a good one'] = [([gf2.SymBytes(40, 43, 'bytes')], {'byteorder': K('network')}), ([ListV([K(1), K(-1)])], {}),
                                                             ([gf2.SymBytes(50, 52, 'bytes')], {'byteorder': K('big')})]
    for name, calls in befores.items():
        it = Interp(prog)
        it.builtin_hook = gf2.builtin_hook(it)
        it.ext_hook = gf2.ext_hook(it)
        it.NO_CRC_SUMMARY, it.FAST_CRC = True, False
        it.MAX_STEPS = 2_000_000
        f = it.global_lookup(fname, 'crypto.crc')
        outcomes = []
        try:
            for args, kw in calls:
                try:
                    it.call(f, list(args), dict(kw))
                    outcomes.append('returned')
                except RaiseEx as e:
                    outcomes.append(f'raised {e.kind}')
            n = 4
            try:
                res = it.call(f, [gf2.SymBytes(0, n, 'bytes')], {})
            except RaiseEx as e:
                res = f'raises {e}'
        except Fail as e:
            raise AnalysisError(f'{fname}: history "{name}" cannot be followed: {e}')
        if isinstance(res, K) and isinstance(res.v, (bytes, bytearray)):
            res = gf2.GFBytes(Vec.const(int.from_bytes(res.v, order)), len(res.v), order)
        if not isinstance(res, (gf2.GFBytes, str, K)):
            raise AnalysisError(f'{fname}: history "{name}": result outside the affine domain: {str(res)[:120]}')
        want = gf2.spec_fold(spec, n)
        ok = isinstance(res, gf2.GFBytes) and res.vec == want and res.nbytes == spec['nbytes'] and res.order == order
        if ok:
            why = f'earlier calls {outcomes}; the call on b0..b{8 * n - 1} gives the definition\'s fold of these bytes'
        elif isinstance(res, gf2.GFBytes):
            foreign = sorted({s_ for form in res.vec.bits.values() for s_ in form if isinstance(s_, str) and s_.startswith('b') and int(s_[1:]) >= 8 * n})[:4]
            why = f'earlier calls {outcomes}; the result of the next call ' + (f'depends on input bits of an EARLIER call ({foreign})' if foreign else 'is not the fold of its own bytes from the initial value')
        else:
            why = f'earlier calls {outcomes}; the next call: {str(res)[:80]}'
        run.check(ok, 'O6h', f'{fname}[{name}]' if not ok else f'{fname}: {name}', f'{fname} {name}: {why}', where)
        run.evaluations += 1


def check_binding(run, prog):
    """O5: what callers get under the names crc16 / crc32c is the analysed function: a decorator or wrapper around it must hand back, for every
    call in every history, the analysed function's result for the same arguments (decided on symbolic inputs, with the analysed functions summarised)"""
    from ..interp import Interp
    from ..values import Sym, K, RaiseEx, Fail
    it = Interp(prog)
    it.INJECTIVE_KEYS = True
    mod = 'crypto.crc'
    where = 'pytoniq_core/crypto/crc.py'
    D = {n: Sym(f'D{n}', ty='bytes', n=n, key=('crcdata', n)) for n in (0, 2, 34, 64, 65, 100, 5000)}
    E = Sym('E34', ty='bytes', n=34, key=('crcdata', 'e'))
    hist = []
    for n in (34, 0, 2, 64, 65, 100, 5000):
        hist += [('crc16', D[n], {}), ('crc32c', D[n], {}), ('crc32c', D[n], {'byteorder': K('big')}), ('crc16', D[n], {}), ('crc32c', D[n], {}),
                 ('crc32c', D[n], {'byteorder': K('little')})]
    hist += [('crc16', E, {}), ('crc32c', E, {}), ('crc16', D[34], {}), ('crc32c', D[34], {'byteorder': K('big')})]
    for i, (fname, data, kw) in enumerate(hist):
        inner = prog.func(fname, module=mod)
        want = it.summary(inner, [data], dict(kw))
        tag = f'{fname}({data.name}{", byteorder=" + kw["byteorder"].v if kw else ""}) as call #{i + 1}'
        try:
            got = it.call(it.global_lookup(fname, mod), [data], dict(kw))
            ok = want is not None and repr(it.vkey(got)) == repr(it.vkey(want))
            detail = f'{tag}: returns {vrepr(got)[:70]}' + ('' if ok else f'; the analysed function gives {vrepr(want)[:70]} for these arguments')
        except RaiseEx as e:
            ok, detail = False, f'{tag}: raises {e}'
        except Fail as e:
            raise AnalysisError(f'{fname}: the wrapper around the analysed function cannot be followed: {e}')
        run.check(ok, 'O5', f'{fname}.binding' if not ok else f'{fname}.binding[{i}]', detail, where)
        run.evaluations += 1


def vrepr(v):
    from ..values import vrepr as _v
    return _v(v)


def check(run):
    prog = Program()
    run.explanation = ('GF(2)-affine abstract interpretation of crc16/crc32c: literal tables == tables generated from the '
                       'polynomials and GF(2)-linear; the per-byte transition, as a matrix over the state and byte bits, '
                       'equals the bitwise definition (hence for all 2^(W+8) pairs); initial value, output xor, width, byte '
                       'order and loop shape match; induction on the input length gives all byte strings.')
    run.rule('O1', 'literal lookup table == table generated from the polynomial (0x1021 MSB-first / 0x82F63B78 reflected)', 0)
    run.rule('O1b', 'lookup table is GF(2)-linear', 0)
    run.rule('O2', 'per-byte state transition == bitwise definition, as GF(2)-affine maps', 0)
    run.rule('O2b', 'state stays within its width (table index in range)', 0)
    run.rule('O3', 'initial value', 0)
    run.rule('O3b', 'output: final xor, result width, byte order / byteorder parameter reaches to_bytes', 0)
    run.rule('O4', 'loop visits every input byte in order without early exit', 0)
    run.rule('O5', 'the names crc16 / crc32c, as callers see them (decorators applied), return the analysed function\'s result for the same arguments in every call history (symbolic inputs of 0..5000 bytes, both functions interleaved)', 40)
    run.trust('CPython ast parser', "the checker's GF(2) bit-vector evaluator (xor/shift/mask/linear lookup)",
              'transcription of CRC-16/XMODEM and CRC-32C bitwise definitions in sa/rules/C18.py')
    run.exhaustive = True
    ctxs = {}
    for fname in ('crc16', 'crc32c'):
        try:
            ctxs[fname] = check_fn(run, prog, fname)
        except AnalysisError as e:
            ctxs[fname] = None
            bounded_fallback(run, prog, fname, str(e))
    # (the floors of O2..O4 are zero because a routine may be decided by O6 instead; a routine decided by neither ends in an analysis error above)
    check_binding(run, prog)
    if run.tier == 'thorough':
        if ctxs['crc16'] is not None:
            run.rule('O2x', 'CRC-16: exhaustive 2^24 cross-check of the oracle identity', 1)
            exhaustive16(run, ctxs['crc16'], 'pytoniq_core/crypto/crc.py')
