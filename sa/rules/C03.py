"""C03 - bag-of-cells serialisation round-trips for every DAG and option set, three encodings, three entry points.

Writer and reader are abstractly interpreted *together*: to_boc (every valid option set) on DAG fixtures, then
Cell/Slice/Builder.(one_)from_boc on the raw bytes, their hex string and their base64 string. The result must be a root
with the same hash term and the same structure. The invalid option set (cache bits without index) is excluded as the
format excludes it.
"""
import base64
import sys
from ..core import AnalysisError
from ..front import Program
from ..interp import Interp
from ..values import *
from .. import bocspec, bocrun
from .. import cellmodel as cm
from .C04 import OPTS, opt_name

MANIFEST = dict(
    technique='abstract interpretation of to_boc followed by the three from_boc entry points on DAG fixtures x 6 option sets x 3 input encodings; structural and hash-term comparison',
    text='Decides that parse(serialise(dag)) has identical hash and structure for every valid option combination, for raw/hex/base64 input and '
         'through the Cell, Slice and Builder entry points, on DAG fixtures covering sharing, duplicates, exotic cells and the header width '
         'boundaries. Fixtures are finite; the general-DAG claim rests on C04 (writer conforms) + C05 (reader accepts all conforming input).'
         ' A cell serialised inside one bag and then as the root of its own round-trips both times; a second parse of the same bytes hands out a fresh Slice / Builder / Cell, whatever the first caller did with its result. A 70 KB bag (three-byte offsets) is among the fixtures.',
    note='trusted: interpreter + models (base64, bytes.fromhex). Not decided: arbitrary DAGs beyond the fixtures.',
    design_ref='DESIGN.md section 4 C03')


def check(run):
    sys.setrecursionlimit(20000)
    prog = Program()
    w = prog.where(prog.method('Cell', 'to_boc'))
    wb = prog.where(prog.method('Boc', '__init__'))
    thorough = run.tier == 'thorough'
    run.explanation = 'writer and reader interpreted together on DAG fixtures x options x encodings x entry points; same hash term and structure required.'
    run.rule('D1', 'from_boc(to_boc(dag, options)) has the same hash and the same structure (data bits, cell types, references, recursively)', 60)
    run.rule('D2', 'raw bytes, hex string and base64 string of the same serialisation parse to the same result', 12)
    run.rule('D3', 'the Cell, Slice and Builder entry points all return the (content of the) root of the same parse', 10)
    run.trust('CPython ast', 'checker interpreter', 'models of base64 / bytes.fromhex')
    small_scope(run, prog, w, 5 if thorough else 3)
    dags = bocrun.dags(thorough)
    big = {'tree341', 'heap255', 'heap256', 'heap257', 'tree85', 'payload70k'}
    for name, roots in dags.items():
        opts = OPTS if (thorough or name not in big) else [OPTS[0]] if name not in ('heap256', 'payload70k') else [OPTS[3]]
        if not thorough and name in ('heap255', 'heap257', 'tree341'):
            continue
        for opt in opts:
            tag = f'{name}[{opt_name(opt)}]'
            it = Interp(prog)
            try:
                c = bocrun.build(it, roots[0])
                out = cm.call_method(it, c, 'to_boc', K(opt[0]), K(opt[1]), K(opt[2]))
                back = it.call(it.getattr(prog.cls('Cell'), 'one_from_boc'), [out], {})
            except RaiseEx as e:
                run.fail('D1', 'Cell.to_boc/Cell.one_from_boc', f'{tag}: raises {e}', w, witness=dict(dag=name, opt=opt))
                continue
            run.evaluations += 1
            same_hash = repr(cm.cached(it, back, '_hash')) == repr(cm.cached(it, c, '_hash')) if isinstance(back, Inst) else False
            same_struct = isinstance(back, Inst) and bocrun.ckey(it, back) == bocrun.ckey(it, c) == bocrun.skey(roots[0])
            good = same_hash and same_struct
            run.check(good, 'D1', 'Cell.to_boc/Cell.one_from_boc' if not good else tag, f'{tag}: same hash {same_hash}, same structure {same_struct}', w, witness=dict(dag=name, opt=opt))
    # ---- D2 / D3 on a few DAGs
    for name in ('diamond', 'merkle-proof', 'single-13bits', 'payload256'):
        roots = dags[name]
        for opt in (OPTS[0], OPTS[5]):
            it = Interp(prog)
            c = bocrun.build(it, roots[0])
            out = cm.call_method(it, c, 'to_boc', K(opt[0]), K(opt[1]), K(opt[2]))
            if not (isinstance(out, K) and isinstance(out.v, (bytes, bytearray))):
                raise AnalysisError('to_boc result not concrete')
            raw = bytes(out.v)
            want = bocrun.skey(roots[0])
            forms = {'bytes': K(raw), 'hex': K(raw.hex()), 'HEX': K(raw.hex().upper()), 'base64': K(base64.b64encode(raw).decode())}
            for fname, val in forms.items():
                try:
                    back = it.call(it.getattr(prog.cls('Cell'), 'one_from_boc'), [val], {})
                    ok = isinstance(back, Inst) and bocrun.ckey(it, back) == want
                    why = 'same result' if ok else 'different result'
                except RaiseEx as e:
                    ok, why = False, f'raises {e}'
                run.check(ok, 'D2', f'Boc.__init__[{fname}]' if not ok else f'{fname}:{name}[{opt_name(opt)}]', f'{fname} form of {name}: {why}', wb)
                run.evaluations += 1
            # entry points
            entries = {
                'Cell.one_from_boc': lambda v: it.call(it.getattr(prog.cls('Cell'), 'one_from_boc'), [v], {}),
                'Cell.from_boc[0]': lambda v: it.call(it.getattr(prog.cls('Cell'), 'from_boc'), [v], {}).items[0],
                'Slice.one_from_boc': lambda v: it.call(it.getattr(prog.cls('Slice'), 'one_from_boc'), [v], {}),
                'Builder.from_boc[0]': lambda v: it.call(it.getattr(prog.cls('Builder'), 'from_boc'), [v], {}).items[0],
                'Boc(data).deserialize()[0]': lambda v: cm.call_method(it, it.construct(prog.cls('Boc'), [v], {}), 'deserialize').items[0],
            }
            if not roots[0].exotic:
                entries['Builder.one_from_boc'] = lambda v: it.call(it.getattr(prog.cls('Builder'), 'one_from_boc'), [v], {})
            for ename, fn in entries.items():
                for fname in ('bytes', 'base64'):
                    try:
                        back = fn(forms[fname])
                        ok = bocrun.ckey(it, back) == want and isinstance(back, Inst) and back.cls.name == {'Slice.one_from_boc': 'Slice', 'Builder.one_from_boc': 'Builder'}.get(ename, 'Cell')
                        why = f'{back.cls.name if isinstance(back, Inst) else "?"} with ' + ('the root content' if ok else 'different content')
                    except RaiseEx as e:
                        ok, why = False, f'raises {e}'
                    run.check(ok, 'D3', ename if not ok else f'{ename}:{fname}:{name}[{opt_name(opt)}]', f'{ename} on {fname}: {why}', wb)
                    run.evaluations += 1
    # a cell serialised as part of one bag and then as the root of its own: each bag round-trips (what was computed for the first is not reused
    # with indexes that belong to it)
    for name in ('diamond', 'chain3', 'shared-later'):
        for opt in (OPTS[0], OPTS[5]):
            it = Interp(prog)
            c = bocrun.build(it, dags[name][0])
            cm.call_method(it, c, 'to_boc', K(opt[0]), K(opt[1]), K(opt[2]))
            for depth_, sub in enumerate(walk_first(it, c)):
                if depth_ == 0:
                    continue
                tag = f'{name}[{opt_name(opt)}] then its sub-cell at depth {depth_}'
                try:
                    out2 = cm.call_method(it, sub, 'to_boc', K(opt[0]), K(opt[1]), K(opt[2]))
                    back = it.call(it.getattr(prog.cls('Cell'), 'one_from_boc'), [out2], {})
                    ok = isinstance(back, Inst) and bocrun.ckey(it, back) == bocrun.ckey(it, sub) and repr(cm.cached(it, back, '_hash')) == repr(cm.cached(it, sub, '_hash'))
                    why = 'round-trips' if ok else 'parses to a different cell'
                except RaiseEx as e:
                    ok, why = False, f'raises {e}'
                run.check(ok, 'D1', 'Cell.to_boc/Cell.one_from_boc[cells serialised before in another bag]' if not ok else tag, f'{tag}: {why}', w)
                run.evaluations += 1
    # every parse hands out a fresh object: what an earlier caller did with the slice / builder it got does not show in a later parse of the same bytes
    for name in ('diamond', 'single-13bits'):
        roots = dags[name]
        it = Interp(prog)
        c = bocrun.build(it, roots[0])
        raw = cm.call_method(it, c, 'to_boc', K(False), K(False), K(False))
        want = bocrun.skey(roots[0])
        for ename, use in (('Slice.one_from_boc', lambda o: cm.call_method(it, o, 'load_bits', K(3))),
                           ('Builder.one_from_boc', lambda o: cm.call_method(it, o, 'store_uint', K(5), K(3))),
                           ('Cell.one_from_boc', lambda o: cm.call_method(it, cm.call_method(it, o, 'begin_parse'), 'load_bits', K(3)))):
            if ename.startswith('Builder') and roots[0].exotic:
                continue
            try:
                cls_ = prog.cls(ename.split('.')[0])
                first = it.call(it.getattr(cls_, 'one_from_boc'), [raw], {})
                use(first)
                second = it.call(it.getattr(cls_, 'one_from_boc'), [K(bytes(raw.v))], {})
                ok = bocrun.ckey(it, second) == want and second is not first
                why = 'a fresh object with the whole content' if ok else ('the object handed out before (already used by its first caller)' if second is first else 'different content')
            except RaiseEx as e:
                ok, why = False, f'raises {e}'
            run.check(ok, 'D3', f'{ename}[second parse of the same bytes]' if not ok else f'{ename}:again:{name}', f'{ename} twice on the same bytes, the first result used in between: the second call returns {why}', wb)
            run.evaluations += 1
    # garbage in unknown form is rejected
    it = Interp(prog)
    try:
        it.call(it.getattr(prog.cls('Cell'), 'one_from_boc'), [K('not a boc !!')], {})
        run.fail('D2', 'Boc.__init__[garbage]', 'a string that is neither hex nor base64 is accepted', wb)
    except RaiseEx:
        run.ok('D2', 'garbage rejected')


def walk_first(it, c):
    """the cell and its descendants along the last references"""
    out = [c]
    while True:
        refs = it.getattr(out[-1], 'refs').items
        if not refs or len(out) > 8:
            return out
        out.append(refs[-1])


def small_scope(run, prog, where, max_n):
    """small-scope exhaustive family (quick: <= 3 cells; thorough: up to 5): every DAG shape with <= 3 cells (<= 4 references each), 4 cells (<= 3) and 5 cells (<= 2), two content modes"""
    from .. import smallscope
    n, res = smallscope.run_family(prog, 'roundtrip', max_n)
    run.count('small_scope_dags', n)
    bad = [r for r in res if r[2] != 'ok']
    if any(r[2] == 'undecided' for r in res):
        raise AnalysisError(f'small-scope family: {[r for r in res if r[2] == "undecided"][0]}')
    run.evaluations += len(res)
    for tag, opt, st, detail in res:
        if st == 'ok':
            run.ok('D1', f'small:{tag}{list(opt)}')
    for tag, opt, st, detail in bad[:3]:
        run.fail('D1', 'Cell.to_boc/Cell.one_from_boc[small-scope DAG]', f'{tag} with options {opt}: {detail}  ({len(bad)} of {len(res)} small-scope cases fail)', where, witness=dict(dag=tag, opt=[str(o) for o in opt]))
