"""Helpers shared by the cell / builder / slice rules: abstract inputs for the interpreter and the specification side
(tvm.pdf 3.1.4-3.1.7, DataCell.cpp) transcribed independently of the code under analysis."""
from .values import *
from .interp import Interp, Oracle
from .front import FuncRef
from . import models


def data_bits(n, name='data'):
    """n unknown data bits"""
    return BA([Seg(n, '?', Sym(name, ty='bits', n=n, key=('databits', name, n)))] if n else [])


def tvm_bits(it, ba):
    """wrap a BA in an instance of the package's TvmBitarray (without running its __new__)"""
    cls = it.prog.cls('TvmBitarray')
    inst = Inst(cls, native=ba)
    inst.attrs['_size'] = K(1023)
    return inst


def plain_bits(ba):
    return ba


def cached(it, c, name):
    """what a cell caches under `_hashes` / `_depths` / `_hash` (the state the property names), however the class stores it: a plain attribute, or a
    property derived from another representation (per-level records ...) - read through the interpreter's attribute lookup"""
    if not isinstance(c, Inst):
        from .core import AnalysisError
        raise AnalysisError(f'fixture: {vrepr(c)[:40]} is not a cell')
    if name in c.attrs:
        return c.attrs[name]
    it = it or _LAST_IT[0]
    try:
        v = it.getattr(c, name)
    except (Fail, RaiseEx) as e:
        from .core import AnalysisError
        raise AnalysisError(f'anchor lost: Cell.{name} (per-level hashes and depths cached at construction) cannot be read: {e}')
    if name in ('_hashes', '_depths') and not isinstance(v, ListV):
        items = it.iterate(v)
        if items is None:
            from .core import AnalysisError
            raise AnalysisError(f'anchor lost: Cell.{name} is {vrepr(v)[:40]}, not a sequence')
        v = ListV(list(items))
    return v


_LAST_IT = [None]


def new_cell(it, bits, refs, type_=-1):
    """interpret the real constructor Cell(bits, refs, type_)"""
    _LAST_IT[0] = it
    return it.construct(it.prog.cls('Cell'), [bits, ListV(list(refs)), K(type_)], {})


def shadow_lookups(it, c):
    """a forged cell answers get_hash / get_depth / hash from the forged per-level values themselves (index = number of significant levels below
    the asked one), whatever representation the class's own methods read - so the fixture does not depend on it"""
    def mask_of():
        lm = c.attrs.get('level_mask')
        m = it.getattr(lm, 'mask') if isinstance(lm, Inst) else None
        if m is None or not (isinstance(m, K) and isinstance(m.v, int)):
            try:
                m = it.getattr(lm, '_m')
            except (Fail, RaiseEx):
                m = K(0)
        return m.v if isinstance(m, K) and isinstance(m.v, int) else 0

    def pick(which):
        def f(it_, args, kw, node):
            lvl = args[0] if args else kw.get('lvl_mask', kw.get('level', K(3)))
            if not (isinstance(lvl, K) and isinstance(lvl.v, int)):
                raise Fail('forged cell asked for a symbolic level')
            idx = bin(mask_of() & ((1 << lvl.v) - 1)).count('1')
            items = c.attrs[which].items
            return items[min(idx, len(items) - 1)]
        return Native(f, f'forged.{which}')
    for nm in ('_hashes', '_depths'):
        if nm not in c.attrs:
            c.attrs[nm] = cached(it, c, nm)
    c.attrs['get_hash'] = pick('_hashes')
    c.attrs['get_depth'] = pick('_depths')
    c.attrs['hash'] = c.attrs['_hashes'].items[-1]


def leaf(it, n=0, name='leaf'):
    return new_cell(it, tvm_bits(it, data_bits(n, name)), [])


def forge_ordinary_child(it, i, depth=None, hash_=None):
    """an ordinary level-0 cell built by the real constructor, then given an opaque hash and a chosen depth"""
    c = leaf(it, 0, f'child{i}')
    h = hash_ if hash_ is not None else Sym(f'H{i}', ty='bytes', n=32, key=('childhash', i))
    c.attrs['_hashes'] = ListV([h])
    c.attrs['_hash'] = h
    d = depth if depth is not None else atom(f'd{i}')
    c.attrs['_depths'] = ListV([d if not isinstance(d, int) else K(d)])
    reforge(it, c)
    shadow_lookups(it, c)
    return c


def require_forgeable(it, cls):
    """the fixtures forge cells whose hashes and depths are free symbols by writing the instance fields `_hashes` / `_depths` the class
    itself keeps; where the class keeps them some other way (a class-level property of that name, no instance field) a forged cell is not
    a cell of that class, and anything derived from it would be a statement about the fixture, not the code: analysis error, no verdict"""
    import ast as _ast
    from .core import AnalysisError
    done = getattr(it.prog, '_forgeable', None)
    if done is None:
        fields, classlevel = set(), set()
        for c in it.prog.mro(cls):
            for nm, fn in c.methods.items():
                if nm in ('_hashes', '_depths', '_hash'):
                    classlevel.add(nm)
                for x in _ast.walk(fn):
                    if isinstance(x, _ast.Attribute) and isinstance(x.value, _ast.Name) and x.value.id == 'self' \
                            and isinstance(x.ctx, _ast.Store):
                        fields.add(x.attr)
        missing = sorted({'_hashes', '_depths'} - fields) + sorted(classlevel)
        _o, ch = it.prog.find_method(cls, 'calculate_hashes')
        if ch is not None:
            # state the hash computation itself writes (assigns, or mutates through a method call on the field)
            for x in _ast.walk(ch):
                tgt = None
                if isinstance(x, _ast.Attribute) and isinstance(x.ctx, _ast.Store):
                    tgt = x
                elif isinstance(x, _ast.Call) and isinstance(x.func, _ast.Attribute) and x.func.attr in (
                        'append', 'extend', 'insert', 'update', 'setdefault', 'add') and isinstance(x.func.value, _ast.Attribute):
                    tgt = x.func.value
                elif isinstance(x, _ast.Subscript) and isinstance(x.ctx, _ast.Store) and isinstance(x.value, _ast.Attribute):
                    tgt = x.value
                if tgt is not None and isinstance(tgt.value, _ast.Name) and tgt.value.id == 'self' \
                        and tgt.attr not in ('_hashes', '_depths'):
                    missing.append(tgt.attr)
        missing = sorted(set(missing))
        done = it.prog._forgeable = (not missing, missing)
    if not done[0]:
        raise AnalysisError('the cell class does not keep its per-level hashes and depths in the instance fields _hashes / _depths '
                            f'(not plain instance fields: {", ".join(done[1])}); the cell fixtures cannot forge cells for this '
                            'representation')


def reforge(it, c):
    """after a fixture has replaced the hashes / depths / level mask a constructor-built cell caches, the statements of Cell.__init__ that
    follow the hash computation are executed again on it, so that whatever else the constructor derives from them (descriptor bytes, the
    top hash, per-level tables a maintainer may add) is consistent with the forged values - the fixture does not depend on how the class
    caches what it derives"""
    import ast as _ast
    from .interp import Frame
    cls = it.prog.cls('Cell')
    require_forgeable(it, cls)
    owner, fn = it.prog.find_method(cls, '__init__')
    if fn is None:
        return c

    def touches(st):
        for x in _ast.walk(st):
            if isinstance(x, _ast.Attribute) and isinstance(x.value, _ast.Name) and x.value.id == 'self':
                if x.attr == 'calculate_hashes' or (x.attr in ('_hashes', '_depths') and isinstance(x.ctx, _ast.Store)):
                    return True
        return False
    idx = max([i for i, st in enumerate(fn.body) if touches(st)], default=None)
    if idx is None:
        return c
    fr = Frame(owner.module, None, FuncRef(fn, owner.module, owner), owner)
    names = [a.arg for a in fn.args.args]
    fr.vars[names[0]] = c
    guess = {'bits': 'bits', 'refs': 'refs', 'cell_type': 'type_', 'type_': 'type_'}
    for nm in names[1:]:
        if guess.get(nm) in c.attrs:
            fr.vars[nm] = c.attrs[guess[nm]]
    try:
        for st in fn.body[idx + 1:]:
            it.stmt(st, fr)
    except (Fail, ReturnEx):
        pass
    return c


def field(it, inst, name, default=None):
    """a public field of a package object as a caller reads it: the instance attribute, or what a property of that name returns"""
    if not isinstance(inst, Inst):
        return default
    if name in inst.attrs:
        return inst.attrs[name]
    try:
        return it.getattr(inst, name)
    except (RaiseEx, Fail):
        return default


def call_method(it, obj, name, *args, **kw):
    return it.call(it.getattr(obj, name), list(args), dict(kw))


# ---------------------------------------------------------------- specification side
def spec_d1(r, exotic, mask):
    return r + 8 * (1 if exotic else 0) + 32 * mask


def spec_d2(b):
    return b // 8 + (b + 7) // 8


def spec_padding(b):
    """bits appended to b data bits before hashing / serialisation"""
    return '' if b % 8 == 0 else '1' + '0' * (7 - b % 8)


def flatten_bytes(parts):
    """list of abstract byte-string pieces -> list of ('k', int byte) / ('t', term)"""
    out = []
    for p in parts:
        if isinstance(p, K) and isinstance(p.v, (bytes, bytearray)):
            out += [('k', x) for x in p.v]
        elif isinstance(p, Term) and p.op == 'cat':
            out += flatten_bytes(list(p.a))
        elif type(p).__name__ == 'Rope':
            out += flatten_bytes([v for v, _ in p.parts])       # one buffer assembled from the same pieces
        else:
            out.append(('t', p))
    return out


def data_term_ok(t, b, name=None):
    """is `t` the byte string of b unknown data bits followed by the completion tag?"""
    if b == 0:
        return False
    if not (isinstance(t, Term) and t.op == 'tobytes'):
        return False
    ba = t.a[2].ba
    want = '?' * b + spec_padding(b)
    if ba.pattern() != want:
        return False
    # the unknown part must be the cell's own data, in order, unsliced
    segs = [s for s in ba.segs if s.kind != 'k']
    return len(segs) == 1 and segs[0].n == b
