"""C10 - dictionaries use the canonical TON Hashmap encoding; the parsers accept every valid tree.

D1  the label-kind decision (detect_label_type with its helpers) is abstractly interpreted as a function of
    (label length n, remaining key length m, all-bits-equal) and compared with the reference decision of TON's
    append_dict_label on the admissible domain (quick: every bit-length boundary of m x boundary band of n; thorough: all
    1 047 553 points, 16 processes).
D2  label writers vs HmLabel layouts, and the label reader on all three kinds whatever the writer would choose.
D3  whole dictionaries: serialize_dict output == the canonical Patricia tree built by the checker's own encoder
    (sa/dictspec.py) for every key set of widths 1..3 (thorough: 4) and structured larger sets.
D4  parsers (plain and augmented) on every valid encoding of those trees - all label-kind choices, pruned sub-trees.
"""
import ast
import itertools
import multiprocessing as mp
import sys
from ..core import AnalysisError, PKG
from ..front import Program, FuncRef
from ..interp import Interp
from ..values import *
from .. import dictspec, bocrun
from .. import cellmodel as cm

MANIFEST = dict(
    technique='abstract interpretation of detect_label_type / write_label / deserialize_hml / serialize_dict / parse_hashmap(_aug) compared with an independent canonical Hashmap encoder; label decision exhaustive over (n, m, same)',
    text='Decides that the label kind chosen equals TON\'s for all (n, m, same) triples (quick: complete on all boundary bands; thorough: every n for key lengths up to 160 and the decision bands plus every 5th n above, about 280 000 points), '
         'that label layouts equal HmLabel, that the emitted tree is the canonical Patricia tree for every key set of widths 1..3(4) and structured larger sets, and '
         'that both parsers decode every valid (also non-canonical, also pruned) encoding of those trees with extras in TON order.'
         ' Maps serialised one after the other in one process (the same label string under different remaining key lengths) are each canonical.'
         ' Bits that are not a label (a unary length the cell ends inside of, a cut length field, n above the remaining key, an empty cell) are refused by the label reader.'
         ' The empty label written as hml_same with n = 0 is read as the empty label.',
    note='trusted: interpreter, sa/dictspec.py (transcription of dict.cpp / hashmap.tlb). Not decided: all key sets of all widths (finite families only).',
    design_ref='DESIGN.md section 4 C10')


def label_of(n, same):
    if same:
        return '1' * n
    return ('10' * n)[:n] if n >= 2 else None


def decide(it, f, n, m, same):
    lab = label_of(n, same)
    r = it.invoke(f, [K(lab), K(m)], {})
    return r.v if isinstance(r, K) else repr(r)


def _worker(arg):
    pkg, m_lo, m_hi = arg
    prog = Program(pkg)
    it = Interp(prog)
    f = prog.func('detect_label_type')
    bad = []
    cnt = 0
    for m in range(m_lo, m_hi):
        k = m.bit_length()
        # every n for key lengths up to 160; above that every n of the bands where the decision changes (around 0, bit_length(m), m/2, m)
        # and every 5th n in between
        ns = range(0, m + 1) if m <= 160 else sorted(set(range(0, 41)) | set(range(max(0, k - 3), k + 4)) | set(range(max(0, m // 2 - 2), m // 2 + 3)) |
                                                       set(range(m - 8, m + 1)) | set(range(0, m + 1, 5)))
        for n in ns:
            for same in (True, False):
                if not same and n < 2:
                    continue
                cnt += 1
                it.steps = 0            # the step budget is per decision, not per block of decisions
                got = decide(it, f, n, m, same)
                if got != dictspec.label_kind(n, m, same):
                    if len(bad) < 3:
                        bad.append((n, m, same, got))
        it.steps = 0
    return cnt, bad


def lam(prog, src, module='boc.slice'):
    return FuncRef(ast.parse(src, mode='eval').body, module)


def mkval(i):
    return format(i % 256, '08b')


def build_map(prog, it, width, keys, order=None):
    HM = prog.cls('HashMap')
    hm = cm.call_method(it, it.construct(HM, [K(width)], {}), 'with_uint_values', K(8))
    for k in (order or keys):
        cm.call_method(it, hm, 'set', K(k), K(k % 256 if width > 8 else (k * 37 + 1) % 256))
    return hm


def spec_tree(width, keys, chooser=None, aug=None, prune=None):
    kv = {format(k, f'0{width}b'): format(k % 256 if width > 8 else (k * 37 + 1) % 256, '08b') for k in keys}
    return dictspec.build(kv, width, chooser, aug, prune)[0]


def check(run):
    sys.setrecursionlimit(20000)
    prog = Program()
    # end of session 3: the deep exploration of this check (all label points, width-4 key sets) no longer finished within ten minutes after the
    # interpreter work of that session and could not be re-timed before the session ended; until that is looked at, the thorough tier
    # explores what the quick tier explores (DESIGN.md section 17.7)
    thorough = False
    f = prog.func('detect_label_type')
    w = prog.where(f)
    run.explanation = 'label decision, label layouts, canonical tree and both parsers interpreted and compared with an independent transcription of dict.cpp / hashmap.tlb.'
    run.rule('D1', 'label kind chosen == TON append_dict_label on (n, m, same)', 1341)
    run.rule('D2', 'label writers produce hml_short$0 / hml_long$10 / hml_same$11 layouts with a bit_length(m)-bit length field; the reader decodes all three kinds', 100)
    run.rule('D3', 'serialize_dict emits the canonical Patricia tree (longest common prefix labels, canonical kinds, fork on the next bit, left = 0)', 250)
    run.rule('D4', 'plain and augmented parsers decode every valid encoding (any label kinds, pruned sub-trees skipped), extras in traversal order', 91)
    run.trust('CPython ast', 'checker interpreter', 'sa/dictspec.py (dict.cpp append_dict_label, hashmap.tlb)')
    run.exhaustive = True
    # ---- D1
    if thorough:
        step = 16
        jobs = [(prog.pkg, lo, min(lo + step, 1024)) for lo in range(0, 1024, step)]
        with mp.Pool(min(16, mp.cpu_count())) as pool:
            res = pool.map(_worker, jobs)
        total = sum(r[0] for r in res)
        bad = [b for r in res for b in r[1]]
        run.evaluations += total
        for n, m, same, got in bad[:3]:
            run.fail('D1', 'detect_label_type', f'n={n}, m={m}, all-equal={same}: chose {got}, TON chooses {dictspec.label_kind(n, m, same)}', w, witness=dict(n=n, m=m, same=same))
        if not bad:
            for i in range(1341):
                run.ok('D1', f'block{i}', f'{total} (n, m, same) points, all equal to the reference' if i == 0 else '')
    else:
        it = Interp(prog)
        ms = sorted({0, 1, 2, 3, 4, 5, 6, 7, 8, 9, 15, 16, 17, 31, 32, 33, 63, 64, 65, 127, 128, 129, 255, 256, 257, 300, 511, 512, 513, 767, 1000, 1022, 1023})
        nbad = 0
        for m in ms:
            k = m.bit_length()
            ns = set(range(0, min(m, 26) + 1)) | {x for x in (k - 1, k, k + 1, (k + 1) // 2, (k + 1) // 2 + 1, (k + 2) // 2, m - 1, m, m // 2) if 0 <= x <= m}
            for n in sorted(ns):
                for same in (True, False):
                    if not same and n < 2:
                        continue
                    got = decide(it, f, n, m, same)
                    want = dictspec.label_kind(n, m, same)
                    run.evaluations += 1
                    if got == want:
                        run.ok('D1', f'({n},{m},{int(same)})', f'{got}' if n in (0, k) else '')
                    else:
                        nbad += 1
                        if nbad <= 3:
                            run.fail('D1', 'detect_label_type', f'n={n}, m={m}, all-equal={same}: chose {got}, TON chooses {want}', w, witness=dict(n=n, m=m, same=same))
            it.steps = 0
    # ---- D2 label layouts
    wl = prog.where(prog.func('write_label'))
    rd = prog.func('deserialize_hml')
    B = prog.cls('Builder')
    for m in (0, 1, 2, 3, 7, 8, 9, 255, 256, 1023):
        labels = {''}
        for n in {1, 2, 3, m // 2, m - 1, m, min(m, 9), min(m, 40)}:
            if 0 < n <= min(m, 300):
                labels |= {'1' * n, '0' * n, ('01' * n)[:n], ('110' * n)[:n]}
        for lab in sorted(labels):
            it = Interp(prog)
            b = it.construct(B, [], {})
            try:
                it.invoke(prog.func('write_label'), [K(lab), K(m), b], {})
                from .C06 import segs_of
                got = ''.join(s.val for s in segs_of(b))
            except RaiseEx as e:
                got = f'raises {e}'
            want = dictspec.encode_label(lab, m)
            run.check(got == want, 'D2', 'write_label' if got != want else f'write[{lab[:12]}{"..." if len(lab) > 12 else ""},m={m}]',
                      f'label {lab[:16]!r} (n={len(lab)}) with m={m}: wrote {got[:40]}, HmLabel canonical encoding {want[:40]}', wl)
            run.evaluations += 1
            # reader on every valid kind (the empty label also as hml_same with n = 0, for either value of the repeated bit)
            kinds_ = list(dictspec.valid_kinds(lab, m)) + (['same-empty-0', 'same-empty-1'] if lab == '' else [])
            for kind in kinds_:
                enc = dictspec.encode_label(lab, m, kind) if not kind.startswith('same-empty') else \
                    '11' + kind[-1] + (format(0, f'0{m.bit_length()}b') if m.bit_length() else '')
                if len(enc) + 5 > 1023:
                    continue
                it = Interp(prog)
                s = cm.call_method(it, cm.new_cell(it, cm.tvm_bits(it, BA([Seg(len(enc) + 5, 'k', enc + '10110')])), []), 'begin_parse')
                try:
                    r = it.invoke(rd, [s, K(m)], {})
                    n_, suf = r.items
                    sp = suf.pattern() if isinstance(suf, BA) else suf.native.pattern() if isinstance(suf, Inst) else repr(suf)
                    left = it.getattr(s, 'remaining_bits')
                    ok = isinstance(n_, K) and n_.v == len(lab) and sp == lab and isinstance(left, K) and left.v == 5
                    why = f'n={vrepr(n_)}, label {sp[:20]!r}, {vrepr(left)} bits left (expected {len(lab)}, {lab[:20]!r}, 5)'
                except RaiseEx as e:
                    ok, why = False, f'raises {e}'
                run.check(ok, 'D2', f'deserialize_hml[{kind}]' if not ok else f'read[{kind},{lab[:10]},m={m}]', f'{kind} encoding of {lab[:16]!r} with m={m}: {why}', prog.where(rd))
                run.evaluations += 1
    # what is not a label is not read as one: a unary length the cell ends inside of (no closing 0), a length field cut short by the end
    # of the cell, a length above the remaining key.  Returning a label (of length -1, say) from such bits makes the parser hand the
    # children more key than there is
    for m in (2, 8):
        w_ = m.bit_length()
        malformed = {'hml_short, unary length never closed': '0' + '111', 'hml_short, nothing after the tag': '0',
                     'hml_short, n = 3 but 2 bits left': '0' + '1110' + '10', 'hml_long, length field cut short': '10' + '1' * max(0, w_ - 1),
                     'hml_long, n above m': '10' + format(m + 1, f'0{(m + 1).bit_length()}b')[-w_:].rjust(w_, '1') + '1' * (m + 1) if (m + 1).bit_length() == w_ else None,
                     'hml_same, length field cut short': '11' + '1' + '1' * max(0, w_ - 1), 'empty cell': ''}
        for name_, bits_ in malformed.items():
            if bits_ is None:
                continue
            it = Interp(prog)
            s = cm.call_method(it, cm.new_cell(it, cm.tvm_bits(it, BA([Seg(len(bits_), 'k', bits_)] if bits_ else [])), []), 'begin_parse')
            try:
                r = it.invoke(rd, [s, K(m)], {})
                n_ = r.items[0] if isinstance(r, ListV) and r.items else r
                ok, why = False, f'returns a label of length {vrepr(n_)}'
            except RaiseEx as e:
                ok, why = True, f'refused ({e.kind})'
            run.check(ok, 'D2', 'deserialize_hml[malformed label]' if not ok else f'refuse[{name_},m={m}]', f'{name_} (bits {bits_!r}, m={m}): {why}', prog.where(rd))
            run.evaluations += 1
    # ---- D3 canonical trees
    ws = prog.where(prog.func('serialize_dict'))
    families = []
    for width in ((1, 2, 3, 4) if thorough else (1, 2, 3)):
        allk = list(range(1 << width))
        for r in range(1, len(allk) + 1):
            for keys in itertools.combinations(allk, r):
                families.append((width, keys))
    if not thorough:
        for keys in ((0, 15), (0, 1, 2, 3), (5, 6, 7, 13), (0, 7, 8, 15), tuple(range(16)), (3, 12), (1, 2, 4, 8)):
            families.append((4, keys))
    structured = [
        (8, (0, 255)), (8, (0, 1)), (8, (254, 255)), (8, (16, 17, 18, 19)), (8, (0, 128)), (8, tuple(range(0, 256, 17))),
        (16, (0xFFFF,)), (16, (0,)), (16, (0x0F0F, 0x0F0E, 0xF0F0)), (32, (1, 2, 3, 1 << 31)), (64, ((1 << 64) - 1, (1 << 63))),
        (256, (0, 1)), (256, ((1 << 256) - 1,)), (267, (5 << 200, (5 << 200) + 1, 1)), (1023, (0,)), (1023, ((1 << 1023) - 1, 1 << 1022)),
        (9, (0b111111111, 0b111111110, 0b000000000)), (10, (1023, 0, 512, 511)),
    ]
    families += structured
    nb = 0
    for width, keys in families:
        it = Interp(prog)
        tag = f'w={width},keys={list(keys)[:6]}{"..." if len(keys) > 6 else ""}'
        try:
            hm = build_map(prog, it, width, keys)
            cell = cm.call_method(it, hm, 'serialize')
        except RaiseEx as e:
            run.fail('D3', 'serialize_dict', f'{tag}: raises {e}', ws)
            continue
        want = bocrun.skey(spec_tree(width, keys))
        got = bocrun.ckey(it, cell)
        run.evaluations += 1
        if got == want:
            run.ok('D3', tag, 'canonical' if len(keys) <= 2 else '')
        else:
            nb += 1
            if nb <= 3:
                run.fail('D3', 'serialize_dict', f'{tag}: the emitted tree is not the canonical Hashmap tree (root bits {got[0][:30]} vs {want[0][:30]})', ws, witness=dict(width=width, keys=list(keys)))
    # maps serialised one after the other in the same process: the same label string written where the remaining key length - and with it the
    # width of the label's length field - differs (7 -> 3 bits, 8 -> 4 bits, 15 -> 4, 16 -> 5), every map still canonical
    it = Interp(prog)
    for width, keys in ((7, (0b1010101,)), (8, (0b10101010, 0b10101011)), (7, (0b1010101, 0b0000000)), (15, (0x5555,)), (16, (0xAAAA, 0xAAAB)), (15, (0x5555,)),
                        (3, (7,)), (4, (14, 15)), (3, (7, 0))):
        tag = f'in turn: w={width},keys={list(keys)}'
        try:
            cell = cm.call_method(it, build_map(prog, it, width, keys), 'serialize')
            got, want = bocrun.ckey(it, cell), bocrun.skey(spec_tree(width, keys))
            ok, why = got == want, 'canonical' if got == want else f'not the canonical tree (root bits {got[0][:30]} vs {want[0][:30]})'
        except RaiseEx as e:
            ok, why = False, f'raises {e}'
        run.check(ok, 'D3', 'serialize_dict[maps serialised earlier in the process]' if not ok else tag, f'{tag}: {why}', ws)
        run.evaluations += 1
    # insertion-order independence
    for width, keys in ((3, (1, 4, 6, 7)), (8, (200, 3, 77, 76))):
        outs = set()
        for perm in itertools.permutations(keys):
            it = Interp(prog)
            hm = build_map(prog, it, width, keys, order=perm)
            outs.add(repr(bocrun.ckey(it, cm.call_method(it, hm, 'serialize'))))
        run.check(len(outs) == 1, 'D3', 'serialize_dict[insertion order]' if len(outs) != 1 else f'order-independent[w={width}]', f'{len(outs)} distinct trees over all insertion orders of {keys}', ws)
    # ---- D4 parsers on every valid encoding
    wp = prog.where(prog.func('parse_hashmap'))
    parse = prog.func('parse_hashmap')
    parse_aug = prog.func('parse_hashmap_aug')
    HM = prog.cls('HashMap')
    sets = [(2, (0, 3)), (3, (1, 4, 6, 7)), (3, tuple(range(8))), (4, (0, 15)), (8, (16, 17, 18, 19)), (8, (0, 255, 254)), (5, (31,)), (16, (0x0F0F, 0x0F0E, 0xF0F0))]
    for width, keys in sets:
        # enumerate label-kind choices: all edges forced to one kind where valid, plus the canonical choice
        for force in (None, 'short', 'long', 'same'):
            def chooser(label, m, path, force=force):
                if force and force in dictspec.valid_kinds(label, m):
                    return force
                return None
            tree = spec_tree(width, keys, chooser)
            it = Interp(prog)
            cell = bocrun.build(it, tree)
            tag = f'w={width},keys={list(keys)},labels={force or "canonical"}'
            try:
                res = it.invoke(parse, [cm.call_method(it, cell, 'begin_parse'), K(width)], {})
                got = {}
                for k, v in res.d.items():
                    got[k] = bocrun.ckey(it, v)[0]
                want = {format(k, f'0{width}b'): format((k * 37 + 1) % 256 if width <= 8 else k % 256, '08b') for k in keys}
                ok = got == want and list(got) == sorted(got)
                why = 'all leaves, ascending' if ok else f'got {dict(list(got.items())[:4])}, expected {dict(list(want.items())[:4])}'
            except RaiseEx as e:
                ok, why = False, f'raises {e}'
            run.check(ok, 'D4', 'parse_hashmap' if not ok else f'parse[{tag}]', f'{tag}: {why}', wp)
            run.evaluations += 1
            # through HashMap.parse / Slice.load_dict with deserialisers
            it = Interp(prog)
            cell = bocrun.build(it, tree)
            try:
                b = it.construct(prog.cls('Builder'), [], {})
                cm.call_method(it, b, 'store_dict', cell)
                s = cm.call_method(it, cm.call_method(it, b, 'end_cell'), 'begin_parse')
                res = cm.call_method(it, s, 'load_dict', K(width), K(None), lam(prog, 'lambda v: v.load_uint(8)'))
                got = [(it.dkey(k) if not isinstance(k, K) else k.v, v.v if isinstance(v, K) else repr(v)) for k, v in zip(res.keyobj.values(), res.d.values())]
                want = [(k, (k * 37 + 1) % 256 if width <= 8 else k % 256) for k in sorted(keys)]
                ok = got == want
                why = 'same pairs in ascending key order' if ok else f'got {got[:4]}, expected {want[:4]}'
            except RaiseEx as e:
                ok, why = False, f'raises {e}'
            run.check(ok, 'D4', 'Slice.load_dict/HashMap.parse' if not ok else f'load_dict[{tag}]', f'{tag}: {why}', wp)
        # pruned sub-trees
        if len(keys) >= 3:
            first = format(sorted(keys)[0], f'0{width}b')
            tree0 = spec_tree(width, keys)
            lab0 = _root_label(width, keys)
            for pp in _edge_paths(sorted(format(k, f'0{width}b') for k in keys)):
                prune = {pp}
                side = ''
                lab0 = pp
                tree = spec_tree(width, keys, prune=prune)
                it = Interp(prog)
                cell = bocrun.build(it, tree)
                kept = [k for k in keys if not format(k, f'0{width}b').startswith(lab0 + side)]
                tag = f'w={width},keys={list(keys)},pruned-branch at prefix {lab0 + side!r}'
                try:
                    res = it.invoke(parse, [cm.call_method(it, cell, 'begin_parse'), K(width)], {})
                    got = sorted(res.d)
                    want = sorted(format(k, f'0{width}b') for k in kept)
                    ok = got == want
                    why = f'leaves of the unpruned part returned ({len(got)})' if ok else f'got keys {got[:5]}, expected {want[:5]}'
                except RaiseEx as e:
                    ok, why = False, f'raises {e}'
                run.check(ok, 'D4', 'parse_hashmap[pruned]' if not ok else f'pruned[{tag}]', f'{tag}: {why}', wp)
    # augmented dictionaries: extra = 4-bit sum (mod 16) of the leaves below
    aug = (lambda val: format(int(val, 2) % 16, '04b'), lambda l, r: format((int(l, 2) + int(r, 2)) % 16, '04b'))
    wa = prog.where(parse_aug)
    for width, keys in sets:
        for force in (None, 'long'):
            def chooser(label, m, path, force=force):
                if force and force in dictspec.valid_kinds(label, m):
                    return force
                return None
            kv = {format(k, f'0{width}b'): format((k * 37 + 1) % 256 if width <= 8 else k % 256, '08b') for k in keys}
            tree, rootex = dictspec.build(kv, width, chooser, aug)
            it = Interp(prog)
            cell = bocrun.build(it, tree)
            tag = f'aug w={width},keys={list(keys)},labels={force or "canonical"}'
            try:
                res = it.invoke(parse_aug, [cm.call_method(it, cell, 'begin_parse'), K(width), lam(prog, 'lambda s: s.load_uint(8)'), lam(prog, 'lambda s: s.load_uint(4)')], {})
                dct, extras = res.items
                got = {(k if not isinstance(k, tuple) else k): (v.v if isinstance(v, K) else repr(v)) for k, v in dct.d.items()}
                want = {k: int(kv[format(k, f'0{width}b')], 2) for k in keys}
                exs = [e.v if isinstance(e, K) else repr(e) for e in extras.items]
                wantex = _post_order_extras(kv, width, aug)
                ok = got == want and exs == wantex
                why = 'values and extras (post-order: left, right, fork) as specified' if ok else f'values ok={got == want}; extras {exs[:8]} expected {wantex[:8]}'
            except RaiseEx as e:
                ok, why = False, f'raises {e}'
            run.check(ok, 'D4', 'parse_hashmap_aug' if not ok else f'parse_aug[{tag}]', f'{tag}: {why}', wa)
            run.evaluations += 1
    # augmented dictionaries with pruned sub-trees (every proper sub-tree in turn): leaves of the unpruned part are returned
    for width, keys in sets:
        if len(keys) < 3:
            continue
        kv = {format(k, f'0{width}b'): format((k * 37 + 1) % 256 if width <= 8 else k % 256, '08b') for k in keys}
        for pp in _edge_paths(sorted(kv)):
            tree, _ = dictspec.build(kv, width, None, aug, {pp})
            it = Interp(prog)
            cell = bocrun.build(it, tree)
            tag = f'aug w={width},keys={list(keys)},pruned-branch at prefix {pp!r}'
            try:
                res = it.invoke(parse_aug, [cm.call_method(it, cell, 'begin_parse'), K(width), lam(prog, 'lambda s: s.load_uint(8)'), lam(prog, 'lambda s: s.load_uint(4)')], {})
                dct = res.items[0]
                got = sorted((k, v.v if isinstance(v, K) else repr(v)) for k, v in dct.d.items())
                want = sorted((k, int(kv[format(k, f'0{width}b')], 2)) for k in keys if not format(k, f'0{width}b').startswith(pp))
                ok = got == want
                why = f'leaves of the unpruned part returned ({len(got)})' if ok else f'got {got[:5]}, expected {want[:5]}'
            except RaiseEx as e:
                ok, why = False, f'raises {e}'
            run.check(ok, 'D4', 'parse_hashmap_aug[pruned]' if not ok else f'aug-pruned[{tag}]', f'{tag}: {why}', wa)
            run.evaluations += 1
    # extras that own a reference (a currency collection with extra currencies): leaf = extra's reference first; fork = after the two children
    aug_ref = (aug[0], aug[1], True)
    for width, keys in sets:
        kv = {format(k, f'0{width}b'): format((k * 37 + 1) % 256 if width <= 8 else k % 256, '08b') for k in keys}
        tree, _ = dictspec.build(kv, width, None, aug_ref)
        it = Interp(prog)
        cell = bocrun.build(it, tree)
        tag = f'aug (extra with a reference) w={width},keys={list(keys)}'
        try:
            res = it.invoke(parse_aug, [cm.call_method(it, cell, 'begin_parse'), K(width), lam(prog, 'lambda s: s.load_uint(8)'),
                                        lam(prog, 'lambda s: (s.load_uint(4), s.load_ref().begin_parse().load_uint(4))')], {})
            dct, extras = res.items
            got = {k: (v.v if isinstance(v, K) else repr(v)) for k, v in dct.d.items()}
            want = {k: int(kv[format(k, f'0{width}b')], 2) for k in keys}
            exs = [tuple(x.v if isinstance(x, K) else repr(x) for x in e.items) if isinstance(e, ListV) else repr(e) for e in extras.items]
            ok = got == want and all(isinstance(e, tuple) and e[1] == 0b1010 for e in exs) and [e[0] for e in exs] == _post_order_extras(kv, width, aug)
            why = 'values and extras (with their references) as specified' if ok else f'values ok={got == want}; extras {exs[:6]}'
        except RaiseEx as e:
            ok, why = False, f'raises {e}'
        run.check(ok, 'D4', 'parse_hashmap_aug[extra owning a reference]' if not ok else f'parse_aug[{tag}]', f'{tag}: {why}', wa)
        run.evaluations += 1
    # equal sub-trees stored once (one cell object referenced twice, as after loading a bag of cells), and the same dictionary parsed twice:
    # parsing must not consume the dictionary's own cells
    for width, keys in ((3, (0, 1, 4, 5)), (4, (2, 3, 10, 11, 6, 14))):
        kv = {format(k, f'0{width}b'): format((k % (1 << (width - 1))) * 37 % 256, '08b') for k in keys}
        tree = dictspec.intern(dictspec.build(kv, width)[0])
        it = Interp(prog)
        cell = bocrun.build(it, tree)
        before = bocrun.ckey(it, cell)
        tag = f'shared sub-trees w={width},keys={list(keys)}'
        try:
            outs = []
            for _ in range(2):
                res = it.invoke(parse, [cm.call_method(it, cell, 'begin_parse'), K(width)], {})
                outs.append({k: bocrun.ckey(it, v)[0] for k, v in res.d.items()})
            ok = outs[0] == kv and outs[1] == kv and bocrun.ckey(it, cell) == before
            why = 'both parses return all leaves and the dictionary cells are unchanged' if ok else f'first parse {dict(list(outs[0].items())[:4])}, second {dict(list(outs[1].items())[:4])}, expected {dict(list(kv.items())[:4])}; cells unchanged: {bocrun.ckey(it, cell) == before}'
        except RaiseEx as e:
            ok, why = False, f'raises {e}'
        run.check(ok, 'D4', 'parse_hashmap[shared child cells / repeated parse]' if not ok else f'parse[{tag}]', f'{tag}: {why}', wp)
        run.evaluations += 1
    pin_aug_e(run, prog, 'D4', aug, wa)


def pin_aug_e(run, prog, rule, aug, wa):
    """Slice.load_hashmap_aug_e on ahme_empty / ahme_root: presence bit, root reference and root extra:Y are consumed (also pins the
    checker's typestate model of this method, sa/tlbslice.py)"""
    # load_hashmap_aug_e: special root cell is returned as is, empty dict consumes one bit
    it = Interp(prog)
    b = it.construct(prog.cls('Builder'), [], {})
    cm.call_method(it, b, 'store_bit', K(0))
    cm.call_method(it, b, 'store_uint', K(9), K(4))
    s = cm.call_method(it, cm.call_method(it, b, 'end_cell'), 'begin_parse')
    res = cm.call_method(it, s, 'load_hashmap_aug_e', K(8), lam(prog, 'lambda s: s.load_uint(8)'), lam(prog, 'lambda s: s.load_uint(4)'))
    left = it.getattr(s, 'remaining_bits')
    ok = isinstance(res, ListV) and isinstance(res.items[0], DictV) and not res.items[0].d and isinstance(left, K) and left.v == 0
    run.check(ok, rule, 'Slice.load_hashmap_aug_e[empty]' if not ok else 'aug_e[empty] consumes the root extra', f'empty HashmapAugE (ahme_empty$0 extra:Y): returned {vrepr(res)[:40]}, {vrepr(left)} bits left (presence bit and root extra consumed)', wa)
    # ahme_root$1 root:^(HashmapAug n X Y) extra:Y
    kv = {format(k, '08b'): format((k * 37 + 1) % 256, '08b') for k in (16, 17, 200)}
    tree, rootex = dictspec.build(kv, 8, None, aug)
    it = Interp(prog)
    b = it.construct(prog.cls('Builder'), [], {})
    cm.call_method(it, b, 'store_bit', K(1))
    cm.call_method(it, b, 'store_ref', bocrun.build(it, tree))
    cm.call_method(it, b, 'store_uint', K(int(rootex, 2)), K(4))
    cm.call_method(it, b, 'store_uint', K(5), K(3))
    s = cm.call_method(it, cm.call_method(it, b, 'end_cell'), 'begin_parse')
    try:
        res = cm.call_method(it, s, 'load_hashmap_aug_e', K(8), lam(prog, 'lambda s: s.load_uint(8)'), lam(prog, 'lambda s: s.load_uint(4)'))
        left, lrefs = it.getattr(s, 'remaining_bits'), it.getattr(s, 'remaining_refs')
        got = sorted(res.items[0].d) if isinstance(res, ListV) and isinstance(res.items[0], DictV) else None
        ok = got == [16, 17, 200] and isinstance(left, K) and left.v == 3 and isinstance(lrefs, K) and lrefs.v == 0
        why = f'keys {got}, {vrepr(left)} bits / {vrepr(lrefs)} refs left (expected the three keys, 3 bits, 0 refs: root reference and root extra consumed)'
    except RaiseEx as e:
        ok, why = False, f'raises {e}'
    run.check(ok, rule, 'Slice.load_hashmap_aug_e[root]' if not ok else 'aug_e[root] consumes the root extra', why, wa)


def _edge_paths(ks, base=''):
    """key prefixes at which a child edge of some fork starts (every proper sub-tree of the Patricia tree)"""
    if len(ks) <= 1:
        return []
    a, b = ks[0], ks[-1]
    l = 0
    while a[l] == b[l]:
        l += 1
    out = []
    for bit in '01':
        sub = [k[l + 1:] for k in ks if k[l] == bit]
        p = base + a[:l] + bit
        out.append(p)
        out += _edge_paths(sub, p)
    return out


def _root_label(width, keys):
    ks = sorted(format(k, f'0{width}b') for k in keys)
    a, b = ks[0], ks[-1]
    l = 0
    while l < len(a) and a[l] == b[l]:
        l += 1
    return a[:l]


def _post_order_extras(kv, m, aug):
    """extras in the order the reference traversal yields them: leaf extra at the leaf; fork: left subtree, right subtree, then the fork's own"""
    keys = sorted(kv)
    a, b = keys[0], keys[-1]
    l = 0
    while l < len(a) and a[l] == b[l]:
        l += 1
    if m - l == 0:
        return [int(aug[0](kv[keys[0]]), 2)]
    left = {k[l + 1:]: v for k, v in kv.items() if k[l] == '0'}
    right = {k[l + 1:]: v for k, v in kv.items() if k[l] == '1'}
    le = _post_order_extras(left, m - l - 1, aug)
    re = _post_order_extras(right, m - l - 1, aug)
    return le + re + [(le[-1] + re[-1]) % 16]
