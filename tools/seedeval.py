"""Confirms a seeded regression and runs the registered check against it.

usage: seedeval.py <src dir with patch.diff demo.py notes.md> <property id> <seed name> [--tier quick|thorough|both] [--keep]

steps (all in a scratch git worktree of /repo under /tmp, removed afterwards):
  1. demo.py on the pristine tree must exit 0
  2. git apply patch.diff; the pinned test suite must pass (51)
  3. demo.py with the change must exit non-zero
  4. ./check <pid> with VERIF_REPO=<worktree> (same code path as the registered command, other tree): fire / silent / analysis-error
writes /verif/seeded/<name>/{patch.diff, demo.py, notes.md, meta.json}
"""
import json
import os
import shutil
import subprocess
import sys
import tempfile
import time

VERIF = os.path.dirname(os.path.dirname(os.path.abspath(__file__)))
BASE = os.environ.get('SEED_BASE', 'HEAD')     # the /repo commit the stored patch was written against
PY = '/venv/bin/python'


def snapshot_verif():
    """the checks are run from a private copy of /verif/sa taken now, so that edits made while a long evaluation runs do not mix versions"""
    snap = tempfile.mkdtemp(prefix='verifsnap_', dir='/tmp')
    shutil.copytree(os.path.join(VERIF, 'sa'), os.path.join(snap, 'sa'), ignore=shutil.ignore_patterns('__pycache__'))
    for f in ('check', 'known_findings.json', 'MANIFEST.json'):
        shutil.copy(os.path.join(VERIF, f), os.path.join(snap, f))
    return snap


def sh(cmd, cwd=None, env=None, timeout=1800):
    r = subprocess.run(cmd, shell=True, cwd=cwd, env=env, capture_output=True, text=True, timeout=timeout)
    return r.returncode, r.stdout + r.stderr


def main():
    a = sys.argv[1:]
    tier = 'quick'
    if '--tier' in a:
        i = a.index('--tier')
        tier = a[i + 1]
        del a[i:i + 2]
    src, pid, name = a[:3]
    src = os.path.abspath(src)
    global BASE
    if os.path.exists(os.path.join(src, 'base.txt')) and 'SEED_BASE' not in os.environ:
        BASE = open(os.path.join(src, 'base.txt')).read().strip()
    wt = tempfile.mkdtemp(prefix=f'seedeval_{name}_', dir='/tmp')
    os.rmdir(wt)
    meta = dict(name=name, property=pid, source=src)
    try:
        rc, out = sh(f'git -C /repo worktree add -q --detach {wt} {BASE}')
        if rc:
            print('worktree failed', out)
            return 2
        env = dict(os.environ, PYTHONPATH=wt, PYTHONDONTWRITEBYTECODE='1')
        demo = os.path.join(src, 'demo.py')
        rc0, out0 = sh(f'{PY} {demo}', cwd=wt, env=env)
        meta['demo_pristine_exit'] = rc0
        rc, out = sh(f'git apply {os.path.join(src, "patch.diff")}', cwd=wt)
        if rc == 0 and BASE != 'HEAD':
            # the patch was written against an older /repo commit: bring the later fix commits of /repo on top of it
            sh('git -c user.email=v@v -c user.name=v commit -qam seeded-change', cwd=wt)
            later = sh(f'git -C /repo rev-list --reverse {BASE}..HEAD')[1].split()
            meta['rebased_over'] = []
            for c in later:
                r2, o2 = sh(f'git -c user.email=v@v -c user.name=v cherry-pick {c}', cwd=wt)
                if r2:
                    sh('git cherry-pick --abort', cwd=wt)
                    meta['rebase_conflict'] = c
                    break
                meta['rebased_over'].append(c[:7])
        meta['applies'] = rc == 0
        if rc:
            meta['apply_error'] = out[-400:]
            print(json.dumps(meta, indent=1))
            return 2
        rc, out = sh(f'{PY} -m pytest -q -p no:cacheprovider -x', cwd=wt, env=env)
        meta['tests_with_change'] = out.strip().splitlines()[-1] if out.strip() else ''
        meta['tests_pass'] = rc == 0
        rc1, out1 = sh(f'{PY} {demo}', cwd=wt, env=env)
        meta['demo_changed_exit'] = rc1
        meta['demo_changed_tail'] = out1.strip().splitlines()[-3:]
        meta['confirmed'] = rc0 == 0 and rc1 != 0 and meta['tests_pass']
        res = {}
        for t in (['quick', 'thorough'] if tier == 'both' else [tier]):
            outd = tempfile.mkdtemp(prefix='seedout_', dir='/tmp')
            e2 = dict(os.environ, VERIF_REPO=wt, VERIF_OUT=outd)
            t0 = time.time()
            snap = snapshot_verif()
            rc, out = sh(f'{os.path.join(snap, "check")} {pid} --tier {t}', cwd=snap, env=e2, timeout=3600)
            shutil.rmtree(snap, ignore_errors=True)
            lines = out.splitlines()
            viol = [l for l in lines if l.startswith('VIOLATION')]
            diag = [lines[i - 1] for i, l in enumerate(lines) if l.startswith('VIOLATION') and i > 0]
            err = [l for l in lines if 'ANALYSIS-ERROR' in l]
            res[t] = dict(exit=rc, verdict='fire' if rc == 1 and viol else 'silent' if rc == 0 else 'analysis-error' if rc == 2 else f'rc{rc}',
                          diagnostics=[d[:300] for d in diag[:4]], errors=[e[:300] for e in err[:2]], wall_s=round(time.time() - t0, 1))
            shutil.rmtree(outd, ignore_errors=True)
        meta['check'] = res
    finally:
        sh(f'git -C /repo worktree remove --force {wt}')
        shutil.rmtree(wt, ignore_errors=True)
    dst = os.path.join(VERIF, 'seeded', name)
    os.makedirs(dst, exist_ok=True)
    for f in ('patch.diff', 'demo.py', 'notes.md', 'base.txt'):
        if os.path.exists(os.path.join(src, f)) and os.path.abspath(src) != os.path.abspath(dst):
            shutil.copy(os.path.join(src, f), os.path.join(dst, f))
    notes = open(os.path.join(dst, 'notes.md')).read() if os.path.exists(os.path.join(dst, 'notes.md')) else ''
    old = {}
    mp = os.path.join(dst, 'meta.json')
    if os.path.exists(mp):
        old = json.load(open(mp))
    meta['needs_to_manifest'] = old.get('needs_to_manifest') or notes.strip()[:1200]
    meta['what_was_run'] = ('scratch worktree of /repo HEAD: demo.py (pristine) -> git apply patch.diff -> pytest (pinned suite) -> demo.py (changed) -> '
                            './check <property> with VERIF_REPO=<worktree>; worktree removed')
    meta['source'] = 'independent sub-agent given only the property text and a scratch worktree'
    json.dump(meta, open(mp, 'w'), indent=1)
    print(name, pid, 'confirmed' if meta.get('confirmed') else 'NOT-CONFIRMED', {t: r['verdict'] for t, r in meta.get('check', {}).items()},
          [d[:160] for r in meta.get('check', {}).values() for d in r['diagnostics'][:1]])
    return 0


if __name__ == '__main__':
    sys.exit(main())
