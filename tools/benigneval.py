"""Evaluates an independently written *behaviour-preserving* change: every registered check must stay silent (exit 0) on it.

usage: benigneval.py <src dir with patch.diff demo.py notes.md> <property id> <name> [pids...]

steps (scratch git worktree of /repo under /tmp, removed afterwards):
  1. demo.py on the pristine tree must exit 0
  2. git apply patch.diff; the pinned suite must pass; demo.py must still exit 0
  3. every claimed check (or the listed ones) is run with VERIF_REPO=<worktree>: silent / FIRE (false alarm unless the change is
     shown not to be behaviour-preserving) / analysis-error (robustness gap of the interpreter)
writes /verif/benign/<name>/{patch.diff, demo.py, notes.md, meta.json}
"""
import json
import os
import shutil
import subprocess
import sys
import tempfile
import time
from concurrent.futures import ThreadPoolExecutor

VERIF = os.path.dirname(os.path.dirname(os.path.abspath(__file__)))
BASE = os.environ.get('SEED_BASE', 'HEAD')     # the /repo commit the stored patch was written against
PY = '/venv/bin/python'


def snapshot_verif():
    """the checks are run from a private copy of /verif/sa taken now, so that edits made while a long evaluation runs do not mix versions"""
    snap = tempfile.mkdtemp(prefix='verifsnap_', dir='/tmp')
    shutil.copytree(os.path.join(VERIF, 'sa'), os.path.join(snap, 'sa'), ignore=shutil.ignore_patterns('__pycache__'))
    for f in ('check', 'known_findings.json', 'MANIFEST.json'):
        shutil.copy(os.path.join(VERIF, f), os.path.join(snap, f))
    return snap


def sh(cmd, cwd=None, env=None, timeout=1800):
    r = subprocess.run(cmd, shell=True, cwd=cwd, env=env, capture_output=True, text=True, timeout=timeout)
    return r.returncode, r.stdout + r.stderr


def main():
    a = sys.argv[1:]
    src, pid, name = a[:3]
    pids = a[3:] or [c['property_id'] for c in json.load(open(os.path.join(VERIF, 'MANIFEST.json')))['checks']]
    src = os.path.abspath(src)
    global BASE
    if os.path.exists(os.path.join(src, 'base.txt')) and 'SEED_BASE' not in os.environ:
        BASE = open(os.path.join(src, 'base.txt')).read().strip()
    wt = tempfile.mkdtemp(prefix=f'benign_{name}_', dir='/tmp')
    os.rmdir(wt)
    meta = dict(name=name, property=pid)
    try:
        rc, out = sh(f'git -C /repo worktree add -q --detach {wt} {BASE}')
        if rc:
            print('worktree failed', out)
            return 2
        env = dict(os.environ, PYTHONPATH=wt, PYTHONDONTWRITEBYTECODE='1')
        demo = os.path.join(src, 'demo.py')
        rc0, out0 = sh(f'{PY} {demo}', cwd=wt, env=env)
        meta['demo_pristine_exit'] = rc0
        rc, out = sh(f'git apply {os.path.join(src, "patch.diff")}', cwd=wt)
        if rc == 0 and BASE != 'HEAD':
            # the patch was written against an older /repo commit: bring the later fix commits of /repo on top of it
            sh('git -c user.email=v@v -c user.name=v commit -qam seeded-change', cwd=wt)
            later = sh(f'git -C /repo rev-list --reverse {BASE}..HEAD')[1].split()
            meta['rebased_over'] = []
            for c in later:
                r2, o2 = sh(f'git -c user.email=v@v -c user.name=v cherry-pick {c}', cwd=wt)
                if r2:
                    sh('git cherry-pick --abort', cwd=wt)
                    meta['rebase_conflict'] = c
                    break
                meta['rebased_over'].append(c[:7])
        meta['applies'] = rc == 0
        if rc:
            meta['apply_error'] = out[-400:]
            print(name, 'DOES-NOT-APPLY', out[-200:])
            return 2
        rc, out = sh(f'{PY} -m pytest -q -p no:cacheprovider -x', cwd=wt, env=env)
        meta['tests_with_change'] = out.strip().splitlines()[-1] if out.strip() else ''
        meta['tests_pass'] = rc == 0
        rc1, out1 = sh(f'{PY} {demo}', cwd=wt, env=env)
        meta['demo_changed_exit'] = rc1
        meta['confirmed_benign_by_demo'] = rc0 == 0 and rc1 == 0 and meta['tests_pass']

        snap = snapshot_verif()

        def one(p):
            outd = tempfile.mkdtemp(prefix='benout_', dir='/tmp')
            t0 = time.time()
            r = subprocess.run([os.path.join(snap, 'check'), p, '--tier', os.environ.get('TIER', 'quick')], cwd=snap,
                               env=dict(os.environ, VERIF_REPO=wt, VERIF_OUT=outd), capture_output=True, text=True)
            shutil.rmtree(outd, ignore_errors=True)
            lines = r.stdout.splitlines()
            diag = [lines[i - 1][:300] for i, l in enumerate(lines) if l.startswith('VIOLATION') and i > 0][:3] + \
                   [l[:400] for l in lines if 'ANALYSIS-ERROR' in l][:2]
            return p, dict(exit=r.returncode, verdict={0: 'silent', 1: 'FIRE', 2: 'analysis-error'}.get(r.returncode, f'rc{r.returncode}'),
                           diagnostics=diag, wall_s=round(time.time() - t0, 1))
        with ThreadPoolExecutor(int(os.environ.get('JOBS', '8'))) as ex:
            meta['checks'] = dict(ex.map(one, pids))
        shutil.rmtree(snap, ignore_errors=True)
    finally:
        sh(f'git -C /repo worktree remove --force {wt}')
        shutil.rmtree(wt, ignore_errors=True)
    dst = os.path.join(VERIF, 'benign', name)
    os.makedirs(dst, exist_ok=True)
    for f in ('patch.diff', 'demo.py', 'notes.md', 'base.txt'):
        if os.path.exists(os.path.join(src, f)) and os.path.abspath(src) != os.path.abspath(dst):
            shutil.copy(os.path.join(src, f), os.path.join(dst, f))
    mp = os.path.join(dst, 'meta.json')
    old = json.load(open(mp)) if os.path.exists(mp) else {}
    if a[3:] and 'checks' in old:
        old['checks'].update(meta['checks'])
        meta['checks'] = old['checks']
    for k in ('note', 'first_verdict'):
        if k in old:
            meta[k] = old[k]
    meta['source'] = 'independent sub-agent given only the property text and a scratch worktree; asked for a behaviour-preserving change'
    meta['what_was_run'] = ('scratch worktree of /repo HEAD: demo.py (pristine) -> git apply patch.diff -> pytest (pinned suite) -> demo.py (changed) -> '
                            './check <every property> with VERIF_REPO=<worktree>; worktree removed')
    json.dump(meta, open(mp, 'w'), indent=1)
    noisy = {p: r['verdict'] for p, r in meta['checks'].items() if r['exit'] != 0}
    print(name, pid, 'benign-confirmed' if meta['confirmed_benign_by_demo'] else 'DEMO/TESTS-FAIL', 'ALL-SILENT' if not noisy else noisy,
          [d[:200] for p, r in meta['checks'].items() if r['exit'] for d in r['diagnostics'][:1]])
    return 0


if __name__ == '__main__':
    sys.exit(main())
