"""C19 - work is bounded by the size of the input; every parser terminates.

D1  no re-traversal of shared sub-DAGs.
    (a) structural: every *descent site* over the cell graph in boc/ - a recursive call on, or a work-list push of, a value
        derived from `.refs` - must be control-dependent on a first-visit test (a membership test of that value, or of the
        function's own receiver on entry, against an accumulator).  Printing (__str__/__repr__), whose output is as large as
        the unfolded tree, is exempt by name.  Construction-time hashing must not recurse into children (it reads their
        cached hashes): no call path from Cell.__init__ back to a traversal of `.refs` of a child.
    (b) cost shape: Cell.order / to_boc / hash access are abstractly interpreted on the maximal-sharing family (a chain of n
        cells, every cell referencing the next one twice - 2^n paths, n cells) for n = 6, 10, 14, 18 and the number of
        interpreted calls of every traversal function is counted: it must grow at most linearly in n (exponential growth is
        the defect).
D3  dictionary parsers.  A valid Hashmap of key length k has at most k levels; the descent is bounded only if every label obeys
    n <= m (remaining key length).  The plain and augmented parsers are interpreted on a (d+2)-cell bag whose root label is longer than
    the key and whose d fork cells each reference one child twice: more than 16(d+2)+64 calls of any parser function is the violation.
D2  input-derived loop bounds.  The BoC and TL parsers are abstractly interpreted on adversarial inputs in which every
    count / length field in turn is set to its maximum while the input stays short; the interpreter counts loop iterations:
    more than 8 x len(input) + 64 iterations of any loop before the parser returns or raises is the violation.
    Structural part: every `for ... in range(e)` / `while` whose bound is data-derived (taint from int.from_bytes /
    bytes_to_uint over the input) is listed; each must be covered by such an adversarial scenario (floor).
"""
import ast
import sys
from ..core import AnalysisError
from ..front import Program, FuncRef, dotted
from ..interp import Interp
from ..values import *
from .. import cellmodel as cm
from .. import bocspec, bocrun
from ..bocspec import SCell

MANIFEST = dict(
    technique='structural visited-guard rule over every descent site on `.refs` (syntax tree + call graph); call counting under abstract interpretation on the maximal-sharing DAG family (growth shape); taint of input-derived loop bounds and iteration counting under abstract interpretation on adversarial count/length fields',
    text='Decides that every traversal of the cell graph in the BoC code stops at already visited cells (structural rule over all descent sites, printing exempt), that ordering/serialising/hashing the n-cell '
         'maximal-sharing DAG performs a number of traversal calls linear in n (n up to 18, i.e. 2^18 paths), and that the BoC and TL parsers never run a loop more than a constant times the input length when any '
         'count or length field is set to its maximum on a short input. Wall-clock bounds and constants are not decided.'
         ' The plain and augmented dictionary parsers are interpreted on bags whose root label is longer than the key (HmLabel n <= m violated): the number of parser calls must stay linear in the number of cells.'
         ' Bags whose cells reference each other (cycles) terminate within the iteration bound.'
         ' The text front end of the bag parser (hexadecimal / base64 texts, malformed ones included) answers within the same bound. Dictionary fork chains whose labels are unterminated unary lengths stop at the key length.'
         ' Regular expressions applied in the parsers have no unbounded repetition whose body is, apart from optional parts, one unbounded repetition (rule D2r, structural).',
    note='trusted: interpreter (its call and loop counters), checker-side BoC encoder for the adversarial inputs. Dictionary parsing of maximally shared trees is exempt (the logical map itself is exponential there).',
    design_ref='DESIGN.md section 4 C19')

EXEMPT = {'__str__', '__repr__'}


# ------------------------------------------------------------------ D1a structural
def refs_derived(fn):
    """names bound (in fn) to elements of some `.refs`"""
    names = set()

    def is_refs(e):
        return isinstance(e, ast.Attribute) and e.attr == 'refs' or (isinstance(e, ast.Subscript) and is_refs(e.value) and isinstance(e.slice, ast.Slice)) \
            or (isinstance(e, ast.Call) and isinstance(e.func, ast.Name) and e.func.id in ('reversed', 'list', 'enumerate', 'iter') and e.args and is_refs(e.args[0]))
    changed = True
    while changed:
        changed = False
        for n in ast.walk(fn):
            if isinstance(n, (ast.For, ast.comprehension)) and is_refs(n.iter):
                for t in ast.walk(n.target):
                    if isinstance(t, ast.Name) and t.id not in names:
                        names.add(t.id)
                        changed = True
            if isinstance(n, ast.Assign) and len(n.targets) == 1 and isinstance(n.targets[0], ast.Name):
                v = n.value
                if (isinstance(v, ast.Subscript) and (is_refs(v.value) or (isinstance(v.value, ast.Name) and v.value.id in names and False))) or \
                        (isinstance(v, ast.Name) and v.id in names):
                    if n.targets[0].id not in names:
                        names.add(n.targets[0].id)
                        changed = True
    return names


def parents_of(fn):
    p = {}
    for n in ast.walk(fn):
        for c in ast.iter_child_nodes(n):
            p[c] = n
    return p


def mentions(e, names):
    return any(isinstance(x, ast.Name) and x.id in names for x in ast.walk(e))


def guarded(site, fn, par, names, selfname):
    """is `site` control-dependent on a first-visit membership test?"""
    def is_membership(test, polarity_names):
        for c in ast.walk(test):
            if isinstance(c, ast.Compare) and any(isinstance(o, (ast.In, ast.NotIn)) for o in c.ops) and mentions(c.left, polarity_names):
                return True
        return False
    # the node whose references the site pushes / descends into (`stack.extend(cell.refs)`: cell) and the names a work-list hands out
    # (`cell = stack.pop()`, `cell, done = stack.pop()`): a first-visit test of THAT node before its references are queued bounds the
    # pushes by the number of references of distinct cells - the same argument as the test of the child
    names = set(names)
    for x in ast.walk(site):
        if isinstance(x, ast.Attribute) and x.attr == 'refs' and isinstance(x.value, ast.Name):
            names.add(x.value.id)
    for x in ast.walk(fn):
        if isinstance(x, ast.Assign) and isinstance(x.value, ast.Call) and isinstance(x.value.func, ast.Attribute) and x.value.func.attr in ('pop', 'popleft'):
            for t in x.targets:
                for y in ([t] if isinstance(t, ast.Name) else list(t.elts[:1]) if isinstance(t, (ast.Tuple, ast.List)) else []):
                    if isinstance(y, ast.Name):
                        names.add(y.id)
    # (1) an enclosing `if x not in seen:` / preceding `if x in seen: continue` in the same loop body
    n = site
    while n in par:
        p = par[n]
        if isinstance(p, ast.If) and is_membership(p.test, names | {selfname}):
            return True
        if isinstance(p, (ast.For, ast.While)):
            for st in p.body:
                if st is n:
                    break
                if isinstance(st, ast.If) and is_membership(st.test, names) and any(isinstance(x, (ast.Continue, ast.Return, ast.Break)) for x in ast.walk(st)):
                    return True
        n = p
    # (2) recursion form: on entry the function leaves when its own receiver was seen
    for st in fn.body:
        if isinstance(st, ast.If) and is_membership(st.test, {selfname}) and any(isinstance(x, ast.Return) for x in ast.walk(st)):
            return True
        if isinstance(st, (ast.For, ast.While)):
            break
    return False


def descent_sites(prog):
    out = []
    for f in prog.all_functions():
        if not f.module.startswith('boc.') or f.module.startswith('boc.hashmap'):
            continue
        fn = f.node
        names = refs_derived(fn)
        if not names:
            continue
        par = parents_of(fn)
        selfname = fn.args.args[0].arg if fn.args.args else 'self'
        worklists = set()
        for n in ast.walk(fn):
            if isinstance(n, ast.While):
                for x in ast.walk(n.test):
                    if isinstance(x, ast.Name):
                        worklists.add(x.id)
        for n in ast.walk(fn):
            if not isinstance(n, ast.Call):
                continue
            callee = n.func.attr if isinstance(n.func, ast.Attribute) else n.func.id if isinstance(n.func, ast.Name) else None
            recv = n.func.value if isinstance(n.func, ast.Attribute) else None
            args_m = any(mentions(a, names) for a in n.args)
            if callee == fn.name and ((recv is not None and mentions(recv, names)) or args_m):
                out.append((f, n, 'recursive call', names, par, selfname))
            elif callee in ('append', 'extend', 'insert', 'appendleft', 'add', 'push') and isinstance(recv, ast.Name) and recv.id in worklists and args_m:
                out.append((f, n, 'work-list push', names, par, selfname))
    return out


# ------------------------------------------------------------------ D1b cost shape
class CountingInterp(Interp):
    """counts interpreted calls per function and iterations per loop (a work-list loop is a traversal as much as a recursion is)"""
    MAX_UNROLL = 10 ** 9

    def __init__(self, prog):
        super().__init__(prog)
        self.calls = {}
        self.MAX_STEPS = 30_000_000

    def _loop_key(self, st):
        return f'loop@{self.cur[-1].qual if self.cur else "?"}:{st.lineno}'

    def st_While(self, st, fr):
        key = self._loop_key(st)
        while True:
            c = self.ev(st.test, fr)
            if not self.truth(c, st):
                break
            self.calls[key] = self.calls.get(key, 0) + 1
            try:
                self.block(st.body, fr)
            except ContinueEx:
                continue
            except BreakEx:
                return
        if st.orelse:
            self.block(st.orelse, fr)

    def st_For(self, st, fr):
        key = self._loop_key(st)
        it = self.ev(st.iter, fr)
        items = self.iterate(it)
        if items is None:
            raise Fail(f'for over {it!r} line {st.lineno}')
        broke = False
        for x in items:
            self.calls[key] = self.calls.get(key, 0) + 1
            self.assign(st.target, x, fr)
            try:
                self.block(st.body, fr)
            except ContinueEx:
                continue
            except BreakEx:
                broke = True
                break
        if not broke and st.orelse:
            self.block(st.orelse, fr)

    def invoke(self, f, args, kw):
        q = f.qual
        self.calls[q] = self.calls.get(q, 0) + 1
        return super().invoke(f, args, kw)


def sharing_chain(n):
    c = SCell(format(n, '016b'))
    for i in range(n - 1, -1, -1):
        c = SCell(format(i, '016b'), [c, c])
    return c


# ------------------------------------------------------------------ D2 iteration counting
class WorkExceeded(Exception):
    pass


LOOPED = set()        # names of the functions whose loops were entered under the iteration-counting interpreter (the adversarial scenarios)


class BoundedInterp(Interp):
    """loops over huge constant ranges are entered lazily and counted"""
    def __init__(self, prog, limit):
        super().__init__(prog)
        self.limit = limit
        self.iterations = 0
        self.worst = (0, None)

    def allocation(self, n, node=None):
        # building a sequence of n elements in one step is n units of work (and memory), whatever the loop count says
        self.iterations += n
        if n > self.limit:
            raise WorkExceeded(f'a sequence of {n} elements is allocated at line {getattr(node, "lineno", "?")} of {self.cur[-1].qual if self.cur else "?"} (passed {self.limit})')

    def iterate(self, it):
        if isinstance(it, K) and isinstance(it.v, range) and len(it.v) > self.MAX_UNROLL:
            return LazyRange(self, it.v)
        return super().iterate(it)

    def st_For(self, st, fr):
        before = self.iterations
        it = self.ev(st.iter, fr)
        items = self.iterate(it)
        if items is None:
            raise Fail(f'for over {it!r} line {st.lineno}')
        n = 0
        broke = False
        LOOPED.add(self.cur[-1].name if self.cur else '?')
        for x in items:
            n += 1
            self.iterations += 1
            if n > self.limit:
                raise WorkExceeded(f'loop at line {st.lineno} of {self.cur[-1].qual if self.cur else "?"} passed {self.limit} iterations (bound {vrepr(it)[:40]})')
            self.assign(st.target, x, fr)
            try:
                self.block(st.body, fr)
            except ContinueEx:
                continue
            except BreakEx:
                broke = True
                break
        if n > self.worst[0]:
            self.worst = (n, st.lineno)
        if not broke and st.orelse:
            self.block(st.orelse, fr)

    def st_While(self, st, fr):
        n = 0
        LOOPED.add(self.cur[-1].name if self.cur else '?')
        while True:
            c = self.ev(st.test, fr)
            if not self.truth(c, st):
                break
            n += 1
            self.iterations += 1
            if n > self.limit:
                raise WorkExceeded(f'while loop at line {st.lineno} passed {self.limit} iterations')
            try:
                self.block(st.body, fr)
            except ContinueEx:
                continue
            except BreakEx:
                return
        if st.orelse:
            self.block(st.orelse, fr)


class LazyRange:
    def __init__(self, it, r):
        self.it, self.r = it, r

    def __iter__(self):
        n = 0
        for x in self.r:
            n += 1
            self.it.iterations += 1
            if n > self.it.limit + 1:
                raise WorkExceeded(f'iteration over {self.r!r} passed {self.it.limit} steps in {self.it.cur[-1].qual if self.it.cur else "?"}')
            yield K(x)


def data_bounded_loops(prog, modules):
    """(function, loop node) whose bound derives from the input bytes (int.from_bytes / bytes_to_uint / byte indexing)"""
    out = []
    for f in prog.all_functions():
        if f.module not in modules:
            continue
        fn = f.node
        tainted = set()
        changed = True

        def is_src(e):
            for x in ast.walk(e):
                if isinstance(x, ast.Call):
                    d = dotted(x.func) or ''
                    if d.endswith('from_bytes') or d.endswith('bytes_to_uint') or d.endswith('load_uint'):
                        return True
                if isinstance(x, ast.Name) and x.id in tainted:
                    return True
                if isinstance(x, ast.Subscript) and isinstance(x.value, ast.Name) and x.value.id in tainted:
                    return True
            return False
        while changed:
            changed = False
            for n in ast.walk(fn):
                if isinstance(n, ast.Assign):
                    if is_src(n.value):
                        for t in n.targets:
                            for x in ast.walk(t):
                                if isinstance(x, ast.Name) and x.id not in tainted:
                                    tainted.add(x.id)
                                    changed = True
                                if isinstance(x, ast.Subscript) and isinstance(x.value, ast.Name) and x.value.id not in tainted and isinstance(x.slice, ast.Constant):
                                    tainted.add(x.value.id)
                                    changed = True
        for n in ast.walk(fn):
            if isinstance(n, ast.For) and isinstance(n.iter, ast.Call) and isinstance(n.iter.func, ast.Name) and n.iter.func.id in ('range', 'reversed') and is_src(n.iter):
                out.append((f, n))
            elif isinstance(n, ast.While) and is_src(n.test):
                out.append((f, n))
            elif isinstance(n, (ast.ListComp, ast.GeneratorExp)) and any(isinstance(g.iter, ast.Call) and is_src(g.iter) for g in n.generators):
                out.append((f, n))
    return out


def regex_trouble(pattern):
    """-> description of a nested unbounded repetition whose body is, apart from parts that may match nothing, itself one unbounded
    repetition - `(x+)*`, `(?:x+\\s*)*`: a text of n x-characters followed by a character that fits nowhere is tried in 2^n splits by the
    backtracking matcher; None when the pattern has no such construct"""
    import re._parser as sp
    import re._constants as sc
    try:
        tree = sp.parse(pattern)
    except Exception as e:          # not a valid pattern: the call raises at run time, nothing is matched
        return None
    REPEATS = (sc.MAX_REPEAT, sc.MIN_REPEAT) + ((sc.POSSESSIVE_REPEAT,) if hasattr(sc, 'POSSESSIVE_REPEAT') else ())

    def nullable(seq):
        return all(item_nullable(op, av) for op, av in seq)

    def item_nullable(op, av):
        if op in REPEATS:
            return av[0] == 0 or nullable(av[2])
        if op is sc.SUBPATTERN:
            return nullable(av[3])
        if op is sc.BRANCH:
            return any(nullable(b) for b in av[1])
        return op in (sc.AT, sc.ASSERT, sc.ASSERT_NOT, sc.GROUPREF_EXISTS)

    def core(seq):
        """the items of a sequence that must consume something, sub-patterns opened up"""
        out = []
        for op, av in seq:
            if op is sc.SUBPATTERN:
                out += core(av[3]) if not nullable(av[3]) else []
            elif not item_nullable(op, av):
                out.append((op, av))
        return out

    def walk(seq):
        for op, av in seq:
            if op in REPEATS:
                lo, hi, body = av
                if hi == sc.MAXREPEAT and op is not getattr(sc, 'POSSESSIVE_REPEAT', None):
                    c = core(body)
                    if len(c) == 1 and c[0][0] in (sc.MAX_REPEAT, sc.MIN_REPEAT) and c[0][1][1] == sc.MAXREPEAT:
                        return 'an unbounded repetition whose body is (apart from optional parts) one unbounded repetition'
                r = walk(body)
                if r:
                    return r
            elif op is sc.SUBPATTERN:
                r = walk(av[3])
                if r:
                    return r
            elif op is sc.BRANCH:
                for b in av[1]:
                    r = walk(b)
                    if r:
                        return r
            elif op in (sc.ASSERT, sc.ASSERT_NOT):
                r = walk(av[1])
                if r:
                    return r
        return None
    return walk(tree)


def check_regexes(run, prog):
    run.rule('D2r', 'regular expressions in the parsers have no unbounded repetition of an unbounded repetition (exponential backtracking on a short input)', 0)
    # the rule must see its positive example on every run
    if regex_trouble(r'\s*(?:[A-Za-z0-9+/]+\s*)*=') is None or regex_trouble(r'\s([^:]+):(\(.+\)|\S+)') is not None or regex_trouble(r'(?:a+b)*') is not None:
        raise AnalysisError('the regular-expression rule does not classify its own examples')
    consts = {}
    n = 0
    for f in prog.all_functions():
        m = prog.modules.get(f.module)
        for c in ast.walk(f.node):
            if isinstance(c, ast.Call) and isinstance(c.func, ast.Attribute) and isinstance(c.func.value, ast.Name) and c.func.value.id == 're' and \
                    c.func.attr in ('compile', 'match', 'fullmatch', 'search', 'sub', 'subn', 'split', 'findall', 'finditer') and c.args:
                a0 = c.args[0]
                pat = a0.value if isinstance(a0, ast.Constant) and isinstance(a0.value, (str, bytes)) else None
                if pat is None and isinstance(a0, ast.Name) and m is not None and isinstance(getattr(m, 'consts', {}).get(a0.id), ast.Constant):
                    pat = m.consts[a0.id].value
                if pat is None:
                    run.info(f'{f.qual}: regular expression {ast.unparse(a0)[:40]} is not a literal - not examined')
                    continue
                n += 1
                why = regex_trouble(pat.decode('latin-1') if isinstance(pat, bytes) else pat)
                run.check(why is None, 'D2r', f'{f.qual}[regular expression]' if why else f'regex {pat!r:.40} in {f.qual}',
                          f're.{c.func.attr}({pat!r:.60}): ' + (why + ' - a short text that almost matches is tried in exponentially many ways' if why else 'no nested unbounded repetition'),
                          prog.where(c, f.module))
    # module-level compiled patterns
    for mname, m in prog.modules.items():
        for nm, e in getattr(m, 'consts', {}).items():
            if isinstance(e, ast.Call) and isinstance(e.func, ast.Attribute) and isinstance(e.func.value, ast.Name) and e.func.value.id == 're' and e.func.attr == 'compile' \
                    and e.args and isinstance(e.args[0], ast.Constant) and isinstance(e.args[0].value, (str, bytes)):
                pat = e.args[0].value
                n += 1
                why = regex_trouble(pat.decode('latin-1') if isinstance(pat, bytes) else pat)
                run.check(why is None, 'D2r', f'{mname}.{nm}[regular expression]' if why else f'regex {pat!r:.40} ({mname}.{nm})',
                          f're.compile({pat!r:.60}): ' + (why + ' - a short text that almost matches is tried in exponentially many ways' if why else 'no nested unbounded repetition'),
                          f'pytoniq_core/{mname.replace(".", "/")}.py')
    run.ok('D2r', 'regular expressions scanned', f'{n} literal pattern(s)')


def check(run):
    sys.setrecursionlimit(50000)
    prog = Program()
    run.explanation = 'visited-guard rule over descent sites; traversal call counts on the maximal-sharing DAG family; loop iteration counts of the parsers on adversarial count/length fields.'
    run.rule('D1a', 'every descent over `.refs` (recursive call or work-list push) in the BoC code is control-dependent on a first-visit membership test; printing exempt; construction-time hashing does not recurse', 1)
    run.rule('D1b', 'traversal calls for ordering / serialising / hashing / comparing the n-cell maximal-sharing chain grow at most linearly in n (n = 5, 9, 13; thorough 6..22)', 6)
    run.rule('D2', 'no loop of the BoC / TL parsers runs more than 8 x len(input) + 64 iterations when a count or length field is set to its maximum on a short input', 10)
    run.rule('D3', 'dictionary parsers: with a label longer than the remaining key length (HmLabel constraint n <= m violated) the parse must stop - the number of parser calls on a d-level fork chain over one shared child stays linear in d', 6)
    run.rule('D2s', 'every loop whose bound is derived from the input bytes is known and covered by an adversarial scenario', 3)
    run.trust('CPython ast', 'checker interpreter (call and loop counters)', 'sa/bocspec.py encoder')
    # ---- D1a
    sites = descent_sites(prog)
    nsites = 0
    for f, call, kind, names, par, selfname in sites:
        q = f'{f.cls.name + "." if f.cls else ""}{f.name}'
        if f.name in EXEMPT:
            run.info(f'{q}: {kind} over .refs - printing, exempt (its output is as large as the unfolded tree)')
            continue
        nsites += 1
        ok = guarded(call, f.node, par, names, selfname)
        run.check(ok, 'D1a', f'{q}[{kind}]', f'{ast.unparse(call)[:60]}: ' + ('guarded by a first-visit test' if ok else 'no first-visit test dominates this descent: a shared sub-DAG is walked once per path'),
                  prog.where(call, f.module))
    # hashing at construction is not recursive: nothing reachable from Cell.__init__ iterates a *child's* refs or calls calculate_hashes on a child
    init = prog.method('Cell', '__init__')
    reach, work = set(), [init]
    while work:
        g = work.pop()
        if g.qual in reach:
            continue
        reach.add(g.qual)
        for n in ast.walk(g.node):
            if isinstance(n, ast.Call) and isinstance(n.func, ast.Attribute) and isinstance(n.func.value, ast.Name) and n.func.value.id == 'self':
                m = prog.method('Cell', n.func.attr, required=False)
                if m is not None:
                    work.append(m)
    bad = []
    for q in reach:
        g = next(f for f in prog.all_functions() if f.qual == q)
        names = refs_derived(g.node)
        for n in ast.walk(g.node):
            if isinstance(n, ast.Call) and isinstance(n.func, ast.Attribute) and mentions(n.func.value, names) and \
                    n.func.attr in ('calculate_hashes', 'calculate_representation_hash', 'get_representation', 'order', 'serialize', 'to_boc', 'resolve_mask'):
                bad.append(f'{q}: {ast.unparse(n)[:50]}')
    run.check(not bad, 'D1a', 'Cell.__init__[hashing is not recursive]', f'recomputation on children: {bad}' if bad else f'{len(reach)} methods reachable from the constructor read only cached hashes/depths/masks of the children',
              prog.where(init))
    if nsites == 0:
        run.info('no recursive / work-list descent over .refs outside printing: traversal is iterative over indices')

    # ---- D1b cost shape
    ops = {
        'Cell.order': lambda it, c: cm.call_method(it, c, 'order'),
        'Cell.to_boc': lambda it, c: cm.call_method(it, c, 'to_boc'),
        'Cell.hash / get_depth / ==': lambda it, c: (it.getattr(c, 'hash'), cm.call_method(it, c, 'get_depth', K(0)), it.cmp(ast.Eq(), c, c, None)),
        'Cell.copy / begin_parse / to_cell': lambda it, c: cm.call_method(it, cm.call_method(it, cm.call_method(it, c, 'copy'), 'begin_parse'), 'to_cell'),
        'Cell.from_boc(to_boc)': None,
        # the same DAG held in two sets of objects (two parses of one bag, a bag that was not de-duplicated): equality and hashing
        # must not unfold it either
        'Cell == equal DAG in other objects': 'pair-eq',
        'Cell.to_boc of a root over two equal DAGs in distinct objects': 'pair-boc',
    }
    sizes = (6, 10, 14, 18, 22) if run.tier == 'thorough' else (5, 9, 13)
    for name, op in ops.items():
        counts = []
        worst = None
        fail = None
        for n in sizes:
            it = CountingInterp(prog)
            it.FAST_CRC = True
            root = bocrun.build(it, sharing_chain(n))
            it.calls.clear()
            it.steps = 0
            try:
                if op is None:
                    raw, _ = bocspec.encode([sharing_chain(n)])
                    it.call(it.getattr(prog.cls('Cell'), 'from_boc'), [K(raw)], {})
                elif op in ('pair-eq', 'pair-boc'):
                    other = bocrun.build(it, sharing_chain(n))        # equal content, different objects
                    it.calls.clear()
                    if op == 'pair-eq':
                        r = it.cmp(ast.Eq(), root, other, None)
                        it.truth(r)
                    else:
                        top2 = cm.new_cell(it, cm.tvm_bits(it, BA([Seg(4, 'k', '1001')])), [root, other])
                        it.calls.clear()
                        cm.call_method(it, top2, 'to_boc')
                else:
                    op(it, root)
            except Fail as e:
                if 'step budget' in str(e) or 'depth' in str(e):
                    fail = f'n={n}: {e} after {max(it.calls.values()) if it.calls else 0} calls of {max(it.calls, key=it.calls.get) if it.calls else "?"}'
                    counts.append(max(it.calls.values()) if it.calls else 0)
                    break
                raise
            top = max(it.calls.items(), key=lambda kv: kv[1]) if it.calls else ('-', 0)
            counts.append(top[1])
            worst = top[0]
            run.evaluations += 1
            if len(counts) >= 2:
                slope = max(1.0, (counts[1] - counts[0]) / (sizes[1] - sizes[0]))
                if counts[-1] > counts[0] + 2 * slope * (sizes[len(counts) - 1] - sizes[0]) + 8 or counts[1] > 12 * max(counts[0], 8):
                    break       # already super-linear: do not walk the next (exponentially larger) size
        # linear: count(n) <= a + b*n with the slope taken from the first two sizes, generously doubled
        ok = fail is None and len(counts) == len(sizes)
        if ok:
            slope = max(1.0, (counts[1] - counts[0]) / (sizes[1] - sizes[0]))
            ok = all(counts[i] <= counts[0] + 2 * slope * (sizes[i] - sizes[0]) + 8 for i in range(len(sizes))) and counts[1] <= 12 * max(counts[0], 8)
        run.check(ok, 'D1b', f'{name.split(" ")[0]}[shared sub-DAGs]' if not ok else f'{name}: linear', f'{name} on the chain of n cells with doubled references, n={sizes[:len(counts)]}: most-called function {worst} called {counts} times' +
                  (f' ({fail})' if fail else '') + ('' if ok else ' - grows with the number of paths, not of cells'), prog.where(prog.method('Cell', 'order')))

    # ---- D2 adversarial count / length fields
    wb = prog.where(prog.method('Boc', 'deserialize_boc_header'))
    wt = prog.where(prog.method('TlSchemas', 'deserialize'))
    base, _ = bocspec.encode([SCell('10101010', [SCell('1111')])], size=4, off=4)

    def boc_variants():
        # header: magic(4) flags(1) off(1) cells(4) roots(4) absent(4) tot(4) roots...
        yield 'cells_num = 2^32-1', base[:6] + b'\xff\xff\xff\xff' + base[10:]
        yield 'roots_num = 2^32-1', base[:10] + b'\xff\xff\xff\xff' + base[14:]
        yield 'absent_num = 2^32-1', base[:14] + b'\xff\xff\xff\xff' + base[18:]
        yield 'tot_cells_size = 2^32-1', base[:18] + b'\xff\xff\xff\xff' + base[22:]
        idx, _ = bocspec.encode([SCell('10101010', [SCell('1111')])], size=4, off=4, has_idx=True)
        yield 'cells_num = 2^32-1 with index', idx[:6] + b'\xff\xff\xff\xff' + idx[10:]
        yield 'offset_bytes = 0 with index, cells_num = 2^32-1', idx[:5] + b'\x00' + b'\xff\xff\xff\xff' + idx[10:]
        yield 'size_bytes = 7', base[:4] + bytes([base[4] | 7]) + base[5:]
        yield 'offset_bytes = 255', base[:5] + b'\xff' + base[6:]
        big, _ = bocspec.encode([SCell('1' * 8)], size=1, off=1)
        yield 'cell announcing 7 references', big[:-3] + bytes([7]) + big[-2:]
        # reference cycles: a parser that waits for referenced cells to be built must not wait forever
        ch, chcells = bocspec.encode([SCell('10101010', [SCell('11110000', [SCell('00001111')])])], size=1, off=1)
        hdr_ = 4 + 1 + 1 + 3 + 1 + 1
        r0 = hdr_ + 2 + len(chcells[0].data_bytes())
        r1 = r0 + 1 + 2 + len(chcells[1].data_bytes())
        cyc = bytearray(ch)
        cyc[r1] = 0
        yield 'two cells referencing each other (0 -> 1 -> 0)', bytes(cyc)
        slf = bytearray(ch)
        slf[r1] = 1
        yield 'cell referencing itself (1 -> 1)', bytes(slf)
    for name, raw in boc_variants():
        limit = 8 * len(raw) + 64
        it = BoundedInterp(prog, limit)
        try:
            it.call(it.getattr(prog.cls('Cell'), 'from_boc'), [K(raw)], {})
            out = 'returned'
        except RaiseEx as e:
            out = f'raised {e.kind}'
        except WorkExceeded as e:
            out = None
            run.fail('D2', 'Boc.deserialize[loop bound from a header field]', f'{name} on a {len(raw)}-byte input: {e}', wb, witness=dict(boc=raw.hex()))
        except Fail as e:
            raise AnalysisError(f'BoC scenario {name}: {e}')
        if out:
            run.ok('D2', f'boc: {name}', f'{len(raw)}-byte input: {out} after {it.iterations} loop iterations in total')
        run.evaluations += 1
    # the text front end: a bag handed over as a hexadecimal or base64 text.  Malformed text (wrong number of characters, missing
    # padding, foreign characters) must be answered - accepted or refused - within the same bound; a retry loop that cannot end is the defect
    import base64 as _b64
    b64 = _b64.b64encode(base).decode()
    texts = [('base64 text', b64), ('hexadecimal text', base.hex()), ('upper-case hexadecimal text', base.hex().upper()),
             ('base64 text without its padding', b64.rstrip('=')), ('base64 text with one character too many', b64.rstrip('=') + 'A'),
             ('5 base64 characters (1 modulo 4)', 'AAAAA'), ('1 base64 character', 'A'), ('url-safe base64 text', _b64.urlsafe_b64encode(base).decode()),
             ('characters outside every alphabet', '!!!!'), ('empty text', ''), ('white space', ' \n'), ('odd number of hexadecimal digits', 'abc'),
             ('padding only', '===='), ('base64 text with padding in the middle', b64[:4] + '=' + b64[4:])]
    for name, text in texts:
        limit = 8 * len(text) + 64
        for entry in (('Cell', 'from_boc'), ('Boc', 'from_base64')):
            if prog.method(entry[0], entry[1], required=False) is None:
                continue
            it = BoundedInterp(prog, limit)
            try:
                it.call(it.getattr(prog.cls(entry[0]), entry[1]), [K(text)], {})
                out = 'returned'
            except RaiseEx as e:
                out = f'raised {e.kind}'
            except WorkExceeded as e:
                out = None
                run.fail('D2', f'{entry[0]}.{entry[1]}[text input]', f'{name} ({len(text)} characters): {e}', prog.where(prog.method('Boc', '__init__')), witness=dict(text=text))
            except Fail as e:
                raise AnalysisError(f'BoC text scenario {name}: {e}')
            if out:
                run.ok('D2', f'boc text: {name} via {entry[0]}.{entry[1]}', f'{len(text)} characters: {out} after {it.iterations} loop iterations in total')
            run.evaluations += 1
    # TL
    from .C14 import build_schemas, mk as mk14
    lines = [('x', 'test.vi items:(vector int) tail:int = test.Vi;'), ('x', 'test.vo items:(vector test.sub) = test.Vo;'), ('x', 'test.sub a:int = test.Sub;'),
             ('x', 'test.vb items:(vector test.Sub) = test.Vb;'), ('x', 'test.b data:bytes tail:int = test.B;'), ('x', 'test.vs items:(vector bytes) = test.Vs;')]
    import zlib

    def tid(l):
        return zlib.crc32(l.rstrip(';').replace('(', '').replace(')', '').encode()).to_bytes(4, 'little')
    tl_inputs = [
        ('vector of int, count 2^32-1, no items', tid(lines[0][1]) + b'\xff\xff\xff\xff'),
        ('vector of int, count 2^32-1, one item', tid(lines[0][1]) + b'\xff\xff\xff\xff' + b'\x01\x00\x00\x00'),
        ('vector of int, count 2^32-1, the only item cut short (2 of 4 bytes)', tid(lines[0][1]) + b'\xff\xff\xff\xff' + b'\x01\x00'),
        ('vector of int, count 2^32-1, one item and a half', tid(lines[0][1]) + b'\xff\xff\xff\xff' + b'\x01\x00\x00\x00\x02'),
        ('vector of int, count field cut short (3 of 4 bytes, all ones)', tid(lines[0][1]) + b'\xff\xff\xff'),
        ('vector of bare objects, count 2^32-1, one item and a half', tid(lines[1][1]) + b'\xff\xff\xff\xff' + b'\x01\x00\x00\x00\x02\x00'),
        ('vector of bytes, count 2^32-1, one string whose announced length exceeds the data', tid(lines[5][1]) + b'\xff\xff\xff\xff' + b'\x0b' + b'abc'),
        ('vector of bare objects, count 2^32-1, no items', tid(lines[1][1]) + b'\xff\xff\xff\xff'),
        ('vector of boxed objects, count 2^32-1, no items', tid(lines[3][1]) + b'\xff\xff\xff\xff'),
        ('vector of bytes, count 2^32-1, no items', tid(lines[5][1]) + b'\xff\xff\xff\xff'),
        ('bytes with 3-byte length 2^24-1, no payload', tid(lines[4][1]) + b'\xfe\xff\xff\xff'),
        ('bytes with length 253, no payload', tid(lines[4][1]) + b'\xfd'),
        ('nested bytes re-parse: unknown ids inside', tid(lines[4][1]) + b'\x0c' + b'\x01\x02\x03\x04' * 3 + b'\x00\x00\x00' + b'\x07\x00\x00\x00'),
    ]
    for name, raw in tl_inputs:
        limit = 8 * len(raw) + 64
        it = BoundedInterp(prog, limit)
        it.INJECTIVE_KEYS = True
        base_it = it
        try:
            S, _ = build_schemas(prog, it, lines)
            it.iterations = 0
            cm.call_method(it, S, 'deserialize', K(raw))
            out = 'returned'
        except RaiseEx as e:
            out = f'raised {e.kind}'
        except WorkExceeded as e:
            out = None
            run.fail('D2', 'TlSchemas.deserialize[loop bound from a length field]', f'{name} ({len(raw)} bytes): {e}', wt, witness=dict(data=raw.hex()))
        except Fail as e:
            raise AnalysisError(f'TL scenario {name}: {e}')
        if out:
            run.ok('D2', f'tl: {name}', f'{len(raw)}-byte input: {out} after {it.iterations} loop iterations')
        run.evaluations += 1
    # nested bytes fields that pack two objects each: the parser's work must grow with the length, not with 2^depth
    nlines = [('x', 'test.w data:bytes = test.W;'), ('x', 'test.nop = test.Nop;')]

    def tl_bytes(b):
        assert len(b) < 254
        body = bytes([len(b)]) + b
        return body + b'\x00' * (-len(body) % 4)
    depths = (2, 4, 6, 8) if run.tier != 'thorough' else (2, 4, 6, 8, 10, 12, 14)
    counts, lens = [], []
    failure = None
    for d in depths:
        raw = tid(nlines[0][1]) + tl_bytes(tid(nlines[1][1]))
        for _ in range(d):
            raw = tid(nlines[0][1]) + tl_bytes(raw + tid(nlines[1][1]))
        it = CountingInterp(prog)
        it.INJECTIVE_KEYS = True
        it.MAX_STEPS = 3_000_000
        try:
            S, _ = build_schemas(prog, it, nlines)
            it.calls = {}
            cm.call_method(it, S, 'deserialize', K(raw))
        except RaiseEx as e:
            failure = f'depth {d}: raised {e.kind}'
            break
        except Fail as e:
            if 'step' in str(e).lower() or 'budget' in str(e).lower():
                counts.append(max(it.calls.values() or [0]))
                lens.append(len(raw))
                failure = f'depth {d} ({len(raw)} bytes): interpretation budget of {it.MAX_STEPS} steps exhausted'
                break
            raise AnalysisError(f'TL nesting scenario depth {d}: {e}')
        counts.append(max(v for k, v in it.calls.items()))
        lens.append(len(raw))
        run.evaluations += 1
    ok = failure is None
    if ok:
        slope = max(1.0, (counts[1] - counts[0]) / (lens[1] - lens[0]))
        ok = all(counts[i] <= counts[0] + 2 * slope * (lens[i] - lens[0]) + 8 for i in range(len(lens)))
    run.check(ok, 'D2', 'TlSchemas.deserialize[nested packed bytes]' if not ok else 'tl: nested bytes fields packing two objects each',
              f'inputs of {lens} bytes (nesting {list(depths)[:len(lens)]}): most-executed call/loop runs {counts} times' + (f'; {failure}' if failure else '') +
              ('' if ok else ' - the work grows with the number of nestings exponentially, not with the length'), wt)
    # ---- D3 dictionary parsers: a label longer than the remaining key length must stop the descent
    wd = prog.where(prog.func('deserialize_hml', module='boc.hashmap.parse'))

    def dict_bomb(depth, labels_):
        root_label, fork_label = labels_
        leaf = SCell('00000010' + '0' * 256, exotic=True)        # a library cell: the parsers leave a non-ordinary cell alone
        cur = leaf
        for _ in range(depth):
            cur = SCell(fork_label, [cur, cur])                   # an empty label (n = 0) of the same kind, then a fork whose two branches are one cell
        return SCell(root_label, [cur, cur])
    # (root label, label of the fork cells: n = 0 in a length field of whatever width the parser reads there)
    labels = {'hml_short n=3 > m=2': ('0' + '1110' + '101', '00'), 'hml_long n=3 > m=2': ('10' + '11' + '101', '10' + '0' * 12),
              'hml_same n=3 > m=2': ('11' + '1' + '11', '110' + '0' * 12),
              # a unary length that is never closed (the cell ends inside the run of ones): not a label at all - a parser that takes it for one
              # of length "-1" hands every child as much key as its parent had
              'hml_short with an unterminated unary length': ('0' + '111', '0' + '111'),
              'hml_short with an unterminated unary length (longer run)': ('0' + '1' * 9, '0' + '1' * 5)}
    ddepths = (5, 9, 13) if run.tier != 'thorough' else (5, 9, 13, 17, 21)
    for entry in ('parse_hashmap', 'parse_hashmap_aug'):
        for lname, lab in labels.items():
            counts, outcome = [], []
            for d in ddepths:
                it = CountingInterp(prog)
                it.MAX_STEPS = 1_500_000
                root = bocrun.build(it, dict_bomb(d, lab))
                sl = cm.call_method(it, root, 'begin_parse')
                it.calls.clear()
                it.steps = 0
                extra = [] if entry == 'parse_hashmap' else [Native(lambda it_, a, k, n: K(0), 'x'), Native(lambda it_, a, k, n: K(0), 'y')]
                try:
                    it.call(prog.func(entry, module='boc.hashmap.parse'), [sl, K(2)] + extra, {})
                    outcome.append('returned')
                except RaiseEx as e:
                    outcome.append(f'raised {e.kind}')
                except Fail as e:
                    if 'step budget' in str(e) or 'depth' in str(e):
                        outcome.append('interpretation budget exhausted')
                        counts.append(max(it.calls.values() or [0]))
                        break
                    raise AnalysisError(f'dictionary scenario {entry} {lname} depth {d}: {e}')
                counts.append(max(it.calls.values() or [0]))
                run.evaluations += 1
                if counts[-1] > 16 * (d + 2) + 64:
                    break
            ok = len(counts) == len(ddepths) and all(c <= 16 * (d + 2) + 64 for c, d in zip(counts, ddepths))
            run.check(ok, 'D3', f'{entry}[label longer than the remaining key]' if not ok else f'dict: {entry}, {lname}',
                      f'key length 2, root label {lname}, then a chain of d forks over one shared child (d+2 cells), d={list(ddepths)[:len(counts)]}: {outcome}, most-executed call/loop runs {counts} times' +
                      ('' if ok else ' - the constraint n <= m of HmLabel is not enforced, the remaining key length goes negative and the descent no longer stops at the key length: work doubles per cell'), wd,
                      witness=dict(entry=entry, label=list(lab), depths=list(ddepths)))

    # ---- D2r regular expressions applied to input: no repetition of a repetition that can be split in exponentially many ways
    check_regexes(run, prog)

    # ---- D2s the data-bounded loops are known
    loops = data_bounded_loops(prog, ('boc.deserialize', 'tl.generator'))
    for f, n in loops:
        q = f'{f.cls.name + "." if f.cls else ""}{f.name}'
        run.ok('D2s', f'{q}:{type(n).__name__}:{ast.unparse(n.iter if isinstance(n, ast.For) else n.test if isinstance(n, ast.While) else n.generators[0].iter)[:50]}', 'bound derives from input bytes; covered by the adversarial scenarios above')
    # covered = the loop was entered while the adversarial scenarios ran (comprehensions count with their function): a statement about the
    # scenarios of this check, so a loop they do not reach is an analysis error (the check must grow a scenario), not a violation
    unknown = sorted({f.name for f, _ in loops if f.name not in LOOPED and f.name not in ('deserialize_boc_header', 'deserialize_cell', 'deserialize')})
    if unknown:
        raise AnalysisError(f'loops with input-derived bounds in functions the adversarial scenarios do not enter: {unknown}')
    run.ok('D2s', 'data-bounded loops[coverage]', f'{len(loops)} input-bounded loops, all inside the functions exercised by the scenarios')
