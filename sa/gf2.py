"""GF(2)-affine integers inside the general interpreter: a non-negative int is a vector of bits, each bit an affine form (xor of input-bit
symbols and the constant 1).  Used by C18 when a CRC routine is written in a way the length-skeleton analysis cannot parse (classes, engines,
generators ...): the routine is then interpreted on symbolic byte strings of fixed lengths and its result compared, as an affine map of all
input bits, with the bitwise definition - exact for every input of those lengths."""
import ast
from .values import *


def _c18():
    from .rules import C18
    return C18


def as_vec(v):
    C = _c18()
    if isinstance(v, GF):
        return v.vec
    if isinstance(v, K) and isinstance(v.v, int) and not isinstance(v.v, bool) and v.v >= 0:
        return C.Vec.const(v.v)
    if isinstance(v, K) and isinstance(v.v, bool):
        return C.Vec.const(int(v.v))
    return None


def wrap(vec):
    return K(vec.cval()) if vec.is_const() else GF(vec)


_LINEAR = {}


class GF:
    not_none = True

    def __init__(self, vec):
        self.vec = vec

    def abs_key(self):
        return ('gf', tuple(sorted((k, tuple(sorted(v))) for k, v in self.vec.bits.items())))

    def __repr__(self):
        return f'GF<{self.vec.width()} bits>'

    def abs_truth(self, it):
        raise Fail('truth value of a data-dependent integer (not GF(2)-affine)')

    def abs_isinstance(self, it, ty):
        return getattr(ty, 'name', None) == 'int'

    def abs_binop(self, it, op, a, b, swapped):
        va, vb = as_vec(a), as_vec(b)
        if va is None or vb is None:
            raise Fail(f'arithmetic between a data-dependent integer and {vrepr(b if a is self else a)[:30]}')
        t = type(op)
        if t is ast.BitXor:
            return wrap(va.xor(vb))
        if t is ast.LShift and vb.is_const():
            return wrap(va.shl(vb.cval()))
        if t is ast.RShift and vb.is_const():
            return wrap(va.shr(vb.cval()))
        if t is ast.BitAnd and (va.is_const() or vb.is_const()):
            return wrap(va.mask(vb.cval()) if vb.is_const() else vb.mask(va.cval()))
        if t is ast.BitOr and not (set(va.bits) & set(vb.bits)):
            return wrap(va.xor(vb))
        if t is ast.Add and not (set(va.bits) & set(vb.bits)):
            return wrap(va.xor(vb))              # disjoint supports: no carries
        if vb.is_const() and vb.cval() > 0 and vb.cval() & (vb.cval() - 1) == 0:
            sh = vb.cval().bit_length() - 1
            if t is ast.Mod:
                return wrap(va.mask(vb.cval() - 1))
            if t is ast.Mult:
                return wrap(va.shl(sh))
            if t is ast.FloorDiv:
                return wrap(va.shr(sh))
        raise Fail(f'operation {t.__name__} on data-dependent integers is not GF(2)-affine')

    def abs_cmp(self, it, op, a, b, n):
        def rng(x):
            if isinstance(x, K) and isinstance(x.v, int) and not isinstance(x.v, bool) and x.v < 0:
                return (x.v, x.v)           # a negative constant: an affine integer is never negative
            v_ = as_vec(x)
            if v_ is None:
                return None
            return (v_.cval(), v_.cval()) if v_.is_const() else (0, (1 << v_.width()) - 1)
        ra, rb = rng(a), rng(b)
        if ra is None or rb is None:
            return None
        t = type(op)
        (alo, ahi), (blo, bhi) = ra, rb
        dec = {ast.Lt: (ahi < blo, alo >= bhi), ast.LtE: (ahi <= blo, alo > bhi), ast.Gt: (alo > bhi, ahi <= blo), ast.GtE: (alo >= bhi, ahi < blo),
               ast.Eq: (False, ahi < blo or bhi < alo), ast.NotEq: (ahi < blo or bhi < alo, False)}.get(t)
        if dec is None:
            return None
        if dec[0]:
            return K(True)
        if dec[1]:
            return K(False)
        raise Fail('comparison of a data-dependent integer that its range does not decide')

    def abs_index_into(self, it, container, n):
        if isinstance(container, ListV) and all(isinstance(x, K) and isinstance(x.v, int) for x in container.items):
            table = [x.v for x in container.items]
        elif isinstance(container, K) and isinstance(container.v, (list, tuple)) and all(isinstance(x, int) for x in container.v):
            table = list(container.v)
        elif isinstance(container, K) and isinstance(container.v, (bytes, bytearray)):
            table = list(container.v)           # a table of byte values
        else:
            return None
        key = id(container)
        if key not in _LINEAR:
            nb = len(table).bit_length() - 1
            lin = len(table) >= 2 and len(table) == 1 << nb and table[0] == 0
            if lin:
                for a in range(len(table)):
                    x = 0
                    for i in range(nb):
                        if a >> i & 1:
                            x ^= table[1 << i]
                    if table[a] != x:
                        lin = False
                        break
            _LINEAR[key] = (lin, container)
        if not _LINEAR[key][0]:
            raise Fail('lookup of a data-dependent index in a table that is not GF(2)-linear')
        return wrap(_c18().lookup(table, self.vec))

    def abs_attr(self, it, a, n):
        if a == 'to_bytes':
            def to_bytes(it_, args, kw, node):
                b = dict(zip(['length', 'byteorder'], args))
                b.update(kw)
                ln, order = b.get('length', K(1)), b.get('byteorder', K('big'))
                if not (isinstance(ln, K) and isinstance(order, K)) or (b.get('signed') is not None and it_.truth(b['signed'])):
                    raise Fail('to_bytes of a data-dependent integer with symbolic length / signed')
                if not isinstance(order.v, str):
                    raise RaiseEx('TypeError', 'to_bytes() argument byteorder must be str')
                if order.v not in ('little', 'big'):
                    raise RaiseEx('ValueError', "byteorder must be either 'little' or 'big'")
                if self.vec.width() > 8 * ln.v:
                    raise RaiseEx('OverflowError', 'int too big to convert')
                return GFBytes(self.vec, ln.v, order.v)
            return Native(to_bytes, 'GF.to_bytes')
        return None


class GFBytes:
    """the bytes of an affine integer"""
    not_none = True

    def __init__(self, vec, nbytes, order):
        self.vec, self.nbytes, self.order = vec, nbytes, order

    def abs_key(self):
        return ('gfbytes', GF(self.vec).abs_key(), self.nbytes, self.order)

    def abs_len(self, it):
        return K(self.nbytes)

    def abs_isinstance(self, it, ty):
        return getattr(ty, 'name', None) == 'bytes'

    def abs_truth(self, it):
        return self.nbytes > 0


class SymBytes:
    """a byte string of known length whose bytes are the symbols b<8i> .. b<8i+7> (bit j of byte i is b<8i+j>)"""
    not_none = True

    def __init__(self, lo, hi, kind='bytes'):
        self.lo, self.hi, self.kind = lo, hi, kind

    def abs_key(self):
        return ('symbytes', self.lo, self.hi)

    def abs_len(self, it):
        return K(self.hi - self.lo)

    def abs_truth(self, it):
        return self.hi > self.lo

    def abs_isinstance(self, it, ty):
        nm = getattr(ty, 'name', None)
        return nm == self.kind if nm in ('bytes', 'bytearray') else (False if nm in ('str', 'int', 'list', 'tuple', 'dict', 'memoryview') else None)

    def byte(self, i):
        C = _c18()
        return GF(C.Vec({j: frozenset([f'b{8 * i + j}']) for j in range(8)}))

    def abs_iter(self, it):
        return [self.byte(i) for i in range(self.lo, self.hi)]

    def abs_item(self, it, i, n):
        if isinstance(i, K) and isinstance(i.v, int):
            k = i.v + (self.hi - self.lo) if i.v < 0 else i.v
            if not 0 <= k < self.hi - self.lo:
                raise RaiseEx('IndexError', 'index out of range')
            return self.byte(self.lo + k)
        raise Fail('data-dependent index into the input')

    def abs_slice(self, it, lo, hi, st, n):
        if not all(isinstance(x, K) for x in (lo, hi, st)) or st.v not in (None, 1):
            raise Fail('symbolic / strided slice of the input')
        a, b, _ = slice(lo.v, hi.v).indices(self.hi - self.lo)
        return SymBytes(self.lo + a, self.lo + max(a, b), self.kind)

    def abs_attr(self, it, a, n):
        if a in ('tobytes', 'toreadonly', 'cast', '__enter__'):
            return Native(lambda it_, args, kw, node: self, 'symbytes.' + a)
        if a in ('release', '__exit__'):
            return Native(lambda it_, args, kw, node: K(None), 'symbytes.' + a)
        return None


def builtin_hook(it):
    def hook(name, args, kw, n):
        if name in ('bytes', 'bytearray', 'memoryview') and len(args) == 1 and isinstance(args[0], SymBytes):
            return args[0] if name == 'memoryview' else SymBytes(args[0].lo, args[0].hi, name)
        if name == 'int.from_bytes' and args and isinstance(args[0], SymBytes):
            b = dict(zip(['bytes', 'byteorder'], args))
            b.update(kw)
            order = b.get('byteorder', K('big'))
            if not isinstance(order, K) or (b.get('signed') is not None and it.truth(b['signed'])):
                raise Fail('int.from_bytes of the input with symbolic byte order / signed')
            s = args[0]
            C = _c18()
            bits = {}
            k = s.hi - s.lo
            for i in range(k):
                pos = i if order.v == 'little' else k - 1 - i
                for j in range(8):
                    bits[8 * pos + j] = frozenset([f'b{8 * (s.lo + i) + j}'])
            return wrap(C.Vec(bits))
        if name in ('bytes', 'bytearray') and len(args) == 1 and isinstance(args[0], ListV) and args[0].items and \
                any(isinstance(x, GF) for x in args[0].items) and all(as_vec(x) is not None for x in args[0].items):
            # bytes((hi, lo)): every item one byte value, first item first
            C = _c18()
            acc = C.Vec.const(0)
            for x in args[0].items:
                v_ = as_vec(x)
                if v_.width() > 8:
                    raise RaiseEx('ValueError', 'bytes must be in range(0, 256)')
                acc = acc.shl(8).xor(v_)
            return GFBytes(acc, len(args[0].items), 'big')
        if name == 'type' and len(args) == 1 and isinstance(args[0], SymBytes):
            from .values import Builtin
            return Builtin(args[0].kind)
        return None
    return hook


def ext_hook(it):
    """library calls on affine integers: struct.pack of one unsigned integer is its bytes in the format's byte order"""
    sizes = {'B': 1, 'H': 2, 'I': 4, 'L': 4, 'Q': 8}

    def hook(dotted, args, kw, n):
        if dotted == 'struct.pack' and len(args) == 2 and isinstance(args[0], K) and isinstance(args[0].v, (str, bytes)) and isinstance(args[1], GF):
            fmt = args[0].v if isinstance(args[0].v, str) else args[0].v.decode()
            if len(fmt) == 2 and fmt[0] in '<>!' and fmt[1] in sizes:
                nb = sizes[fmt[1]]
                if args[1].vec.width() > 8 * nb:
                    raise RaiseEx('error', f'struct.error: argument out of range for {fmt!r}')
                return GFBytes(args[1].vec, nb, 'little' if fmt[0] == '<' else 'big')
            raise Fail(f'struct.pack({fmt!r}) of a data-dependent integer')
        if dotted in ('operator.index', 'operator.__index__') and len(args) == 1 and isinstance(args[0], GF):
            return args[0]
        if dotted in ('struct.iter_unpack', 'struct.unpack', 'struct.unpack_from') and len(args) >= 2 and isinstance(args[0], K) and isinstance(args[1], SymBytes):
            # the input cut into unsigned integers of 1 / 2 / 4 / 8 bytes in the format's byte order
            import re as _re
            fmt = args[0].v if isinstance(args[0].v, str) else args[0].v.decode()
            order = 'little' if fmt[:1] == '<' else 'big'
            body = fmt[1:] if fmt[:1] in '<>!=@' else fmt
            items = []
            for cnt, code in _re.findall(r'(\d*)([BHILQ])', body):
                items += [sizes[code]] * (int(cnt) if cnt else 1)
            if not items or _re.sub(r'\d*[BHILQ]', '', body) or (fmt[:1] in ('', '@', '=') and fmt[:1] not in '<>!' and any(x > 1 for x in items) and fmt[:1] != '='):
                raise Fail(f'struct format {fmt!r} over the input is not modelled')
            size = sum(items)
            src = args[1]
            if dotted == 'struct.unpack_from':
                off = args[2].v if len(args) > 2 and isinstance(args[2], K) else 0
                src = SymBytes(src.lo + off, src.lo + off + size, src.kind)
            n_ = src.hi - src.lo
            if dotted == 'struct.iter_unpack' and (size == 0 or n_ % size):
                raise RaiseEx('error', f'struct.error: iterative unpacking requires a buffer of a multiple of {size} bytes')
            if dotted != 'struct.iter_unpack' and n_ != size:
                raise RaiseEx('error', f'struct.error: unpack requires a buffer of {size} bytes')
            C = _c18()

            def chunk(base):
                out, pos = [], base
                for w in items:
                    bits = {}
                    for i in range(w):
                        p_ = i if order == 'little' else w - 1 - i
                        for j in range(8):
                            bits[8 * p_ + j] = frozenset([f'b{8 * (pos + i) + j}'])
                    out.append(GF(C.Vec(bits)))
                    pos += w
                return ListV(out, tup=True)
            if dotted == 'struct.iter_unpack':
                return ListV([chunk(src.lo + k * size) for k in range(n_ // size)])
            return chunk(src.lo)
        return None
    return hook


def spec_fold(spec, n):
    """the bitwise definition applied to the n symbolic bytes, from the initial value, final xor included - as a Vec over b*"""
    C = _c18()
    specv, W = C.spec_vec(spec), spec['w']
    cur = C.Vec.const(spec['init'])
    for i in range(n):
        out = {}
        for bit, form in specv.items():
            acc = frozenset()
            for sym in form:
                if sym == C.ONE:
                    acc = acc ^ frozenset([C.ONE])
                elif sym[0] == 's':
                    acc = acc ^ cur.bits.get(int(sym[1:]), frozenset())
                else:
                    acc = acc ^ frozenset([f'b{8 * i + int(sym[1:])}'])
            if acc:
                out[bit] = acc
        cur = C.Vec(out)
    return cur.xor(C.Vec.const(spec['xorout']))
