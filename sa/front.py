"""E1 front end: loads every module of /repo/pytoniq_core with `ast` (never imports it); symbol tables, class hierarchy,
import resolution inside the package, light receiver typing and a resolved call graph."""
import ast
import os
from .core import PKG, AnalysisError


class ClassRef:
    def __init__(self, name, node, module):
        self.name, self.node, self.module = name, node, module
        self.methods = {n.name: n for n in node.body if isinstance(n, (ast.FunctionDef, ast.AsyncFunctionDef))}
        # several defs with one name (property + setter): keep all
        self.all_defs = {}
        for n in node.body:
            if isinstance(n, (ast.FunctionDef, ast.AsyncFunctionDef)):
                self.all_defs.setdefault(n.name, []).append(n)
        self.keywords = {k.arg: k.value for k in getattr(node, 'keywords', []) if k.arg and k.arg != 'metaclass'}
        self.bases = []
        for b in node.bases:
            if isinstance(b, ast.Name):
                self.bases.append(b.id)
            elif isinstance(b, ast.Attribute):
                self.bases.append(b.attr)
        # classes defined in the class body (in scope for the rest of the body, attributes of the class afterwards)
        self.nested = {n.name: ClassRef(n.name, n, module) for n in node.body if isinstance(n, ast.ClassDef)}
        self.class_attrs = {}
        for n in node.body:
            if isinstance(n, ast.Assign):
                for t in n.targets:
                    if isinstance(t, ast.Name):
                        self.class_attrs[t.id] = n.value
                    elif isinstance(t, (ast.Tuple, ast.List)) and all(isinstance(e, ast.Name) for e in t.elts):
                        # `A, B, C = 0, 1, 2` in a class body: each name is the matching item of the value
                        for i, e in enumerate(t.elts):
                            self.class_attrs[e.id] = ast.copy_location(ast.Subscript(value=n.value, slice=ast.Constant(value=i), ctx=ast.Load()), n.value)
            elif isinstance(n, ast.AnnAssign) and isinstance(n.target, ast.Name) and n.value is not None:
                self.class_attrs[n.target.id] = n.value

    @property
    def qual(self):
        return f'{self.module}.{self.name}'

    def __repr__(self):
        return f'<class {self.name}>'


class FuncRef:
    def __init__(self, node, module, cls=None, closure=None):
        self.node, self.module, self.cls, self.closure = node, module, cls, closure
        if closure is None and cls is not None and getattr(cls, 'closure', None) is not None:
            self.closure = cls.closure       # methods of a class defined inside a function see that function's locals

    @property
    def name(self):
        return getattr(self.node, 'name', '<lambda>')

    @property
    def qual(self):
        if self.cls is not None:
            return f'{self.module}.{self.cls.name}.{self.name}'
        return f'{self.module}.{self.name}'

    def decorators(self):
        out = set()
        for d in getattr(self.node, 'decorator_list', []):
            if isinstance(d, ast.Name):
                out.add(d.id)
            elif isinstance(d, ast.Attribute):
                out.add(d.attr)
        return out

    def __repr__(self):
        return f'<func {self.qual}>'


class Module:
    def __init__(self, name, path, src, tree):
        self.name, self.path, self.src, self.tree = name, path, src, tree
        self.imports = {}     # local name -> (module, name) inside the package, or ('<ext>', dotted)
        self.consts = {}      # NAME -> ast expr (module-level simple assignments)
        self.late_attrs = {}   # (class name, attribute) -> ast expr assigned at module level after the class body
        self.dynamic_stmts = []  # module-level control-flow statements, in source order (interpreted when one of the names they bind is looked up)
        self.unindexed = set()  # names bound at module level by statements the index does not follow (if / try / for / with / augmented assignment)
        self.classes = {}
        self.funcs = {}


class Program:
    def __init__(self, pkg=None):
        self.pkg = pkg or PKG
        if not os.path.isdir(self.pkg):
            raise AnalysisError(f'package directory {self.pkg} not found')
        self.modules = {}
        self.classes = {}     # bare name -> ClassRef (collisions -> list in self.class_dups)
        self.class_dups = {}
        self.funcs = {}       # bare name -> FuncRef (module level)
        self.func_dups = {}
        for root, dirs, files in os.walk(self.pkg):
            dirs[:] = [d for d in dirs if d != '__pycache__']
            for f in sorted(files):
                if not f.endswith('.py'):
                    continue
                p = os.path.join(root, f)
                rel = os.path.relpath(p, self.pkg)[:-3].replace(os.sep, '.')
                if rel.endswith('__init__'):
                    rel = rel[:-len('.__init__')] if rel != '__init__' else ''
                src = open(p, encoding='utf-8').read()
                try:
                    tree = ast.parse(src, filename=p)
                except SyntaxError as e:
                    raise AnalysisError(f'{p}: does not parse: {e}')
                m = Module(rel, p, src, tree)
                self.modules[rel] = m
        for m in self.modules.values():
            self._index(m)

    def _index(self, m):
        for n in m.tree.body:
            if isinstance(n, ast.ClassDef):
                c = ClassRef(n.name, n, m.name)
                m.classes[n.name] = c
                if n.name in self.classes:
                    self.class_dups.setdefault(n.name, [self.classes[n.name]]).append(c)
                else:
                    self.classes[n.name] = c
            elif isinstance(n, (ast.FunctionDef, ast.AsyncFunctionDef)):
                f = FuncRef(n, m.name)
                m.funcs[n.name] = f
                if n.name in self.funcs:
                    self.func_dups.setdefault(n.name, [self.funcs[n.name]]).append(f)
                else:
                    self.funcs[n.name] = f
            elif isinstance(n, ast.Assign):
                for t in n.targets:
                    if isinstance(t, ast.Name):
                        m.consts[t.id] = n.value
                    elif isinstance(t, (ast.Tuple, ast.List)) and all(isinstance(e, ast.Name) for e in t.elts):
                        # a, b = expr: each name is item i of the value
                        for i, e in enumerate(t.elts):
                            sub = ast.Subscript(value=n.value, slice=ast.Constant(value=i), ctx=ast.Load())
                            ast.copy_location(sub, n)
                            ast.fix_missing_locations(sub)
                            m.consts[e.id] = sub
                    elif isinstance(t, ast.Attribute) and isinstance(t.value, ast.Name):
                        # Class.attr = expr at module level (tables filled in once all classes exist): the class attribute is rebound
                        m.late_attrs[(t.value.id, t.attr)] = n.value
                    else:
                        for e in ast.walk(t):
                            if isinstance(e, ast.Name):
                                m.unindexed.add(e.id)
            elif isinstance(n, ast.AnnAssign) and isinstance(n.target, ast.Name) and n.value is not None:
                m.consts[n.target.id] = n.value
            elif isinstance(n, (ast.If, ast.Try, ast.For, ast.While, ast.With, ast.AugAssign, ast.Delete)):
                m.dynamic_stmts.append(n)
                # names bound by module-level control flow are not indexed: looking one up is an analysis error, never a silent guess
                for e in ast.walk(n):
                    if isinstance(e, ast.Name) and isinstance(e.ctx, (ast.Store, ast.Del)):
                        m.unindexed.add(e.id)
                    elif isinstance(e, (ast.FunctionDef, ast.ClassDef)):
                        m.unindexed.add(e.name)
        for n in ast.walk(m.tree):
            if isinstance(n, ast.ImportFrom):
                base = m.name.split('.') if m.name else []
                is_pkg = m.path.endswith('__init__.py')
                if n.level:
                    pkgparts = base if is_pkg else base[:-1]
                    parts = pkgparts[:len(pkgparts) - (n.level - 1)] if n.level > 1 else pkgparts
                    tgt = '.'.join(parts + (n.module.split('.') if n.module else []))
                    for a in n.names:
                        m.imports[a.asname or a.name] = (tgt, a.name)
                else:
                    for a in n.names:
                        m.imports[a.asname or a.name] = ('<ext>', f'{n.module}.{a.name}')
            elif isinstance(n, ast.Import):
                for a in n.names:
                    m.imports[a.asname or a.name.split('.')[0]] = ('<ext>', a.name)

    # ---- lookup
    def module(self, name):
        if name not in self.modules:
            raise AnalysisError(f'anchor module {name} not found')
        return self.modules[name]

    def cls(self, name, required=True):
        c = self.classes.get(name)
        if c is None and required:
            raise AnalysisError(f'anchor class {name} not found')
        return c

    def find_method(self, cls, name):
        """MRO walk (single inheritance chains inside the package). -> (ClassRef, FunctionDef) or (None, None)"""
        for c in self.mro(cls):
            if name in c.methods:
                return c, c.methods[name]
        return None, None

    def mro(self, cls):
        out, seen, work = [], set(), [cls]
        while work:
            c = work.pop(0)
            if c is None or c.name in seen:
                continue
            seen.add(c.name)
            out.append(c)
            work = [x for x in (self._base(c, b) for b in c.bases) if x is not None] + work
        return out

    def _base(self, c, b):
        """the package class a base-class name of `c` denotes (classes defined inside functions resolve through the defining frame)"""
        fr = getattr(c, 'closure', None)
        if fr is not None and fr.has(b):
            v = fr.lookup(b)
            return v if isinstance(v, ClassRef) else None
        return self.classes.get(b)

    def ext_bases(self, cls):
        """names of base classes that are not defined in the package (library bases)"""
        out = []
        for c in self.mro(cls):
            for b in c.bases:
                if self._base(c, b) is None:
                    out.append(b)
        return out

    def method(self, clsname, name, required=True):
        c = self.cls(clsname, required)
        if c is None:
            return None
        oc, fn = self.find_method(c, name)
        if fn is None:
            # a method bound by a class-level assignment (`load_uint = _consuming('preload_uint')`): an anchor for locations; calls go
            # through the interpreter's attribute lookup, which evaluates the class attribute
            for k in self.mro(c):
                if name in k.class_attrs:
                    return AttrAnchor(k.class_attrs[name], k.module, k, name)
            if required:
                raise AnalysisError(f'anchor {clsname}.{name} not found')
            return None
        return FuncRef(fn, oc.module, oc)

    def func(self, name, required=True, module=None):
        if module is not None:
            f = self.modules.get(module).funcs.get(name) if module in self.modules else None
        else:
            f = self.funcs.get(name)
        if f is None and required:
            raise AnalysisError(f'anchor function {name} not found')
        return f

    def is_subclass(self, cls, basename):
        return any(c.name == basename for c in self.mro(cls)) or basename in self.ext_bases(cls)

    def subclasses(self, basename):
        return [c for c in self.classes.values() if c.name != basename and self.is_subclass(c, basename)]

    def all_classes(self):
        """every module-level class of the package"""
        return [c for m in self.modules.values() for c in m.classes.values()]

    def all_functions(self):
        """every def in the package (module-level, methods, nested) as FuncRef"""
        out = []
        for m in self.modules.values():
            for n in m.tree.body:
                if isinstance(n, (ast.FunctionDef, ast.AsyncFunctionDef)):
                    out.append(FuncRef(n, m.name))
                elif isinstance(n, ast.ClassDef):
                    c = m.classes[n.name]
                    for x in n.body:
                        if isinstance(x, (ast.FunctionDef, ast.AsyncFunctionDef)):
                            out.append(FuncRef(x, m.name, c))
        return out

    def where(self, f_or_node, module=None):
        if isinstance(f_or_node, (FuncRef, AttrAnchor)):
            m = self.modules.get(f_or_node.module)
            p = os.path.relpath(m.path, os.path.dirname(self.pkg)) if m else f_or_node.module
            return f'{p}:{getattr(f_or_node.node, "lineno", 0)}'
        m = self.modules.get(module) if module is not None else None
        p = os.path.relpath(m.path, os.path.dirname(self.pkg)) if m else (module or '?')
        return f'{p}:{getattr(f_or_node, "lineno", 0)}'


class AttrAnchor:
    """a class attribute that holds a callable built by an expression (not a def): carries the location only"""
    def __init__(self, node, module, cls, name):
        self.node, self.module, self.cls, self.name = node, module, cls, name
        self.qual = f'{cls.name}.{name}'

    def decorators(self):
        return []


# ------------------------------------------------------------------ small syntactic helpers used by several rules
def calls_in(node):
    return [n for n in ast.walk(node) if isinstance(n, ast.Call)]


def call_name(call):
    f = call.func
    if isinstance(f, ast.Name):
        return f.id
    if isinstance(f, ast.Attribute):
        return f.attr
    return None


def dotted(node):
    if isinstance(node, ast.Name):
        return node.id
    if isinstance(node, ast.Attribute):
        b = dotted(node.value)
        return f'{b}.{node.attr}' if b else None
    return None


def norm_src(node):
    """normalised statement text (stable under formatting)"""
    return ast.unparse(node)
