"""E4: TL-B parser (tokeniser + recursive descent) for block.tlb and the TL-B docstrings of the tlb classes."""
import re, sys, zlib
TOK = re.compile(r'\s*(//[^\n]*|/\*.*?\*/|\^\[|##|#<=|#<|<=|>=|!=|!?[A-Za-z_][A-Za-z0-9_]*[#$][0-9a-fA-F_]*|[A-Za-z_!][A-Za-z0-9_]*|[0-9]+|[{}()\[\]:;=?^~.+*#<>])', re.S)
def tokenize(src):
    pos=0; out=[]
    while pos < len(src):
        m = TOK.match(src, pos)
        if not m:
            if src[pos:].strip()=='' : break
            raise SyntaxError(src[pos:pos+40])
        pos = m.end(); t = m.group(1)
        if t.startswith('//') or t.startswith('/*'): continue
        out.append(t)
    return out
class P:
    def __init__(s, toks): s.t=toks; s.i=0
    def peek(s, k=0): return s.t[s.i+k] if s.i+k < len(s.t) else None
    def eat(s, x=None):
        t=s.peek()
        if x is not None and t!=x: raise SyntaxError(f'expected {x} got {t} at {s.t[max(0,s.i-8):s.i+5]}')
        s.i+=1; return t
    def decls(s):
        r=[]
        while s.peek() is not None: r.append(s.decl())
        return r
    def decl(s):
        start=s.i
        name=s.eat(); tag=None
        if '#' in name or '$' in name:
            m=re.match(r'(.*?)([#$])(.*)$', name); name, kind, tag = m.group(1), m.group(2), m.group(3); tag=(kind,tag)
        fields=s.fields('=')
        s.eat('=')
        tname=s.eat(); args=[]
        while s.peek()!=';': args.append(s.atom())
        s.eat(';')
        return dict(name=name, tag=tag, fields=fields, type=tname, args=args, toks=s.t[start:s.i])
    def fields(s, end):
        fs=[]
        while s.peek()!=end:
            fs.append(s.field())
        return fs
    def field(s):
        t=s.peek()
        if t=='{':
            s.eat()
            # implicit or constraint
            if s.peek(1)==':' :
                n=s.eat(); s.eat(':'); ty=s.texpr(); s.eat('}'); return ('implicit', n, ty)
            e=[]
            while s.peek()!='}': e.append(s.eat())
            s.eat('}'); return ('constraint', e)
        if t=='^[':
            s.eat(); fs=s.fields(']'); s.eat(']'); return ('field', None, ('ref', ('anon', fs)))
        if s.peek(1)==':' :
            n=s.eat(); s.eat(':'); return ('field', n, s.texpr())
        return ('field', None, s.texpr())
    def texpr(s):
        # cond?type
        l=s.addexpr()
        if s.peek()=='?':
            s.eat(); r=s.texpr(); return ('cond', l, r)
        return l
    def addexpr(s):
        l=s.mulexpr()
        while s.peek()=='+':
            s.eat(); l=('add', l, s.mulexpr())
        return l
    def mulexpr(s):
        l=s.dot()
        while s.peek()=='*':
            s.eat(); l=('mul', l, s.dot())
        return l
    def dot(s):
        l=s.atom()
        while s.peek()=='.':
            s.eat(); l=('bit', l, s.atom())
        return l
    def atom(s):
        t=s.peek()
        if t=='(':
            s.eat(); items=[]
            while s.peek()!=')': items.append(s.texpr())
            s.eat(')')
            return items[0] if len(items)==1 else ('app', items)
        if t=='^[':
            s.eat(); fs=s.fields(']'); s.eat(']'); return ('ref', ('anon', fs))
        if t=='[':
            s.eat(); fs=s.fields(']'); s.eat(']'); return ('anon', fs)
        if t=='^':
            s.eat(); return ('ref', s.atom())
        if t=='~':
            s.eat(); return ('neg', s.atom())
        s.eat()
        if t.isdigit(): return ('num', int(t))
        return ('id', t)
