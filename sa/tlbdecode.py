"""Schema-directed decoding of a cell *built by interpreting the package's writers* (Builder.store_* run by sa/interp.py, so the
bit container is a list of typed segments): the specification side reads the cell the way block.tlb prescribes and reports
what each field contains.  A writer conforms iff the decoder can consume the cell exactly.

The lowering (FIELD -> tokens, conditional fields, type arguments, tags) is shared with sa/tlbslice.py; here constructor
alternatives, Maybe/Either/dictionary presence are chosen by the bits actually written, not by an oracle."""
from .values import *
from .tlbslice import AbsSlice, Tok, match_args, SchemaDB, nat


class View:
    """read cursor over an interpreted cell (bits: typed segments; refs: cells)"""
    def __init__(s, it, cell):
        s.it = it
        s.cell = cell
        bits = it.getattr(cell, 'bits')
        nat_ = bits.native if isinstance(bits, Inst) else bits
        if not isinstance(nat_, BA):
            raise Fail(f'cell bits are not modelled: {bits!r}')
        s.ba = nat_.copy()
        s.pos = 0
        refs = it.getattr(cell, 'refs')
        s.refs = list(refs.items)
        off = cell.attrs.get('ref_offset') if isinstance(cell, Inst) else None
        s.rpos = off.v if isinstance(off, K) else 0

    def left(s):
        return len(s.ba) - s.pos

    def peek_known(s, n):
        """the next n bits if they are all known constants, else None (shorter if the cell ends)"""
        part = s.ba.slice(s.pos, s.pos + n)
        return part.pattern() if part.known() else None

    def read(s, n, what):
        if n > s.left():
            raise Mismatch(f'{what}: the cell has only {s.left()} more bit(s), the schema needs {n}')
        part = s.ba.slice(s.pos, s.pos + n)
        # segments must start at the cursor for a typed value to be recognised
        s.pos += n
        return part

    def next_ref(s, what):
        if s.rpos >= len(s.refs):
            raise Mismatch(f'{what}: the cell has no more references')
        r = s.refs[s.rpos]
        s.rpos += 1
        return r

    def done(s):
        return s.left() == 0 and s.rpos == len(s.refs)


class Decoder(AbsSlice):
    def __init__(s, it, db, toks, env, view, label=''):
        super().__init__(it, db, toks, env, label)
        s.view = view
        s.out = []          # (field name, value) in schema order

    # ---- data-driven choices
    def expand_type(s, i):
        t = s.toks[i]
        cons = s.db.types.get(t.t)
        if not cons:
            raise Fail(f'unknown TL-B type {t.t}')
        cons = [c for c in cons if match_args(c, t.args) is not None]
        fits = []
        for c in cons:
            tb = s.db.tag_bits(c)
            if not tb:
                fits.append(c)
                continue
            nxt = s.view.peek_known(len(tb))
            if nxt is None:
                raise Mismatch(f'{t.t}: the constructor tag is not written as constant bits ({s.label})')
            if nxt == tb:
                fits.append(c)
        if len(fits) != 1:
            nxt = s.view.peek_known(8)
            raise Mismatch(f'{t.t}: the written bits {nxt!r}... select {len(fits)} constructor(s) of {[c["name"] for c in cons]} ({s.label})')
        saved = Tok('ENV', env=dict(s.env), con='<restore>', discr=dict(s.discr))
        s.toks[i:i + 1] = s.constructor_tokens(fits[0], t.args) + [saved]

    def presence(s, i, t):
        b = s.view.peek_known(1)
        if b is None or b == '':
            raise Mismatch(f'{t.kind.lower()} {t.name}: the presence bit is not a constant bit ({s.label})')
        b = int(b)
        new = [Tok('TAG', bits=str(b), con=t.kind, name=t.name, orig=t)]
        if t.kind == 'MAYBE':
            if b:
                new += s.lower(t.inner, t.name)
        elif t.kind == 'EITHER':
            new += s.lower(t.r if b else t.l, t.name)
        else:
            if b:
                new.append(Tok('REF', inner=('dictroot', t), name=t.name, env=dict(s.env), discr={}))
            if t.kind == 'HASHMAPAUGE':
                new += s.lower(t.y, (t.name or '') + '.extra')
        s.toks[i:i + 1] = new

    # ---- the walk
    def typed(s, part, ty, n, name):
        """value of an n-bit field from the segments written there"""
        if part.known():
            pat = part.pattern()
            if ty == 'bits':
                return K(pat)
            v = int(pat, 2) if pat else 0
            if ty == 'int' and pat and pat[0] == '1':
                v -= 1 << n
            return K(v)
        if len(part.segs) == 1:
            sg = part.segs[0]
            if sg.kind in ('u', 'i') and sg.n == n:
                if ty == 'uint' and sg.kind == 'i' or ty == 'int' and sg.kind == 'u':
                    raise Mismatch(f'field {name}:{ty}{n} is written with store_{"int" if sg.kind == "i" else "uint"} (signedness)')
                return sg.val
            if sg.kind == 'b' and ty == 'bits':
                return sg.val
            if sg.kind == '?' and ty == 'bits':
                return sg.val if sg.val is not None else Sym('bits')
            if sg.kind == '?' and sg.n == n:
                return sg.val if sg.val is not None else Sym('bits')
        if ty == 'bits':
            return Term('bits', K(part.desc()))
        raise Mismatch(f'field {name}:{ty}{n} is not written by one store of that width (found {part.desc()})')

    def run(s):
        i = 0
        v = s.view
        while True:
            i = s.first('seq')
            if i is None:
                break
            t = s.toks[i]
            k = t.kind
            if k == 'TAG':
                got = v.read(len(t.bits), f'tag of {t.con}')
                if not got.known() or got.pattern() != t.bits:
                    raise Mismatch(f'tag of {t.con}: wrote {got.pattern() if got.known() else got.desc()}, schema says {t.bits} ({s.label})')
                s.toks.pop(i)
            elif k == 'TYPE':
                s.expand_type(i)
            elif k in ('MAYBE', 'EITHER', 'HASHMAPE', 'HASHMAPAUGE'):
                s.presence(i, t)
            elif k == 'PRIM':
                if t.n is None:
                    raise Fail(f'symbolic field width {t}')
                part = v.read(t.n, f'field {t.name}:{t.ty}{t.n}')
                val = s.typed(part, t.ty, t.n, t.name)
                if t.name in s.discr:
                    if not (isinstance(val, K) and isinstance(val.v, int)):
                        raise Fail(f'discriminator field {t.name} written with a symbolic value')
                    s.env[t.name] = val.v
                s.out.append((t.name, val))
                s.toks.pop(i)
            elif k in ('VARU', 'VARI'):
                lp = v.read(t.l, f'length prefix of {t.name}')
                if not lp.known():
                    raise Mismatch(f'{t.name}: the {t.l}-bit length prefix is not constant bits')
                ln = int(lp.pattern(), 2) if lp.pattern() else 0
                part = v.read(8 * ln, f'{t.name} value') if ln else BA()
                val = s.typed(part, 'uint' if k == 'VARU' else 'int', 8 * ln, t.name) if ln else K(0)
                if isinstance(val, K) and ln:
                    # minimal length: the top byte must be significant
                    x = val.v
                    minimal = (x.bit_length() + 7) // 8 == ln if k == 'VARU' else (((x if x >= 0 else ~x).bit_length() + 8) // 8 == ln)
                    if not minimal:
                        raise Mismatch(f'{t.name}: value {x} written with a {ln}-byte length (not minimal)')
                s.out.append((t.name, val))
                s.toks.pop(i)
            elif k == 'ADDR':
                s.out.append((t.name, s.address(t)))
                s.toks.pop(i)
            elif k == 'REF':
                r = v.next_ref(f'reference {t.name}')
                s.toks.pop(i)
                if t.inner[0] == 'dictroot' or (t.inner[0] == 'id' and t.inner[1] in ('Cell', 'Any')):
                    s.out.append((t.name, r))
                else:
                    sub = Decoder(s.it, s.db, [Tok('FIELD', name=t.name, te=t.inner)], t.env, View(s.it, r), f'{s.label}/{t.name}')
                    sub.discr = dict(getattr(t, 'discr', None) or {})
                    sub.run()
                    s.out.append((t.name, sub.out))
            elif k == 'ANY':
                rest = v.read(v.left(), 'rest')
                refs = []
                while v.rpos < len(v.refs):
                    refs.append(v.next_ref('rest'))
                s.out.append((t.name, ('any', rest.desc(), len(refs))))
                s.toks.pop(i)
            elif k in ('HASHMAP', 'HASHMAPAUG'):
                v.read(v.left(), 'inline dictionary')
                while v.rpos < len(v.refs):
                    v.next_ref('inline dictionary')
                s.out.append((t.name, 'inline-dict'))
                s.toks.pop(i)
            else:
                raise Fail(f'decoder: token {t}')
        if not v.done():
            raise Mismatch(f'{s.label}: the writer emitted {v.left()} bit(s) / {len(v.refs) - v.rpos} reference(s) beyond what the schema describes')
        return s.out

    def first(s, want):
        if want != 'seq':
            return super().first(want)
        i = 0
        while i < len(s.toks):
            t = s.toks[i]
            if t.kind == 'FIELD':
                s.toks[i:i + 1] = s.lower(t.te, t.name)
                continue
            if t.kind == 'CONSTRAINT':
                s.toks.pop(i)
                continue
            if t.kind == 'ENV':
                s.env = dict(t.env)
                s.discr = dict(t.discr)
                s.toks.pop(i)
                continue
            return i
        return None

    def address(s, t):
        v = s.view
        tag = v.read(2, f'{t.name} address tag')
        if not tag.known():
            raise Mismatch(f'{t.name}: the address tag is not constant bits')
        tg = tag.pattern()
        if tg == '00':
            if t.which == 'MsgAddressInt':
                raise Mismatch(f'{t.name}: addr_none written where MsgAddressInt is required')
            return ('addr_none',)
        if tg == '01':
            if t.which == 'MsgAddressInt':
                raise Mismatch(f'{t.name}: addr_extern written where MsgAddressInt is required')
            ln = v.read(9, 'addr_extern len')
            if not ln.known():
                raise Mismatch('addr_extern length not constant')
            n = int(ln.pattern(), 2)
            return ('addr_extern', n, s.typed(v.read(n, 'external address'), 'bits', n, 'external_address') if n else K(''))
        if tg == '10':
            if t.which == 'MsgAddressExt':
                raise Mismatch(f'{t.name}: addr_std written where MsgAddressExt is required')
            any_ = v.read(1, 'anycast presence')
            if not any_.known():
                raise Mismatch('anycast presence bit not constant')
            ac = None
            if any_.pattern() == '1':
                d = v.read(5, 'anycast depth')
                dn = int(d.pattern(), 2)
                ac = (dn, s.typed(v.read(dn, 'rewrite_pfx'), 'bits', dn, 'rewrite_pfx'))
            wc = s.typed(v.read(8, 'workchain_id'), 'int', 8, 'workchain_id')
            h = s.typed(v.read(256, 'address'), 'bits', 256, 'address')
            return ('addr_std', ac, wc, h)
        raise Mismatch(f'{t.name}: address tag {tg} (addr_var) is not produced by a conforming writer of this library')


def decode(it, db, cell, tname, args=()):
    """decode `cell` as a value of TL-B type tname(args) -> list of (field, value); raises Mismatch"""
    d = Decoder(it, db, [Tok('TYPE', t=tname, args=list(args), name=None)], {}, View(it, cell), tname)
    return d.run()


def flat(out, prefix=''):
    """(field path, value) pairs of a decode result"""
    res = []
    for name, v in out:
        p = f'{prefix}{name}' if name else prefix.rstrip('.')
        if isinstance(v, list) and v and isinstance(v[0], tuple) and len(v[0]) == 2 and (isinstance(v[0][0], str) or v[0][0] is None):
            res += flat(v, p + '.')
        else:
            res.append((p, v))
    return res
