"""Re-evaluates every seeded regression under /verif/seeded against the current /repo HEAD and the current checks.

usage: seedsweep.py [name prefix ...]
For each seed: tools/seedeval.py on the stored patch/demo (own property, quick tier); when the own check stays silent (or cannot decide),
every other claimed check is run against the seeded tree and the ones that fire are recorded as `caught_by` in meta.json.
Prints one line per seed and a summary; scratch worktrees live under /tmp and are removed."""
import json
import os
import subprocess
import sys
import tempfile
import shutil
from concurrent.futures import ThreadPoolExecutor

VERIF = os.path.dirname(os.path.dirname(os.path.abspath(__file__)))
BASE = os.environ.get('SEED_BASE', 'HEAD')     # the /repo commit the stored patch was written against
PY = '/venv/bin/python'


def siblings(name, own):
    pids = [c['property_id'] for c in json.load(open(os.path.join(VERIF, 'MANIFEST.json')))['checks'] if c['property_id'] != own]
    sys.path.insert(0, os.path.join(VERIF, 'tools'))
    import wt as _wt
    wt, _info = _wt.make(os.path.join(VERIF, 'seeded', name), f'sweep_{name}')
    fired = []
    if not _info['applies']:
        _wt.remove(wt)
        return fired
    try:
        def one(pid):
            outd = tempfile.mkdtemp(prefix='seedout_', dir='/tmp')
            r = subprocess.run([os.path.join(VERIF, 'check'), pid], cwd=VERIF, env=dict(os.environ, VERIF_REPO=wt, VERIF_OUT=outd), capture_output=True, text=True)
            shutil.rmtree(outd, ignore_errors=True)
            lines = r.stdout.splitlines()
            diag = [lines[i - 1][:240] for i, l in enumerate(lines) if l.startswith('VIOLATION') and i > 0][:1]
            return pid, r.returncode, diag
        with ThreadPoolExecutor(6) as ex:
            for pid, rc, diag in ex.map(one, pids):
                if rc == 1:
                    fired.append(dict(property=pid, diagnostic=diag[0] if diag else ''))
    finally:
        subprocess.run(f'git -C /repo worktree remove --force {wt}', shell=True)
        shutil.rmtree(wt, ignore_errors=True)
    return fired


def one_seed(name):
    d = os.path.join(VERIF, 'seeded', name)
    mp = os.path.join(d, 'meta.json')
    old = json.load(open(mp)) if os.path.exists(mp) else {}
    pid = old.get('property') or name.split('-')[0]
    r = subprocess.run([PY, os.path.join(VERIF, 'tools', 'seedeval.py'), d, pid, name], capture_output=True, text=True)
    meta = json.load(open(mp))
    verdict = meta.get('check', {}).get('quick', {}).get('verdict')
    if verdict != 'fire' and meta.get('applies', True):
        meta['caught_by'] = siblings(name, pid)
    else:
        meta.pop('caught_by', None)
    for k in ('rebased', 'note'):
        if k in old:
            meta[k] = old[k]
    json.dump(meta, open(mp, 'w'), indent=1)
    return name, pid, meta.get('confirmed'), verdict, [c['property'] for c in meta.get('caught_by', [])], meta.get('applies', True)


def main():
    names = sorted(n for n in os.listdir(os.path.join(VERIF, 'seeded')) if os.path.isdir(os.path.join(VERIF, 'seeded', n)))
    if sys.argv[1:]:
        names = [n for n in names if any(n.startswith(p) for p in sys.argv[1:])]
    rows = []
    with ThreadPoolExecutor(5) as ex:
        for row in ex.map(one_seed, names):
            print(*row, flush=True)
            rows.append(row)
    fire = sum(1 for r in rows if r[3] == 'fire')
    sib = sum(1 for r in rows if r[3] != 'fire' and r[4])
    print(f'{len(rows)} seeds: {fire} fire in their own check, {sib} caught by a sibling check only, {len(rows) - fire - sib} not caught; unconfirmed: {[r[0] for r in rows if not r[2]]}')


if __name__ == '__main__':
    main()
