"""Checker-side models of the library functions the package calls (the trusted base of E3).
bitarray / int / bytes / str / hashlib / base64 / math.  Nothing here imports pytoniq_core or bitarray."""
import ast
import math
import base64 as _b64
import binascii as _binascii
from .values import *


def bits_value(pat, view):
    """bit pattern -> K if fully known else PBits"""
    if '?' in pat:
        return PBits(pat, view)
    if view == 'str':
        return K(pat)
    if view == 'bytes':
        if len(pat) % 8:
            return PBits(pat, view)
        return K(bytes(int(pat[i:i + 8], 2) for i in range(0, len(pat), 8)))
    if view == 'uint':
        return K(int(pat, 2) if pat else 0)
    if view == 'int':
        if not pat:
            return K(0)
        v = int(pat, 2)
        if pat[0] == '1':
            v -= 1 << len(pat)
        return K(v)
    return PBits(pat, 'bits')


def _as_poly(v):
    from .interp import as_poly
    return as_poly(v)


def _int(v, what):
    if isinstance(v, K) and isinstance(v.v, int):
        return int(v.v)
    raise Fail(f'non-constant {what}: {v!r}')


# ------------------------------------------------------------------ bitarray
def native_base(it, cls):
    ext = it.prog.ext_bases(cls)
    if 'bitarray' in ext:
        return BA()
    if 'BytesIO' in ext:
        return BytesIOModel(it)
    return None


def native_init(it, inst, args, kw):
    pass


def to_ba(it, x, what='bits'):
    """convert an abstract value to a BA (for extend / constructor)"""
    if isinstance(x, BA):
        return x.copy()
    if isinstance(x, Inst) and isinstance(x.native, BA):
        return x.native.copy()
    if isinstance(x, K):
        if isinstance(x.v, str):
            if any(c not in '01' for c in x.v):
                raise RaiseEx('ValueError', 'expected 0/1 string')
            return BA([Seg(len(x.v), 'k', x.v)])
        if isinstance(x.v, (list, tuple)):
            return BA([Seg(len(x.v), 'k', ''.join('1' if b else '0' for b in x.v))])
        if isinstance(x.v, int) and not isinstance(x.v, bool):
            if x.v < 0:
                raise RaiseEx('ValueError', 'bitarray length must be >= 0')
            return BA([Seg(x.v, '?', None)] if x.v else [])     # bitarray(n): n uninitialised bits
    if isinstance(x, BinText):
        return BA(int_segs(x.n, False, x.val))
    if isinstance(x, PBits):
        return BA([Seg(1, 'k', c) if c != '?' else Seg(1, '?', None) for c in x.pat])
    if isinstance(x, ListV):
        segs = []
        for e in x.items:
            if isinstance(e, K):
                segs.append(Seg(1, 'k', '1' if e.v else '0'))
            else:
                segs.append(Seg(1, '?', e))
        return BA(segs)
    if isinstance(x, Sym) and x.meta.get('ty') == 'bits' and x.meta.get('n') is not None:
        return BA([Seg(x.meta['n'], '?', x)])
    raise Fail(f'cannot model {what} from {x!r}')


def ba_frombytes(it, ba, b):
    if isinstance(b, K) and isinstance(b.v, (bytes, bytearray)):
        ba._push(Seg(8 * len(b.v), 'k', ''.join(format(x, '08b') for x in b.v)))
        return
    if isinstance(b, PBits) and b.view == 'bytes':
        for c in b.pat:
            ba._push(Seg(1, 'k', c) if c != '?' else Seg(1, '?', None))
        return
    if isinstance(b, Term) and b.op == 'cat' and all(isinstance(bytes_len(it, p_), K) for p_ in b.a):
        for p_ in b.a:                  # a concatenation is stored piece by piece (each piece in its own normal form)
            ba_frombytes(it, ba, p_)
        return
    if type(b).__name__ == 'Rope' and getattr(b, 'parts', None):
        for p_, _n in b.parts:
            ba_frombytes(it, ba, p_)
        return
    n = bytes_len(it, b)
    if isinstance(n, K):
        if isinstance(b, Term) and b.op == 'to_bytes' and isinstance(b.a[2], K) and b.a[2].v == 'big' and isinstance(b.a[3], K) \
                and (irange(b.a[0]) is not None or (isinstance(b.a[0], Term) and b.a[0].op in ('mod2', '<<'))) and not isinstance(b.a[0], K):
            # the bytes of an integer whose range is known: that integer, big-endian, in 8*n bits
            for sg in int_segs(8 * n.v, bool(b.a[3].v), b.a[0]):
                ba._push(sg)
            return
        ba._push(Seg(8 * n.v, 'b', b))
        return
    raise Fail(f'frombytes of bytes with unknown length {b!r}')


def bytes_len(it, b):
    if type(b).__name__ == 'Rope':
        return K(b.n)
    if isinstance(b, Term) and b.op == 'bslice' and isinstance(b.a[1], K) and isinstance(b.a[2], K):
        return K(b.a[2].v - b.a[1].v)
    if isinstance(b, Term) and b.op in ('aesctr', 'aesctr_garbage'):
        return bytes_len(it, b.a[2])
    if isinstance(b, Term) and b.op == 'reversed_bytes':
        return bytes_len(it, b.a[0])
    if isinstance(b, Term) and b.op == 'ed25519sig':
        return K(64)
    if isinstance(b, Term) and b.op in ('pub', 'sha512'):
        return K(32 if b.op == 'pub' else 64)
    if isinstance(b, K) and isinstance(b.v, (bytes, bytearray, str)):
        return K(len(b.v))
    if isinstance(b, Sym) and b.meta.get('n') is not None:
        return K(b.meta['n'])
    if isinstance(b, PBits) and b.view == 'bytes':
        return K(len(b.pat) // 8)
    if isinstance(b, PBits):
        return K(len(b.pat))
    if isinstance(b, Term):
        if b.op == 'to_bytes' and isinstance(b.a[1], K):
            return K(b.a[1].v)
        if b.op == 'sha256':
            return K(32)
        if b.op == 'cat':
            tot = 0
            for p in b.a:
                n = bytes_len(it, p)
                if not isinstance(n, K):
                    return None
                tot += n.v
            return K(tot)
        if b.op == 'tobytes' and isinstance(b.a[0], K):
            return K(b.a[0].v)
        if b.op == 'crc' and isinstance(b.a[-1], K):
            return K(b.a[-1].v)
    return None


def ba_tobytes(it, ba):
    if getattr(it, 'ROPES', False) and not ba.known() and len(ba) % 8 == 0:
        # byte-aligned segments of known bits / opaque byte strings -> a byte-layout rope
        from .rope import Rope
        parts, pos, ok = [], 0, True
        for s in ba.segs:
            if pos % 8 or s.n % 8:
                ok = False
                break
            if s.kind == 'k':
                parts.append((K(bytes(int(s.val[i:i + 8], 2) for i in range(0, s.n, 8))), s.n // 8))
            elif s.kind == 'b':
                parts.append((s.val, s.n // 8))
            else:
                ok = False
                break
            pos += s.n
        if ok:
            return Rope(parts).simplify()
    if ba.known():
        pat = ba.pattern()
        pat += '0' * (-len(pat) % 8)
        return K(bytes(int(pat[i:i + 8], 2) for i in range(0, len(pat), 8)))
    if len(ba.segs) == 1 and ba.segs[0].kind == 'b':
        return ba.segs[0].val
    nbytes = (len(ba) + 7) // 8
    if len(ba) % 8:
        ba = padded(ba)                # canonical form: the zero bits tobytes() adds are part of the described content
    return Term('tobytes', K(nbytes), K(ba.desc()), BAref(ba.copy()))


def tobytes_term(ba):
    """the byte string of a bit container (zero-padded to whole bytes), as the canonical Term the rules recognise"""
    if ba.known():
        pat = ba.pattern()
        pat += '0' * (-len(pat) % 8)
        return K(bytes(int(pat[i:i + 8], 2) for i in range(0, len(pat), 8)))
    if len(ba.segs) == 1 and ba.segs[0].kind == 'b' and ba.segs[0].val is not None:
        return ba.segs[0].val          # the bits are exactly the bits of this byte string: its bytes are that byte string
    if len(ba) % 8:
        ba = padded(ba)                # canonical form: the zero bits tobytes() adds are part of the described content
    return Term('tobytes', K((len(ba) + 7) // 8), K(ba.desc()), BAref(ba.copy()))


def padded(ba):
    r = ba.copy()
    if len(r) % 8:
        r.extend(BA([Seg(-len(r) % 8, 'k', '0' * (-len(r) % 8))]))
    return r


class ByteOf:
    """one byte taken out of the byte string of a bit container (value 0..255 with partly unknown bits)"""
    not_none = True

    def __init__(self, ba8):
        self.ba = ba8

    def abs_key(self):
        return ('byteof', self.ba.desc())

    def abs_isinstance(self, it, ty):
        return isinstance(ty, Builtin) and ty.name == 'int'

    def abs_binop(self, it, op, a, b, swapped):
        other = a if swapped else b
        if not (isinstance(other, K) and isinstance(other.v, int) and 0 <= other.v < 256):
            return None
        c = format(other.v, '08b')
        out = BA()
        for i in range(8):
            bit = self.ba.slice(i, i + 1)
            known = bit.segs[0].val if bit.segs[0].kind == 'k' else None
            if isinstance(op, ast.BitOr):
                r = '1' if c[i] == '1' else (known if known is not None else bit)
            elif isinstance(op, ast.BitAnd):
                r = '0' if c[i] == '0' else (known if known is not None else bit)
            elif isinstance(op, ast.BitXor):
                if c[i] == '0':
                    r = known if known is not None else bit
                elif known is not None:
                    r = '1' if known == '0' else '0'
                else:
                    return None
            elif isinstance(op, ast.Add) and all(self.ba.slice(j, j + 1).segs[0].kind == 'k' and self.ba.slice(j, j + 1).segs[0].val == '0' for j in range(8) if c[j] == '1'):
                r = '1' if c[i] == '1' else (known if known is not None else bit)      # adding a constant into bits known to be zero is an OR
            else:
                return None
            out.extend(BA([Seg(1, 'k', r)]) if isinstance(r, str) else r)
        if out.known():
            return K(int(out.pattern(), 2))
        return ByteOf(out)

    def abs_attr(self, it, a, n):
        if a == 'to_bytes':
            def tb(it_, args, kw, node):
                ln = args[0] if args else kw.get('length', K(1))
                if isinstance(ln, K) and ln.v == 1:
                    return tobytes_term(self.ba)
                raise Fail('to_bytes of a symbolic byte with length != 1')
            return Native(tb, 'byte.to_bytes')
        return None


class BAref:
    """carries a BA snapshot inside a Term (repr by description)"""
    def __init__(self, ba):
        self.ba = ba

    def __repr__(self):
        return 'BA' + repr(self.ba.desc())


def ba2int(it, x, signed):
    if isinstance(x, Inst) and isinstance(x.native, BA):
        x = x.native
    if isinstance(x, PBits):
        x = to_ba(it, x)
    if not isinstance(x, BA):
        raise Fail(f'ba2int of {x!r}')
    if len(x) == 0:
        raise RaiseEx('ValueError', 'non-empty bitarray expected')
    if x.known():
        return bits_value(x.pattern(), 'int' if signed else 'uint')
    if len(x.segs) == 1:
        s = x.segs[0]
        if s.kind == 'u' and not signed:
            return s.val
        if s.kind == 'i' and signed:
            return s.val
        if s.kind == 'i' and not signed:
            return mod2(s.val, s.n)       # the unsigned reading of a signed field: v mod 2^n
        if s.kind == 'u' and signed:
            r_ = irange(s.val)
            if r_ is not None and 0 <= r_[0] and r_[1] < (1 << (s.n - 1)):
                return s.val              # the top bit is clear: the signed reading is the same number
    return Term('ba2int', K(x.desc()), K(bool(signed)), BAref(x.copy()))


# ------------------------------------------------------------------ integers with known ranges
def irange(v):
    """(lo, hi) of an abstract integer when both are known, else None"""
    if isinstance(v, K) and isinstance(v.v, int):
        return (int(v.v), int(v.v))
    b = getattr(v, 'bounds', None)
    if isinstance(b, tuple) and len(b) == 2 and isinstance(b[0], int) and isinstance(b[1], int):
        return b
    return None


def mod2(v, n):
    """v mod 2^n (the unsigned reading of the n-bit two's complement image of v)"""
    r = irange(v)
    if r is not None and 0 <= r[0] and r[1] < (1 << n):
        return v
    if isinstance(v, K) and isinstance(v.v, int):
        return K(v.v % (1 << n))
    t = Term('mod2', v, K(n))
    t.bounds = (0, (1 << n) - 1)
    return t


def bounded_binop(it, t, a, b):
    """interval arithmetic and two's-complement identities on integers whose range is known (scenario values that 'fit the field', byte values, ...);
    None when the operands are not of that kind"""
    if isinstance(a, K) and isinstance(b, K):
        return None
    # sign fold of an unsigned reading:  (mod2(v, n) ^ 2^(n-1)) - 2^(n-1) = v   for v representable in n signed bits
    if t is ast.BitXor:
        for x, y in ((a, b), (b, a)):
            if isinstance(x, Term) and x.op == 'mod2' and isinstance(y, K) and isinstance(y.v, int) and y.v == 1 << (x.a[1].v - 1):
                r = Term('mod2x', x.a[0], x.a[1])
                r.bounds = (0, (1 << x.a[1].v) - 1)
                return r
    if t is ast.BitXor:
        for x, y in ((a, b), (b, a)):
            rx = irange(x)
            if isinstance(y, K) and isinstance(y.v, int) and y.v > 0 and y.v & (y.v - 1) == 0 and rx is not None and not isinstance(x, K) and 0 <= rx[0] and rx[1] < y.v:
                r = Term('+top', x, y)          # the bit is clear in x: flipping it adds its weight
                r.bounds = (rx[0] + y.v, rx[1] + y.v)
                return r
    if t is ast.Sub and isinstance(a, Term) and a.op == '+top' and isinstance(b, K) and isinstance(b.v, int) and b.v == a.a[1].v:
        return a.a[0]
    if t is ast.Sub and isinstance(a, Term) and a.op == 'mod2x' and isinstance(b, K) and isinstance(b.v, int) and b.v == 1 << (a.a[1].v - 1):
        return a.a[0]
    if t is ast.Add and isinstance(a, Term) and a.op == 'mod2x' and isinstance(b, K) and isinstance(b.v, int) and b.v == -(1 << (a.a[1].v - 1)):
        return a.a[0]
    if t is ast.RShift and isinstance(a, Term) and a.op == '<<' and isinstance(b, K) and isinstance(a.a[1], K) and a.a[1].v == b.v:
        return a.a[0]               # (u << p) >> p = u
    if t is ast.RShift and isinstance(a, Term) and a.op == 'mod2' and isinstance(b, K) and b.v == a.a[1].v - 1:
        # the sign bit of the n-bit image of v
        rv, n_ = irange(a.a[0]), a.a[1].v
        if rv is not None and -(1 << (n_ - 1)) <= rv[0] and rv[1] < 0:
            return K(1)
        if rv is not None and 0 <= rv[0] and rv[1] < (1 << (n_ - 1)):
            return K(0)
        raise Fail(f'sign bit of the {n_}-bit image of {vrepr(a.a[0])[:30]}: its sign is not known')
    if t is ast.Sub and isinstance(a, Term) and a.op == 'mod2' and isinstance(b, K) and b.v == 1 << a.a[1].v:
        rv, n_ = irange(a.a[0]), a.a[1].v
        if rv is not None and -(1 << (n_ - 1)) <= rv[0] and rv[1] < 0:
            return a.a[0]           # mod2(v, n) - 2^n = v for negative v
    ra, rb = irange(a), irange(b)
    if ra is None or rb is None or isinstance(a, (PInt,)) or isinstance(b, (PInt,)):
        return None
    (alo, ahi), (blo, bhi) = ra, rb
    name = {ast.Add: '+', ast.Sub: '-', ast.Mult: '*', ast.FloorDiv: '//', ast.Mod: '%', ast.LShift: '<<', ast.RShift: '>>', ast.BitAnd: '&',
            ast.BitOr: '|', ast.BitXor: '^'}.get(t)
    if name is None:
        return None

    def mk(lo, hi):
        if lo == hi:
            return K(lo)
        r = Term(name, a, b)
        r.bounds = (lo, hi)
        return r
    bconst = blo == bhi
    if bconst and ((blo == 0 and t in (ast.RShift, ast.LShift, ast.Add, ast.Sub, ast.BitOr, ast.BitXor)) or (blo == 1 and t in (ast.Mult, ast.FloorDiv))):
        return a
    if alo == ahi and ((alo == 0 and t in (ast.Add, ast.BitOr, ast.BitXor)) or (alo == 1 and t is ast.Mult)):
        return b
    if t is ast.RShift and bconst and blo >= 0:
        return mk(alo >> blo, ahi >> blo)
    if t is ast.LShift and bconst and blo >= 0:
        return mk(alo << blo, ahi << blo)
    if t is ast.Add:
        return mk(alo + blo, ahi + bhi)
    if t is ast.Sub:
        return mk(alo - bhi, ahi - blo)
    if t is ast.Mult:
        c = [alo * blo, alo * bhi, ahi * blo, ahi * bhi]
        return mk(min(c), max(c))
    if t is ast.FloorDiv and bconst and blo > 0:
        return mk(alo // blo, ahi // blo)
    if t in (ast.BitAnd, ast.Mod):
        for x, (xlo, xhi), y, (ylo, yhi) in ((a, ra, b, rb), (b, rb, a, ra)):
            if t is ast.Mod and x is not a:
                break
            if ylo == yhi:
                m = ylo if t is ast.BitAnd else ylo - 1
                if m >= 0 and m & (m + 1) == 0 and (t is ast.BitAnd or ylo > 0):
                    k = m.bit_length()
                    if k == 0:
                        return K(0)
                    return mod2(x, k)
                if t is ast.BitAnd and m >= 0:
                    return mk(0, m)
                if t is ast.Mod and ylo > 0:
                    if 0 <= xlo and xhi < ylo:
                        return x
                    return mk(0, ylo - 1)
        return None
    if t in (ast.BitOr, ast.BitXor) and alo >= 0 and blo >= 0:
        return mk(0, (1 << max(ahi.bit_length(), bhi.bit_length())) - 1)
    return None


def int_segs(n, signed, val):
    """the segments of `val` written big-endian in n bits, normalised: a left shift is the value followed by zero bits, the unsigned
    image of a signed value is that signed field"""
    if isinstance(val, K) and isinstance(val.v, int):
        v = int(val.v)
        if signed:
            if not -(1 << (n - 1)) <= v < (1 << (n - 1)):
                raise RaiseEx('OverflowError', 'int too big to convert')
            v &= (1 << n) - 1
        elif not 0 <= v < (1 << n):
            raise RaiseEx('OverflowError', 'int too big to convert')
        return [Seg(n, 'k', format(v, f'0{n}b'))]
    if isinstance(val, Term) and val.op == '<<' and isinstance(val.a[1], K) and not signed:
        p, inner = val.a[1].v, val.a[0]
        r = irange(inner)
        if 0 < p < n and r is not None and 0 <= r[0] and r[1] < (1 << (n - p)):
            return int_segs(n - p, False, inner) + [Seg(p, 'k', '0' * p)]
    if isinstance(val, Term) and val.op == 'mod2' and val.a[1].v == n and not signed:
        return [Seg(n, 'i', val.a[0])]
    r = irange(val)
    if r is not None and not signed and 0 <= r[0] and r[1] < (1 << n) and n > r[1].bit_length() and r[1].bit_length() > 0 and False:
        pass
    return [Seg(n, 'i' if signed else 'u', val)]


class BinText:
    """format(v, '0<n>b') of an integer known to lie in [0, 2^n): a text of exactly n binary digits, the n-bit unsigned image of v"""
    not_none = True

    def __init__(self, n, val):
        self.n, self.val = n, val

    def abs_key(self):
        return ('bintext', self.n, vrepr(self.val))

    def abs_len(self, it):
        return K(self.n)

    def abs_truth(self, it):
        return self.n > 0

    def abs_isinstance(self, it, ty):
        return ty.name == 'str' if isinstance(ty, Builtin) else False

    def __repr__(self):
        return f'bin{self.n}({vrepr(self.val)})'


def format_bits(x, spec):
    """format(x, spec) for spec '0<n>b' / '<n>b' with zero fill when x is an integer whose range is inside [0, 2^n) -> BinText, else None"""
    import re as _re
    m_ = _re.fullmatch(r'0(\d+)b', spec or '')
    if m_ is None or isinstance(x, K):
        return None
    n = int(m_.group(1))
    r = irange(x)
    if r is None or r[0] < 0 or r[1] >= (1 << n) or n == 0:
        return None
    return BinText(n, x)


def int2ba(it, value, length, signed):
    n = _int(length, 'int2ba length')
    if n <= 0:
        raise RaiseEx('ValueError', 'length must be > 0')
    if isinstance(value, K) and isinstance(value.v, int):
        v = int(value.v)
        if signed:
            if not -(1 << (n - 1)) <= v < (1 << (n - 1)):
                raise RaiseEx('OverflowError', 'signed integer not in range')
            v &= (1 << n) - 1
        else:
            if not 0 <= v < (1 << n):
                raise RaiseEx('OverflowError', 'unsigned integer not in range')
        return BA([Seg(n, 'k', format(v, f'0{n}b'))])
    r = irange(value)
    if r is not None:
        lo, hi = (-(1 << (n - 1)), (1 << (n - 1)) - 1) if signed else (0, (1 << n) - 1)
        if r[1] < lo or r[0] > hi:
            raise RaiseEx('OverflowError', ('signed' if signed else 'unsigned') + ' integer not in range')
    return BA(int_segs(n, signed, value))


def ba_methods(it, ba, a, inst):
    """attribute `a` of a bitarray model. `inst` is the Inst wrapping it (or None)"""
    def m_append(it, args, kw, node):
        v = args[0]
        if isinstance(v, K):
            if isinstance(v.v, str) or v.v is None or (isinstance(v.v, int) and v.v not in (0, 1)):
                raise RaiseEx('ValueError' if isinstance(v.v, int) else 'TypeError', 'bit must be 0 or 1')
            ba._push(Seg(1, 'k', '1' if v.v else '0'))
        else:
            ba._push(Seg(1, 'u', v))
        return K(None)

    def m_extend(it, args, kw, node):
        ba.extend(to_ba(it, args[0], 'extend argument'))
        return K(None)

    def m_fill(it, args, kw, node):
        pad = -len(ba) % 8
        ba._push(Seg(pad, 'k', '0' * pad))
        return K(pad)

    def m_tobytes(it, args, kw, node):
        return ba_tobytes(it, ba)

    def m_to01(it, args, kw, node):
        return bits_value(ba.pattern(), 'str')

    def m_frombytes(it, args, kw, node):
        ba_frombytes(it, ba, args[0])
        return K(None)

    def m_copy(it, args, kw, node):
        return ba.copy()

    def m_pop(it, args, kw, node):
        i = _int(args[0], 'pop index') if args else -1
        b = ba.bit(i)
        n = len(ba)
        if i < 0:
            i += n
        ba.delete(i, i + 1)
        return b

    def m_len(it, args, kw, node):
        return K(len(ba))

    def m_count(it, args, kw, node):
        if ba.known():
            return K(ba.pattern().count('1' if (not args or it.truth(args[0])) else '0'))
        return Term('count', BAref(ba.copy()))

    def m_delitem(it, args, kw, node):
        idx = args[0]
        if isinstance(idx, SliceV):
            idx = ('slice', idx.lo, idx.hi)
        native_delitem(it, ba, idx)
        return K(None)

    def m_init(it, args, kw, node):
        return K(None)

    def m_setall(it, args, kw, node):
        n_ = len(ba)
        v_ = args[0]
        if isinstance(v_, K):
            ba.segs = []
            ba._push(Seg(n_, 'k', ('1' if v_.v else '0') * n_))
        else:
            ba.segs = []
            for _ in range(n_):
                ba._push(Seg(1, '?', v_))
        return K(None)

    def m_any(it, args, kw, node):
        if ba.known():
            return K('1' in ba.pattern())
        return Term('any', BAref(ba.copy()))

    def _needle(x):
        if isinstance(x, K) and isinstance(x.v, (int, bool)):
            if x.v not in (0, 1):
                raise RaiseEx('ValueError', 'bit must be 0 or 1')
            return '1' if x.v else '0'
        nb = to_ba(it, x, 'search pattern')
        if not nb.known():
            raise Fail('bitarray search for a pattern with unknown bits')
        return nb.pattern()

    def _search(args, kw, what):
        pat = ba.pattern()
        sub = _needle(args[0])
        lo = _int(args[1], 'start') if len(args) > 1 and not (isinstance(args[1], K) and args[1].v is None) else 0
        hi = _int(args[2], 'stop') if len(args) > 2 and not (isinstance(args[2], K) and args[2].v is None) else len(pat)
        right = 'right' in kw and it.truth(kw['right'])
        n_ = len(pat)
        lo = max(0, lo + n_) if lo < 0 else min(lo, n_)
        hi = max(0, hi + n_) if hi < 0 else min(hi, n_)
        positions = range(lo, hi - len(sub) + 1)
        for p_ in (reversed(positions) if right else positions):
            window = pat[p_:p_ + len(sub)]
            if all(c == d for c, d in zip(window, sub)):
                return p_
            if all(c == d or c == '?' for c, d in zip(window, sub)):
                raise Fail(f'bitarray.{what} over unknown bits: whether the pattern occurs at position {p_} is not decided')
        return -1

    def m_find(it, args, kw, node):
        return K(_search(args, kw, 'find'))

    def m_index(it, args, kw, node):
        r = _search(args, kw, 'index')
        if r < 0:
            raise RaiseEx('ValueError', f'{vrepr(args[0])} not in bitarray')
        return K(r)

    def m_all(it, args, kw, node):
        if '0' in ba.pattern():
            return K(False)
        if ba.known():
            return K(True)
        return Term('all', BAref(ba.copy()))

    def m_tolist(it, args, kw, node):
        return ListV([ba.bit(i) for i in range(len(ba))])

    def m_clear(it, args, kw, node):
        ba.segs = []
        return K(None)

    def m_reverse(it, args, kw, node):
        if not ba.known():
            raise Fail('bitarray.reverse over unknown bits')
        pat = ba.pattern()[::-1]
        ba.segs = []
        if pat:
            ba._push(Seg(len(pat), 'k', pat))
        return K(None)

    def m_invert(it, args, kw, node):
        if not ba.known() or args:
            raise Fail('bitarray.invert over unknown bits / of one position')
        pat = ''.join('1' if c == '0' else '0' for c in ba.pattern())
        ba.segs = []
        if pat:
            ba._push(Seg(len(pat), 'k', pat))
        return K(None)

    table = {'find': m_find, 'index': m_index, 'all': m_all, 'tolist': m_tolist, 'clear': m_clear, 'reverse': m_reverse, 'invert': m_invert,
             'append': m_append, 'extend': m_extend, 'fill': m_fill, 'tobytes': m_tobytes, 'to01': m_to01,
             'frombytes': m_frombytes, 'copy': m_copy, 'pop': m_pop, '__len__': m_len, 'count': m_count,
             '__delitem__': m_delitem, '__init__': m_init, 'any': m_any, 'setall': m_setall}
    if a in table:
        return Native(table[a], 'bitarray.' + a)
    if a == '__new__':
        def m_new(it, args, kw, node):
            cls = args[0] if args else None
            if isinstance(cls, Inst):
                cls = cls.cls
            r = it.new_inst(cls)
            if len(args) > 1:
                r.native = to_ba(it, args[1], 'constructor argument')
            return r
        return Native(m_new, 'bitarray.__new__')
    if a == 'endian':
        return Native(lambda it_, args, kw, node: K('big'), 'bitarray.endian')
    if a in _BITARRAY_API:
        # a real member of the library class the model does not cover: the analysis stops - this is not an AttributeError of the code
        raise Fail(f'bitarray.{a} is not modelled')
    return None


_BITARRAY_API = {'buffer_info', 'bytereverse', 'decode', 'encode', 'fromfile', 'insert', 'iterdecode', 'itersearch', 'search', 'pack', 'remove',
                 'sort', 'tofile', 'unpack', 'nbytes', 'padbits', 'readonly', '__iadd__', '__imul__', '__mul__', '__rmul__', '__and__', '__or__',
                 '__xor__', '__invert__', '__lshift__', '__rshift__', '__iand__', '__ior__', '__ixor__', '__ilshift__', '__irshift__',
                 '__reversed__', '__copy__', '__deepcopy__', '__reduce__', '__sizeof__', '__buffer__'}


def native_attr(it, nat, a, inst):
    if isinstance(nat, BA):
        return ba_methods(it, nat, a, inst)
    if isinstance(nat, BytesIOModel):
        return nat.abs_attr(it, a, None)
    return None


def native_delitem(it, ba, idx):
    n = len(ba)
    if isinstance(idx, tuple):
        lo = idx[1].v if isinstance(idx[1], K) else None if idx[1] is None else _int(idx[1], 'del start')
        hi = idx[2].v if isinstance(idx[2], K) else None if idx[2] is None else _int(idx[2], 'del stop')
        lo = 0 if lo is None else lo
        hi = n if hi is None else hi
        if lo < 0:
            lo = max(0, lo + n)
        if hi < 0:
            hi = max(0, hi + n)
        lo, hi = min(lo, n), min(hi, n)
        if lo < hi:
            ba.delete(lo, hi)
        return
    i = _int(idx, 'del index')
    if i < 0:
        i += n
    if not 0 <= i < n:
        raise RaiseEx('IndexError', 'bitarray assignment index out of range')
    ba.delete(i, i + 1)


def inplace(it, op, cur, v):
    """x op= v for mutable models; None -> fall back on binop + rebind"""
    if isinstance(op, ast.Add):
        if isinstance(cur, ListV) and not cur.tup:
            items = it.iterate(v)
            if items is None:
                raise Fail('list += unknown')
            cur.items.extend(items)
            return cur
        if isinstance(cur, BA):
            cur.extend(to_ba(it, v))
            return cur
        if isinstance(cur, Inst) and isinstance(cur.native, BA):
            cur.native.extend(to_ba(it, v))
            it.__dict__.setdefault('raw_growth', []).append(cur)
            return cur
    if isinstance(op, ast.BitOr) and isinstance(cur, SetV) and isinstance(v, SetV):
        cur.items.update(v.items)
        return cur
    if isinstance(cur, K) and type(cur.v).__name__ == 'SymBuf' and isinstance(op, ast.Add):
        from .rope import buf_store
        buf_store(it, cur, len(cur.v), len(cur.v), v)
        return cur
    if isinstance(cur, K) and isinstance(cur.v, bytearray):
        if isinstance(op, ast.Add):
            try:
                cur.v.extend(to_const(v))
            except NotConst:
                from .rope import buf_store, Rope
                if Rope.of(it, v) is not None:
                    buf_store(it, cur, len(cur.v), len(cur.v), v)        # the buffer keeps its identity, its content becomes symbolic
                    return cur
                return None         # unknown length: the name is rebound to the concatenation term (aliases of the buffer are not tracked)
            except TypeError:
                raise RaiseEx('TypeError', 'bytearray +=')
            return cur
        if isinstance(op, ast.Mult) and isinstance(v, K):
            cur.v[:] = cur.v * v.v
            return cur
    if isinstance(cur, SetV) and isinstance(v, SetV) and isinstance(op, (ast.BitAnd, ast.Sub, ast.BitXor)):
        r = set_op(it, cur, {ast.BitAnd: 'intersection', ast.Sub: 'difference', ast.BitXor: 'symmetric_difference'}[type(op)], [v])
        cur.items = r.items
        return cur
    return None


def class_decorators(cls):
    decs = {}
    for d in cls.node.decorator_list:
        call = d if isinstance(d, ast.Call) else None
        f = d.func if call else d
        name = f.id if isinstance(f, ast.Name) else f.attr if isinstance(f, ast.Attribute) else ''
        decs[name] = {k.arg: k.value for k in call.keywords} if call else {}
    return decs


def dataclass_fields(it, cls):
    """[(name, default expr or None)] over the MRO (base classes first)"""
    out = {}
    for c in reversed(it.prog.mro(cls)):
        for n in c.node.body:
            if isinstance(n, ast.AnnAssign) and isinstance(n.target, ast.Name):
                ann = ast.unparse(n.annotation)
                if 'ClassVar' in ann:
                    continue
                out[n.target.id] = (n.value, c)
    return [(k, v[0], v[1]) for k, v in out.items()]


def dataclass_init(it, cls, inst, args, kw):
    decs = class_decorators(cls)
    if 'dataclass' not in decs:
        return False
    from .interp import Frame
    fields = dataclass_fields(it, cls)
    if len(args) > len(fields):
        raise RaiseEx('TypeError', f'{cls.name}() takes {len(fields)} positional arguments but {len(args)} were given')
    kw = dict(kw)
    for i, (f, default, owner) in enumerate(fields):
        if i < len(args):
            if f in kw:
                raise RaiseEx('TypeError', f'{cls.name}() got multiple values for {f}')
            inst.attrs[f] = args[i]
        elif f in kw:
            inst.attrs[f] = kw.pop(f)
        elif default is not None:
            is_field = isinstance(default, ast.Call) and (getattr(default.func, 'id', None) == 'field' or getattr(default.func, 'attr', None) == 'field')
            if is_field:
                fk = {k.arg: k.value for k in default.keywords}
                fr = Frame(owner.module, getattr(owner, 'closure', None), cls=owner)
                if 'default_factory' in fk:
                    inst.attrs[f] = it.call(it.ev(fk['default_factory'], fr), [], {}, default)
                elif 'default' in fk:
                    inst.attrs[f] = it.ev(fk['default'], fr)
                else:
                    raise RaiseEx('TypeError', f'{cls.name}() missing argument {f}')
            else:
                inst.attrs[f] = it.class_attr(cls, f, None)
        else:
            raise RaiseEx('TypeError', f'{cls.name}() missing argument {f}')
    if kw:
        raise RaiseEx('TypeError', f'{cls.name}() got an unexpected keyword argument {sorted(kw)[0]}')
    c, m = it.prog.find_method(cls, '__post_init__')
    if m is not None:
        from .front import FuncRef
        it.invoke(FuncRef(m, c.module, c), [inst], {})
    return True


def dataclass_eq(it, a, b):
    """the generated __eq__ of a dataclass (eq=True is the default): same class and equal field tuples; None = not a dataclass"""
    if not (isinstance(a, Inst) and a.cls is not None):
        return None
    decs = class_decorators(a.cls)
    if 'dataclass' not in decs:
        return None
    eq = decs['dataclass'].get('eq')
    if eq is not None and isinstance(eq, ast.Constant) and eq.value is False:
        return None
    if not (isinstance(b, Inst) and b.cls is a.cls):
        return K(False)
    fa = ListV([a.attrs.get(f, K(None)) for f, _, _ in dataclass_fields(it, a.cls)], tup=True)
    fb = ListV([b.attrs.get(f, K(None)) for f, _, _ in dataclass_fields(it, a.cls)], tup=True)
    return it.cmp(ast.Eq(), fa, fb, None)


class EnumMember:
    """a member of an enum.Enum / IntEnum / IntFlag class of the package"""
    not_none = True

    def __init__(self, cls, name, value, is_int):
        self.cls, self.name, self.value, self.is_int = cls, name, value, is_int

    def abs_key(self):
        return ('enum', self.cls.qual, self.name)

    def abs_dkey(self, it):
        return it.dkey(self.value) if self.is_int else ('enum', self.cls.qual, self.name)

    def abs_attr(self, it, a, n):
        if a == 'name':
            return K(self.name)
        if a in ('value', '_value_'):
            return self.value
        if a == '__class__':
            return self.cls
        r = it.class_attr(self.cls, a, self)
        if r is not None:
            return r
        if self.is_int:
            return it.getattr(self.value, a, n)
        return None

    def abs_isinstance(self, it, ty):
        from .front import ClassRef
        if isinstance(ty, ClassRef):
            return it.prog.is_subclass(self.cls, ty.name)
        if isinstance(ty, Builtin):
            return self.is_int and ty.name == 'int'
        return False

    def abs_truth(self, it):
        return it.truth(self.value) if self.is_int else True

    def abs_binop(self, it, op, a, b, swapped):
        kind = enum_kind(it, self.cls)
        if kind in ('Flag', 'IntFlag') and isinstance(op, (ast.BitOr, ast.BitAnd, ast.BitXor)):
            # flags combine into (pseudo-)members of the same class
            other = b if a is self else a
            if isinstance(other, EnumMember) and other.cls is self.cls or (kind == 'IntFlag' and isinstance(other, K) and isinstance(other.v, int)):
                r = it.binop(op, a.value if isinstance(a, EnumMember) else a, b.value if isinstance(b, EnumMember) else b)
                if isinstance(r, K) and isinstance(r.v, int):
                    return flag_member(it, self.cls, r.v)
                if kind == 'Flag':
                    raise Fail(f'{self.cls.name}: combination of flags with symbolic values')
                return r
        if not self.is_int:
            return None
        a2 = a.value if isinstance(a, EnumMember) and a.is_int else a
        b2 = b.value if isinstance(b, EnumMember) and b.is_int else b
        return it.binop(op, a2, b2)

    def abs_cmp(self, it, op, a, b, n):
        if isinstance(op, (ast.Is, ast.IsNot)):
            same = isinstance(a, EnumMember) and isinstance(b, EnumMember) and a.abs_key() == b.abs_key()
            return K(same if isinstance(op, ast.Is) else not same)
        if isinstance(op, (ast.In, ast.NotIn)):
            if isinstance(a, EnumMember) and isinstance(b, EnumMember) and a.cls is b.cls and enum_kind(it, a.cls) in ('Flag', 'IntFlag') \
                    and isinstance(a.value, K) and isinstance(b.value, K):
                r = (a.value.v & b.value.v) == a.value.v            # flag containment
                return K(r if isinstance(op, ast.In) else not r)
            return None
        if self.is_int or (isinstance(a, EnumMember) and isinstance(b, EnumMember) and a.is_int and b.is_int):
            a2 = a.value if isinstance(a, EnumMember) and a.is_int else a
            b2 = b.value if isinstance(b, EnumMember) and b.is_int else b
            if isinstance(a2, EnumMember) or isinstance(b2, EnumMember):
                return K(isinstance(op, ast.NotEq)) if isinstance(op, (ast.Eq, ast.NotEq)) else None
            return it.cmp(op, a2, b2, n)
        if isinstance(op, (ast.Eq, ast.NotEq)):
            same = isinstance(a, EnumMember) and isinstance(b, EnumMember) and a.abs_key() == b.abs_key()
            return K(same if isinstance(op, ast.Eq) else not same)
        return None

    def __repr__(self):
        return f'<{self.cls.name}.{self.name}>'


_ENUM_BASES = {'Enum': False, 'IntEnum': True, 'IntFlag': True, 'Flag': False, 'StrEnum': False}


def enum_kind(it, cls):
    for b in it.prog.ext_bases(cls):
        if b in _ENUM_BASES:
            return b
    return None


def enum_members(it, cls):
    cache = it.__dict__.setdefault('_enum_members', {})
    if cls.qual in cache:
        return cache[cls.qual]
    from .interp import Frame
    kind = enum_kind(it, cls)
    out = {}
    auto = 0
    for n in cls.node.body:
        if isinstance(n, ast.Assign) and len(n.targets) == 1 and isinstance(n.targets[0], ast.Name) and not n.targets[0].id.startswith('_'):
            if isinstance(n.value, ast.Call) and getattr(n.value.func, 'id', getattr(n.value.func, 'attr', None)) == 'auto':
                auto += 1
                v = K(auto)
            else:
                fr = Frame(cls.module, getattr(cls, 'closure', None), cls=cls)
                for k, m in out.items():
                    fr.vars[k] = m.value if _ENUM_BASES[kind] else m
                v = it.ev(n.value, fr)
                if isinstance(v, K) and isinstance(v.v, int):
                    auto = v.v
            out[n.targets[0].id] = EnumMember(cls, n.targets[0].id, v, _ENUM_BASES[kind])
    cache[cls.qual] = out
    return out


def flag_member(it, cls, v):
    """the member of a Flag / IntFlag class with integer value v: a declared member, or the pseudo-member the library creates for a combination"""
    members = enum_members(it, cls)
    for m in members.values():
        if isinstance(m.value, K) and m.value.v == v:
            return m
    kind = enum_kind(it, cls)
    known = 0
    for m in members.values():
        if isinstance(m.value, K) and isinstance(m.value.v, int):
            known |= m.value.v
    if kind == 'Flag' and (v < 0 or v & ~known):
        raise RaiseEx('ValueError', f'{v!r} is not a valid {cls.name}')
    names = [m.name for m in members.values() if isinstance(m.value, K) and m.value.v and m.value.v & v == m.value.v and m.value.v & (m.value.v - 1) == 0]
    return EnumMember(cls, '|'.join(names) or str(v), K(v), _ENUM_BASES[kind])


def enum_lookup(it, cls, value):
    for m in enum_members(it, cls).values():
        if it.eq3(m.value, value) is True:
            return m
    if isinstance(value, EnumMember) and value.cls is cls:
        return value
    if enum_kind(it, cls) in ('Flag', 'IntFlag') and isinstance(value, K) and isinstance(value.v, int) and not isinstance(value.v, bool):
        return flag_member(it, cls, value.v)
    if isinstance(value, K):
        raise RaiseEx('ValueError', f'{value.v!r} is not a valid {cls.name}')
    raise Fail(f'{cls.name}(symbolic value)')


# ------------------------------------------------------------------ hashing
def frozen_bytes(it, v):
    """the value of a byte buffer at this moment: a mutable bytearray (or a view of one) is copied, as a hash function reads it once"""
    if isinstance(v, K) and isinstance(v.v, bytearray):
        return K(bytes(v.v))
    if isinstance(v, K) and type(v.v).__name__ == 'SymBuf':
        return v.v.rope.simplify()
    if type(v).__name__ == 'MemView':
        r = v.rope_value(it)
        return K(bytes(r.v)) if isinstance(r, K) else r
    return v


class Hasher:
    def __init__(self, algo, first=None):
        self.algo = algo
        self.log = [] if first is None else [frozen_bytes(None, first)]

    def abs_attr(self, it, a, n):
        if a == 'update':
            def upd(it, args, kw, node):
                self.log.append(frozen_bytes(it, args[0]))
                return K(None)
            return Native(upd, 'hash.update')
        if a == 'digest':
            return Native(lambda it, args, kw, node: digest_term(it, self.algo, self.log), 'hash.digest')
        if a == 'hexdigest':
            return Native(lambda it, args, kw, node: Term('hex', digest_term(it, self.algo, self.log)), 'hash.hexdigest')
        if a == 'copy':
            def cp(it, args, kw, node):
                h = Hasher(self.algo)
                h.log = list(self.log)
                return h
            return Native(cp, 'hash.copy')
        sizes = {'sha256': (32, 64), 'sha512': (64, 128), 'sha1': (20, 64), 'md5': (16, 64)}
        if a == 'digest_size' and self.algo in sizes:
            return K(sizes[self.algo][0])
        if a == 'block_size' and self.algo in sizes:
            return K(sizes[self.algo][1])
        if a == 'name':
            return K(self.algo)
        return None


def digest_term(it, algo, log):
    parts = []
    for x in log:
        if isinstance(x, Term) and x.op == 'cat':
            parts += list(x.a)
        elif isinstance(x, K) and isinstance(x.v, (bytes, bytearray)) and len(x.v) == 0:
            continue
        else:
            parts.append(x)
    out = []
    for p in parts:
        if out and isinstance(p, K) and isinstance(out[-1], K) and isinstance(p.v, bytes) and isinstance(out[-1].v, bytes):
            out[-1] = K(out[-1].v + p.v)
        else:
            out.append(p)
    if any(type(p).__name__ == 'Rope' for p in out) or (getattr(it, 'ROPES', False) and len(out) > 1):
        # canonical form when byte layouts are tracked: one rope for the whole hashed stream
        from .rope import Rope
        rs = [Rope.of(it, p) for p in out]
        if all(r is not None for r in rs):
            whole = Rope([pp for r in rs for pp in r.parts]).simplify()
            out = [whole]
            if not getattr(it, 'ROPES', False):
                # a rule that does not track byte layouts sees the same stream whether the code hashed it piece by piece or from one
                # assembled buffer: the pieces of the layout, adjacent constants merged
                parts_ = getattr(whole, 'parts', None)
                if parts_:
                    out = [v_ for v_, _n in parts_]
    if getattr(it, 'CONCRETE_HASH', False) and all(isinstance(p, K) and isinstance(p.v, (bytes, bytearray)) for p in out):
        import hashlib
        return K(hashlib.new(algo, b''.join(bytes(p.v) for p in out)).digest())
    return Term(algo, *out)


# ------------------------------------------------------------------ constants in / out of the model
class NotConst(Exception):
    pass


def bytearray_method(it, v, name, args, kw):
    """K(bytearray) is a mutable constant: in-place methods act on the python object itself (identity is the K object)"""
    try:
        ca = [to_const(a) for a in args]
    except NotConst:
        from .rope import buf_store, Rope
        if name == 'extend' and len(args) == 1 and Rope.of(it, args[0]) is not None:
            buf_store(it, v, len(v.v), len(v.v), args[0])
            return K(None)
        raise Fail(f'bytearray.{name} with a symbolic argument')
    if not hasattr(v.v, name):
        return None
    try:
        r = getattr(v.v, name)(*ca)
    except _PY_ERRORS as e:
        raise RaiseEx(type(e).__name__, str(e)[:60])
    return from_const(r)


def to_const(v):
    """model value -> python constant (deep); NotConst when any part is symbolic or an object with identity semantics we must keep"""
    if isinstance(v, K):
        if type(v.v).__name__ == 'SymBuf':
            raise NotConst()
        return v.v
    if type(v).__name__ == 'MemView':
        if isinstance(v.target.v, bytearray):
            return bytes(v.target.v[v.lo:v.hi])
        raise NotConst()
    if isinstance(v, ListV):
        items = [to_const(x) for x in v.items]
        return tuple(items) if v.tup else items
    if isinstance(v, PBits) and v.known() and v.view in ('str', 'bytes'):
        return v.pat if v.view == 'str' else bytes(int(v.pat[i:i + 8], 2) for i in range(0, len(v.pat), 8))
    if isinstance(v, EnumMember) and v.is_int and isinstance(v.value, K):
        return v.value.v            # IntEnum / IntFlag members are integers
    raise NotConst()


def from_const(x):
    if isinstance(x, tuple):
        return ListV([from_const(e) for e in x], tup=True)
    if isinstance(x, list):
        return ListV([from_const(e) for e in x])
    if isinstance(x, dict):
        d = DictV()
        for k, e in x.items():
            d.d[k] = from_const(e)
            d.keyobj[k] = K(k)
        return d
    if isinstance(x, (set, frozenset)):
        s_ = SetV()
        for e in sorted(x, key=repr):
            s_.items[e] = K(e)
        return s_
    return K(x)


def _pure_ext_table():
    import struct as _struct, operator as _operator, binascii as _ba, zlib as _zlib, itertools as _it, functools as _ft
    t = {'struct.pack': _struct.pack, 'struct.unpack': _struct.unpack, 'struct.calcsize': _struct.calcsize, 'struct.unpack_from': _struct.unpack_from, 'struct.iter_unpack': lambda f, b: list(_struct.iter_unpack(f, b)),
         'bisect.bisect_left': __import__('bisect').bisect_left, 'bisect.bisect_right': __import__('bisect').bisect_right, 'bisect.bisect': __import__('bisect').bisect,
         'binascii.hexlify': _ba.hexlify, 'binascii.unhexlify': _ba.unhexlify, 'binascii.crc_hqx': _ba.crc_hqx, 'binascii.crc32': _ba.crc32,
         'binascii.b2a_hex': _ba.b2a_hex, 'binascii.a2b_hex': _ba.a2b_hex,
         'zlib.crc32': _zlib.crc32, 'zlib.adler32': _zlib.adler32,
         'itertools.product': lambda *a, **k: list(_it.product(*a, **k)), 'itertools.islice': lambda *a: list(_it.islice(*a)),
         'itertools.zip_longest': lambda *a, **k: list(_it.zip_longest(*a, **k)), 'itertools.repeat': lambda *a: list(_it.repeat(*a)) if len(a) > 1 else None,
         'itertools.chain.from_iterable': lambda a: list(_it.chain.from_iterable(a)), 'itertools.combinations': lambda *a: list(_it.combinations(*a)),
         'itertools.permutations': lambda *a: list(_it.permutations(*a)), 'itertools.pairwise': lambda a: list(zip(a, a[1:])),
         'itertools.count': None}
    for nm in ('gcd', 'isqrt', 'lcm', 'log2', 'log', 'pow', 'sqrt', 'floor', 'ceil', 'trunc', 'fabs', 'log10', 'comb', 'factorial', 'prod'):
        if hasattr(math, nm):
            t['math.' + nm] = getattr(math, nm)
    for nm in ('add', 'sub', 'mul', 'floordiv', 'mod', 'and_', 'or_', 'xor', 'lshift', 'rshift', 'neg', 'invert', 'not_', 'eq', 'ne', 'lt', 'le', 'gt', 'ge',
               'truediv', 'pow', 'index', 'abs', 'concat', 'contains', 'getitem', 'truth'):
        t['operator.' + nm] = getattr(_operator, nm)
    return {k: v for k, v in t.items() if v is not None}


_PURE_EXT = _pure_ext_table()
_OPERATOR_AST = {'add': ast.Add, 'sub': ast.Sub, 'mul': ast.Mult, 'floordiv': ast.FloorDiv, 'mod': ast.Mod, 'and_': ast.BitAnd, 'or_': ast.BitOr,
                 'xor': ast.BitXor, 'lshift': ast.LShift, 'rshift': ast.RShift, 'pow': ast.Pow, 'truediv': ast.Div}
_OPERATOR_CMP = {'eq': ast.Eq, 'ne': ast.NotEq, 'lt': ast.Lt, 'le': ast.LtE, 'gt': ast.Gt, 'ge': ast.GtE}
_PY_ERRORS = (ValueError, OverflowError, IndexError, KeyError, TypeError, ZeroDivisionError, AttributeError, UnicodeError)


_NEVER_FOLD = {'operator.methodcaller', 'operator.itemgetter', 'operator.attrgetter'}


def pure_ext(it, dotted, args, kw, n):
    """library functions without side effects: evaluated on constants by the checker's own python (constant folding); on symbolic
    arguments the operator.* family is mapped to the interpreter's own operators.  None = not handled here"""
    f = _PURE_EXT.get(dotted)
    if f is not None and dotted not in _NEVER_FOLD:
        try:
            a = [to_const(x) for x in args]
            k = {key: to_const(x) for key, x in kw.items()}
        except NotConst:
            a = None
        if a is not None:
            try:
                r = f(*a, **k)
            except Exception as e:
                if isinstance(e, _PY_ERRORS) or type(e).__name__ == 'error':
                    raise RaiseEx(type(e).__name__ if type(e).__name__ != 'error' else 'error', str(e)[:60])
                raise
            return from_const(r)
    if dotted.startswith('operator.'):
        nm = dotted.split('.')[1]
        if nm in _OPERATOR_AST and len(args) == 2:
            return it.binop(_OPERATOR_AST[nm](), args[0], args[1], n)
        if nm in _OPERATOR_CMP and len(args) == 2:
            return it.cmp(_OPERATOR_CMP[nm](), args[0], args[1], n)
        if nm == 'getitem' and len(args) == 2:
            return it.getitem(args[0], args[1], n)
        if nm == 'index' and len(args) == 1 and (isinstance(args[0], PInt) or irange(args[0]) is not None
                                                  or (isinstance(args[0], Sym) and args[0].meta.get('ty') == 'int')):
            return args[0]        # operator.index of an integer is that integer
        if nm == 'methodcaller' and args and isinstance(args[0], K) and isinstance(args[0].v, str):
            mname, margs, mkw = args[0].v, list(args[1:]), dict(kw)
            return Native(lambda it_, a2, k2, node: it_.call(it_.getattr(a2[0], mname, node), margs, mkw, node), f'methodcaller({mname})')
        if nm in ('itemgetter', 'attrgetter') and args and all(isinstance(a, K) for a in args):
            keys = [a.v for a in args]

            def getter(it_, a2, k2, node, _keys=keys, _nm=nm):
                one = (lambda key: it_.getitem(a2[0], K(key), node)) if _nm == 'itemgetter' else (lambda key: it_.getattr(a2[0], key, node))
                vals = [one(key) for key in _keys]
                return vals[0] if len(vals) == 1 else ListV(vals, tup=True)
            return Native(getter, dotted)
    if dotted == 'functools.reduce':
        items = it.iterate(args[1])
        if items is None:
            raise Fail('functools.reduce over an unknown iterable')
        items = list(items)
        if len(args) > 2:
            acc = args[2]
        elif items:
            acc = items.pop(0)
        else:
            raise RaiseEx('TypeError', 'reduce() of empty iterable with no initial value')
        for x in items:
            acc = it.call(args[0], [acc, x], {}, n)
        return acc
    if dotted == 'functools.partial':
        f0, a0, k0 = args[0], list(args[1:]), dict(kw)
        return Native(lambda it_, a2, k2, node: it_.call(f0, a0 + list(a2), {**k0, **k2}, node), 'functools.partial')
    if dotted in ('contextlib.suppress', 'suppress'):
        names = []
        for a_ in args:
            nm_ = getattr(a_, 'name', None)
            if nm_ is None:
                raise Fail('contextlib.suppress of something that is not an exception class')
            names.append(nm_)
        return SuppressCM(names)
    if dotted in ('io.BytesIO', 'BytesIO'):
        return BytesIOModel(it, args[0] if args else None)
    if dotted in ('functools.lru_cache', 'functools.cache', 'lru_cache', 'cache'):
        # call form: lru_cache(maxsize=...)(f) / lru_cache(f) / cache(f)
        if args and not isinstance(args[0], K):
            return MemoFn(args[0])
        return Native(lambda it_, a2, k2, node: MemoFn(a2[0]), dotted)
    if dotted in ('functools.wraps',):
        return Native(lambda it_, a2, k2, node: a2[0], 'functools.wraps')
    if dotted in ('itertools.chain.from_iterable',):
        outer = it.iterate(args[0])
        if outer is not None:
            inner = [it.iterate(x) for x in outer]
            if all(l is not None for l in inner):
                return ListV([x for l in inner for x in l])
    if dotted in ('hmac.compare_digest', 'secrets.compare_digest', '_operator._compare_digest', 'operator._compare_digest') and len(args) == 2:
        # equality of two byte strings / ASCII texts (in constant time - timing is not modelled); other types are a TypeError
        for x in args:
            if isinstance(x, (ListV, DictV, SetV, Inst, PInt)) or (isinstance(x, K) and not isinstance(x.v, (bytes, bytearray, str))):
                raise RaiseEx('TypeError', 'unsupported operand types(s) or combination of types')
        return it.cmp(ast.Eq(), args[0], args[1], n)
    if dotted in ('itertools.count',) and all(isinstance(a, K) and isinstance(a.v, int) for a in args) and not kw:
        return CountStream(*[a.v for a in args])
    if dotted in ('itertools.islice',) and isinstance(args[0], CountStream) and all(isinstance(a, K) for a in args[1:]):
        import itertools as _it
        return ListV([K(x) for x in _it.islice(_it.count(args[0].start, args[0].step), *[a.v for a in args[1:]])])
    if dotted in ('itertools.islice',):
        items = it.iterate(args[0])
        if items is not None and all(isinstance(a, K) for a in args[1:]):
            import itertools as _it
            return ListV(list(_it.islice(items, *[a.v for a in args[1:]])))
    if dotted in ('itertools.zip_longest',):
        lists = [it.iterate(a) for a in args]
        if all(l is not None for l in lists):
            import itertools as _it
            fill = kw.get('fillvalue', K(None))
            return ListV([ListV(list(t), tup=True) for t in _it.zip_longest(*lists, fillvalue=fill)])
    if dotted in ('itertools.product',):
        lists = [it.iterate(a) for a in args]
        if all(l is not None for l in lists) and isinstance(kw.get('repeat', K(1)), K):
            import itertools as _it
            return ListV([ListV(list(t), tup=True) for t in _it.product(*lists, repeat=kw.get('repeat', K(1)).v)])
    if dotted in ('itertools.repeat',) and len(args) == 2 and isinstance(args[1], K):
        return ListV([args[0]] * args[1].v)
    if dotted in ('collections.OrderedDict', 'OrderedDict', 'collections.defaultdict', 'defaultdict'):
        d = DictV()
        src = args[0] if dotted.endswith('OrderedDict') and args else (args[1] if len(args) > 1 else None)
        if dotted.endswith('defaultdict') and args and not (isinstance(args[0], K) and args[0].v is None):
            d.default_factory = args[0]
        if src is not None:
            filled = builtin(it, 'dict', [src], {}, n)
            if not isinstance(filled, DictV):
                raise Fail(f'{dotted} from an unknown mapping')
            d.d, d.keyobj = filled.d, filled.keyobj
        for k_, x in kw.items():
            d.d[k_] = x
            d.keyobj[k_] = K(k_)
        return d
    if dotted in ('collections.Counter', 'Counter'):
        d = DictV()
        d.default_factory = Builtin('int')
        items = it.iterate(args[0]) if args else []
        if items is None:
            raise Fail('Counter over an unknown iterable')
        for x in items:
            k_ = it.dkey(x)
            d.d[k_] = it.binop(ast.Add(), d.d.get(k_, K(0)), K(1))
            d.keyobj[k_] = x
        return d
    if dotted in ('collections.namedtuple', 'namedtuple') and len(args) >= 2:
        try:
            fields = to_const(args[1])
        except NotConst:
            raise Fail('namedtuple with symbolic field names')
        if isinstance(fields, str):
            fields = fields.replace(',', ' ').split()
        return NamedTupleClass(to_const(args[0]), list(fields), kw.get('defaults'))
    return None


class StructObj:
    """struct.Struct(fmt): pack / unpack / size by constant folding; unpack of a symbolic byte string gives one opaque value per item"""
    not_none = True

    def __init__(self, fmt):
        import struct as _struct
        self.fmt = fmt
        self.st = _struct.Struct(fmt)

    def abs_key(self):
        return ('struct', self.fmt)

    def abs_attr(self, it, a, n):
        if a == 'size':
            return K(self.st.size)
        if a == 'format':
            return K(self.fmt)
        if a in ('pack', 'unpack', 'unpack_from', 'iter_unpack'):
            return Native(lambda it_, args, kw, node, _a=a: ext_call(it_, 'struct.' + _a, [K(self.fmt)] + list(args), kw, node), 'Struct.' + a)
        return None


def struct_items(fmt):
    """[(code, count)] of a struct format with an explicit byte order and standard sizes; None when not of that form"""
    import re as _re
    if not fmt or fmt[0] not in '<>!=':
        return None
    out = []
    for cnt, code in _re.findall(r'(\d*)([xcbB?hHiIlLqQs])', fmt[1:]):
        c = int(cnt) if cnt else 1
        if code == 's':
            out.append(('s', c))
        else:
            out += [(code, 1)] * c
    return out


class NamedTupleClass:
    """collections.namedtuple(...) / typing.NamedTuple class: instances are tuples (ListV tup=True) with field names"""
    not_none = True

    def __init__(self, name, fields, defaults=None):
        self.name, self.fields, self.defaults = name, fields, defaults

    def abs_key(self):
        return ('namedtuple', self.name, tuple(self.fields))

    def abs_call(self, it, args, kw, n):
        vals = list(args)
        dflt = it.iterate(self.defaults) if self.defaults is not None else []
        for i, f in enumerate(self.fields[len(vals):], start=len(vals)):
            if f in kw:
                vals.append(kw[f])
            elif dflt and i >= len(self.fields) - len(dflt):
                vals.append(dflt[i - (len(self.fields) - len(dflt))])
            else:
                raise RaiseEx('TypeError', f'{self.name}() missing argument {f}')
        if len(vals) != len(self.fields) or any(k not in self.fields for k in kw):
            raise RaiseEx('TypeError', f'{self.name}() arguments')
        r = ListV(vals, tup=True)
        r.nt = self
        return r

    def abs_attr(self, it, a, n):
        if a == '_fields':
            return ListV([K(f) for f in self.fields], tup=True)
        if a == '_make':
            return Native(lambda it_, args, kw, node: self.abs_call(it_, it_.iterate(args[0]), {}, node), 'namedtuple._make')
        return None


# ------------------------------------------------------------------ external (library) calls
class CountStream:
    """itertools.count(): an endless stream. Only a rule that has chosen to walk a prefix (STREAM_CAP) iterates it; the interpreter then
    records that it did (stream_capped) - running off the end of the prefix is the analysis giving up, never a behaviour of the code"""
    def __init__(self, start=0, step=1):
        self.start, self.step = start, step

    def abs_iter(self, it):
        raise Fail('an endless stream (itertools.count) is drained')

    def abs_pull(self, it):
        # pulled one item at a time by a lazy consumer (generator expression, filter, map, a for loop with an exit); a consumer that has
        # not stopped after the prefix the rule allows (default one million items; the interpreter's step budget ends a consumer that never stops) is the analysis giving up, never a behaviour of the code
        for i in range(getattr(it, 'STREAM_CAP', None) or 1_000_000):
            yield K(self.start + i * self.step)
        raise Fail('an endless stream (itertools.count) was not left within the walked prefix')


def ext_call(it, dotted, args, kw, n):
    hook = getattr(it, 'ext_hook', None)
    if hook is not None:
        r = hook(dotted, args, kw, n)
        if r is not None:
            return r
    last = dotted.split('.')[-1]
    if dotted.split('.')[-2:-1] in (['bitarray'], ['frozenbitarray']) and last not in ('bitarray', 'frozenbitarray', 'util') and dotted.count('.') >= 2 and args and (isinstance(args[0], BA) or (isinstance(args[0], Inst) and isinstance(args[0].native, BA))):
        # an unbound method of the library class applied to an instance: `bitarray.extend(self, x)` - the library's own implementation,
        # not an override of a subclass
        nat = args[0] if isinstance(args[0], BA) else args[0].native
        m_ = ba_methods(it, nat, last, args[0] if isinstance(args[0], Inst) else None)
        if m_ is None:
            raise Fail(f'bitarray.{last} is not modelled')
        return it.call(m_, list(args[1:]), dict(kw), n)
    if dotted in ('hashlib.sha256', 'hashlib.sha512', 'hashlib.sha1', 'hashlib.md5'):
        return Hasher(last, args[0] if args else None)
    if dotted == 'struct.Struct' and args and isinstance(args[0], K) and isinstance(args[0].v, (str, bytes)):
        return StructObj(args[0].v if isinstance(args[0].v, str) else args[0].v.decode())
    r = pure_ext(it, dotted, args, kw, n)
    if r is not None:
        return r
    if dotted in ('struct.unpack', 'struct.unpack_from') and len(args) >= 2 and isinstance(args[0], K) and not isinstance(args[1], K):
        items = struct_items(args[0].v if isinstance(args[0].v, str) else args[0].v.decode())
        if items is not None:
            vals = [x for x in items if x[0] != 'x']
            return ListV([Sym(f'struct[{i}:{c}]', key=('struct', repr(it.vkey(args[1])), args[0].v, i), not_none=True) for i, (c, _) in enumerate(vals)], tup=True)
    if last == 'int2ba' and 'bitarray' in dotted:
        value = args[0]
        length = args[1] if len(args) > 1 else kw.get('length')
        signed = kw.get('signed', args[3] if len(args) > 3 else K(False))
        if length is None:
            raise Fail('int2ba without length')
        return int2ba(it, value, length, it.truth(signed))
    if last == 'ba2int' and 'bitarray' in dotted:
        signed = kw.get('signed', args[1] if len(args) > 1 else K(False))
        return ba2int(it, args[0], it.truth(signed))
    if dotted in ('bitarray.bitarray', 'bitarray', 'bitarray.frozenbitarray', 'frozenbitarray'):
        # (a frozenbitarray is modelled as the bit string it holds: the package cannot mutate it, an attempt would be a TypeError at run time)
        if not args:
            return BA()
        return to_ba(it, args[0], 'bitarray() argument')
    if dotted == 'math.ceil':
        v = args[0]
        if isinstance(v, K):
            return K(math.ceil(v.v))
        if isinstance(v, Term) and v.op == '/':
            return Term('ceildiv', v.a[0], v.a[1])
        return Term('ceil', v)
    if dotted == 'math.floor':
        v = args[0]
        if isinstance(v, K):
            return K(math.floor(v.v))
        return Term('floor', v)
    if dotted in ('math.log2', 'math.pow', 'math.log'):
        if all(isinstance(a, K) for a in args):
            return K(getattr(math, last)(*[a.v for a in args]))
        return Term(last, *args)
    if dotted.startswith('base64.') and last in ('b64decode', 'urlsafe_b64decode', 'b64encode', 'urlsafe_b64encode'):
        a = args[0]
        if isinstance(a, K):
            try:
                return K(getattr(_b64, last)(a.v))
            except _binascii.Error:
                raise RaiseEx('Error', 'binascii.Error')
            except (ValueError, TypeError) as e:
                raise RaiseEx(type(e).__name__, '')
        return Term(last, a)
    if dotted == 'itertools.accumulate':
        if set(kw) - {'initial', 'func'} or len(args) > 2:
            raise Fail(f'itertools.accumulate with arguments the model does not know: {sorted(kw)}')
        items = it.iterate(args[0])
        if items is not None:
            func = kw.get('func', args[1] if len(args) > 1 else None)
            init = kw.get('initial')
            has_init = init is not None and not (isinstance(init, K) and init.v is None)
            out, tot = ([init], init) if has_init else ([], None)
            for x in items:
                tot = x if tot is None else (it.call(func, [tot, x], {}, n) if func is not None and not (isinstance(func, K) and func.v is None)
                                              else it.binop(ast.Add(), tot, x))
                out.append(tot)
            return ListV(out)
    if dotted == 'itertools.chain':
        lists = [it.iterate(a) for a in args]
        if all(l is not None for l in lists):
            return ListV([x for l in lists for x in l])
    if dotted == 'copy.copy' or dotted == 'copy.deepcopy':
        return args[0]
    if dotted in ('typing.cast',):
        return args[1]
    if dotted in ('enum.auto', 'auto'):
        return Sym('enum.auto')
    if dotted in ('dataclasses.field', 'field'):
        return Term('ext:' + dotted, *args, *[Term('kw', K(k), v) for k, v in sorted(kw.items())])
    if dotted.startswith('typing.'):
        return Sym('typing')
    if dotted.startswith('logging.') or dotted.startswith('logger.'):
        return Sym('logging')
    if dotted.startswith('re.') and last in ('compile', 'match', 'fullmatch', 'search', 'findall', 'sub', 'split') \
            and all(isinstance(a, K) for a in args) and all(isinstance(x, K) for x in kw.values()):
        import re as _re
        try:
            r = getattr(_re, last)(*[a.v for a in args], **{k: x.v for k, x in kw.items()})
        except _re.error as e:
            raise RaiseEx('error', f're: {e}')
        return wrap_re(r)
    if dotted in ('collections.deque', 'deque'):
        items = it.iterate(args[0]) if args else []
        if items is None:
            raise Fail('deque over unknown iterable')
        d = ListV(list(items))
        d.is_deque = True
        return d
    if dotted == 'zlib.crc32':
        if isinstance(args[0], K):
            import zlib
            return K(zlib.crc32(args[0].v))
        return Term('zlib.crc32', args[0])
    return Term('ext:' + dotted, *args, *[Term('kw', K(k), v) for k, v in sorted(kw.items())])


class SuppressCM:
    """contextlib.suppress(*exceptions)"""
    not_none = True

    def __init__(self, names):
        self.names = names

    def abs_key(self):
        return ('suppress', tuple(self.names))

    def abs_exit(self, it, exc):
        return exc is not None and it.exc_matches(exc.kind, self.names, getattr(exc, 'value', None))


class BytesIOModel:
    """io.BytesIO used as an output buffer: write / getvalue / tell (sequential writes; symbolic pieces are concatenated)"""
    not_none = True

    def __init__(self, it, initial=None):
        self.parts = [] if initial is None else [initial]
        self.pos_known = True

    def abs_key(self):
        return ('obj', id(self))

    def abs_truth(self, it):
        return True

    def abs_enter(self, it):
        return self

    def abs_exit(self, it, exc):
        return False

    def value(self, it):
        out = K(b'')
        for p_ in self.parts:
            out = p_ if (isinstance(out, K) and out.v == b'') else it.concat(out, p_)
            if out is None:
                raise Fail('BytesIO content cannot be concatenated')
        return out

    def abs_attr(self, it, a, n):
        if a == 'write':
            def write(it_, args, kw, node):
                b = args[0]
                if isinstance(b, K) and isinstance(b.v, (bytes, bytearray)):
                    b = K(bytes(b.v))
                    ln = K(len(b.v))
                else:
                    ln = bytes_len(it_, b)
                    if not isinstance(ln, K):
                        raise Fail('BytesIO.write of a byte string of unknown length')
                self.parts.append(b)
                return ln
            return Native(write, 'BytesIO.write')
        if a == 'writelines':
            def writelines(it_, args, kw, node):
                w = self.abs_attr(it_, 'write', node)
                for piece in it_.pull_iter(args[0], node):
                    w.fn(it_, [piece], {}, node)
                return K(None)
            return Native(writelines, 'BytesIO.writelines')
        if a in ('getvalue', 'getbuffer', 'read'):
            if a == 'read' and self.pos_known:
                raise Fail('BytesIO.read after writes (position at the end) is not modelled')
            return Native(lambda it_, args, kw, node: self.value(it_), 'BytesIO.' + a)
        if a == 'tell':
            def tell(it_, args, kw, node):
                tot = 0
                for p_ in self.parts:
                    ln = bytes_len(it_, p_)
                    if not isinstance(ln, K):
                        raise Fail('BytesIO.tell with a piece of unknown length')
                    tot += ln.v
                return K(tot)
            return Native(tell, 'BytesIO.tell')
        if a in ('close', 'flush'):
            return Native(lambda it_, args, kw, node: K(None), 'BytesIO.' + a)
        return None


class _LiveKeys(dict):
    """the key objects of a dictionary view over an instance's attributes: always the attribute names themselves"""
    def __init__(self, attrs):
        super().__init__()
        self.attrs = attrs

    def __getitem__(self, k):
        return K(k)

    def get(self, k, d=None):
        return K(k) if k in self.attrs else d

    def __contains__(self, k):
        return k in self.attrs

    def values(self):
        return [K(k) for k in self.attrs]

    def items(self):
        return [(k, K(k)) for k in self.attrs]

    def keys(self):
        return self.attrs.keys()

    def __iter__(self):
        return iter(self.attrs)

    def __len__(self):
        return len(self.attrs)

    def pop(self, k, *d):
        return K(k)

    def __setitem__(self, k, v):
        pass

    def __delitem__(self, k):
        pass

    def update(self, *a, **k):
        pass

    def clear(self):
        pass

    def setdefault(self, k, v=None):
        return K(k)


class SingleDispatch:
    """functools.singledispatch(f): the implementation registered for the nearest class in the MRO of the first argument's type, f itself
    for everything else.  Registrations are the `@f.register(...)` / `@f.register` decorations and `f.register(T, g)` calls at module level
    of the module that defines f (they run at import time; the defs they decorate are usually all called `_`)"""
    not_none = True

    def __init__(self, it, f, method=False):
        from .front import FuncRef
        self.f, self.table, self.method = f, [], method         # [(type value, FuncRef)]
        mod = it.prog.modules.get(f.module)
        from .interp import Frame
        # singledispatch: the registrations are among the module's statements; singledispatchmethod: among those of the class body
        body = (f.cls.node.body if method and f.cls is not None else mod.tree.body if mod is not None else [])
        for st in body:
            if isinstance(st, (ast.FunctionDef,)):
                g = FuncRef(st, f.module, f.cls if method else None)
                for d in st.decorator_list:
                    core = d.func if isinstance(d, ast.Call) else d
                    if isinstance(core, ast.Attribute) and core.attr == 'register' and isinstance(core.value, ast.Name) and core.value.id == f.name:
                        if isinstance(d, ast.Call) and d.args:
                            for a in d.args[:1]:
                                self.table.append((it.ev(a, Frame(f.module)), g))
                        else:
                            ann = st.args.args[0].annotation if st.args.args else None
                            if ann is None:
                                raise Fail(f'{f.name}.register on a function without an annotated first parameter')
                            self.table.append((it.ev(ann, Frame(f.module)), g))
            elif isinstance(st, ast.Expr) and isinstance(st.value, ast.Call) and isinstance(st.value.func, ast.Attribute) and st.value.func.attr == 'register' \
                    and isinstance(st.value.func.value, ast.Name) and st.value.func.value.id == f.name and len(st.value.args) == 2:
                self.table.append((it.ev(st.value.args[0], Frame(f.module)), it.ev(st.value.args[1], Frame(f.module))))

    def abs_key(self):
        return ('singledispatch', self.f.qual)

    def abs_attr(self, it, a, n):
        if a == 'register':
            def register(it_, args, kw, node):
                if len(args) == 2:
                    self.table.append((args[0], args[1]))
                    return args[1]
                ty = args[0]

                def deco(it2, a2, k2, n2):
                    self.table.append((ty, a2[0]))
                    return a2[0]
                return Native(deco, 'singledispatch.register(type)')
            return Native(register, 'singledispatch.register')
        if a in ('__name__', '__qualname__'):
            return K(self.f.name)
        if a == '__wrapped__':
            return self.f
        if a == 'dispatch':
            return Native(lambda it_, args, kw, node: self.pick_for_type(it_, args[0]), 'singledispatch.dispatch')
        return None

    def type_chain(self, it, v):
        """the classes of v from most to least specific, as abstract class values"""
        t = builtin(it, 'type', [v], {}, None)
        from .front import ClassRef
        if isinstance(t, ClassRef):
            chain = list(it.prog.mro(t))
            ext = it.prog.ext_bases(t)
            return chain + [Builtin(b) if b in ('int', 'str', 'bytes', 'bytearray', 'list', 'dict', 'tuple', 'set', 'object') else Ext(b) for b in ext] + [Builtin('object')]
        if isinstance(t, Builtin):
            py = _TYPES.get(t.name)
            if py is not None:
                return [Builtin(c.__name__) for c in py.__mro__]
            return [t, Builtin('object')]
        raise Fail(f'singledispatch on a value whose type is not known: {vrepr(v)[:40]}')

    def pick(self, it, v):
        for c in self.type_chain(it, v):
            for ty, g in self.table:
                if it.vkey(ty) == it.vkey(c) or (isinstance(ty, Ext) and isinstance(c, Ext) and ty.dotted.split('.')[-1] == c.dotted.split('.')[-1]) \
                        or (isinstance(c, Ext) and getattr(ty, 'name', None) == c.dotted.split('.')[-1]):
                    return g
        return self.f

    def abs_call(self, it, args, kw, n):
        k = 1 if self.method else 0
        if len(args) <= k:
            raise RaiseEx('TypeError', f'{self.f.name} requires at least 1 positional argument')
        return it.call(self.pick(it, args[k]), list(args), dict(kw), n)

    def abs_bind(self, inst):
        return Native(lambda it_, args, kw, node: self.abs_call(it_, [inst] + list(args), kw, node), f'{self.f.name} (bound)') if self.method else self


class ContextManagerFactory:
    """@contextlib.contextmanager def f(...): calling it gives a context manager driven by the generator: __enter__ runs the body to its
    yield, __exit__ resumes it - with the exception of the with-body thrown in at the yield when there is one"""
    not_none = True

    def __init__(self, f):
        self.f = f

    def abs_key(self):
        return ('contextmanager', self.f.qual)

    def abs_call(self, it, args, kw, n):
        iv = it.call(self.f, list(args), dict(kw), n)
        co = getattr(iv, 'co', None)
        if co is None:
            raise Fail(f'contextmanager over {self.f.qual}, which is not a generator function')
        return GeneratorCM(co)


class GeneratorCM:
    not_none = True

    def __init__(self, co):
        self.co = co

    def abs_key(self):
        return ('gencm', id(self))

    def abs_enter(self, it):
        from .values import StopIter
        try:
            return self.co.next()
        except StopIter:
            raise RaiseEx('RuntimeError', "generator didn't yield")

    def abs_exit(self, it, exc):
        from .values import StopIter
        if exc is None:
            try:
                self.co.next()
            except StopIter:
                return False
            raise RaiseEx('RuntimeError', "generator didn't stop")
        try:
            self.co.throw(exc)
        except StopIter:
            return True                 # the body handled the exception and finished: it is suppressed
        except RaiseEx as e2:
            if e2 is exc:
                return False            # re-raised (or passed through `finally`): the with statement lets it propagate
            raise
        raise RaiseEx('RuntimeError', "generator didn't stop after throw()")


class MemoFn:
    """functools.lru_cache(...)(f): the result of an earlier call with equal arguments is returned again - equality being the arguments'
    own __eq__, as the cache's dictionary lookup decides it; distinct symbolic arguments denote distinct keys"""
    not_none = True

    def __init__(self, f):
        self.f, self.table = f, []

    def abs_key(self):
        return ('memo', id(self))

    def abs_truth(self, it):
        return True

    def abs_call(self, it, args, kw, n):
        def same(x, y):
            r = it.cmp(ast.Eq(), x, y, n)
            if isinstance(r, K):
                return bool(r.v)
            if getattr(it, 'INJECTIVE_KEYS', True):
                return False
            return it.truth(r, n)
        for a0, k0, r0 in self.table:
            if len(a0) == len(args) and sorted(k0) == sorted(kw) and all(same(x, y) for x, y in list(zip(a0, args)) + [(k0[k], kw[k]) for k in kw]):
                return r0
        r = it.call(self.f, list(args), dict(kw), n)
        self.table.append((list(args), dict(kw), r))
        return r

    def abs_attr(self, it, a, n):
        if a == 'cache_clear':
            def clear(it_, args, kw, node):
                self.table.clear()
                return K(None)
            return Native(clear, 'cache_clear')
        if a == '__wrapped__':
            return self.f
        if a == 'cache_info':
            return Native(lambda it_, args, kw, node: Sym('cache_info'), 'cache_info')
        return None


class ReObj:
    """a compiled pattern or a match object of the standard `re` module, applied to constants only (constant folding)"""
    not_none = True

    def __init__(self, obj):
        self.obj = obj

    def abs_key(self):
        return ('re', repr(self.obj))

    def abs_truth(self, it):
        return True

    def abs_attr(self, it, a, node):
        target = getattr(self.obj, a, None)
        if target is None:
            return None
        if not callable(target):
            return wrap_re(target)

        def call(it_, args, kw, n, target=target):
            if not all(isinstance(x, K) for x in args) or not all(isinstance(x, K) for x in kw.values()):
                import re as _re
                if isinstance(self.obj, _re.Pattern) and a in ('fullmatch', 'match') and len(args) == 1 and not kw:
                    r = re_on_base64(it_, self.obj, a, args[0], n)
                    if r is not None:
                        return r
                raise Fail(f'regular expression applied to a symbolic value ({a})')
            try:
                return wrap_re(target(*[x.v for x in args], **{k: x.v for k, x in kw.items()}))
            except (IndexError, TypeError) as e:
                raise RaiseEx(type(e).__name__, str(e)[:60])
        return Native(call, 're.' + a)

    def abs_item(self, it, i, node):
        if isinstance(i, K):
            try:
                return wrap_re(self.obj[i.v])
            except (IndexError, TypeError) as e:
                raise RaiseEx(type(e).__name__, str(e)[:60])
        raise Fail('match[...] with a symbolic index')


_B64_STD = 'ABCDEFGHIJKLMNOPQRSTUVWXYZabcdefghijklmnopqrstuvwxyz0123456789+/'
_B64_URL = _B64_STD[:-2] + '-_'


def re_on_base64(it, pat, method, subject, node):
    """pattern.fullmatch / match on the base64 text of a byte layout (Rope): decided per position from the character classes of the
    pattern when the pattern is a sequence of fixed-width character classes or one repeated class.  A position whose three source
    bytes are opaque can hold any character of the alphabet, so a class that lacks part of the alphabet there leaves the match
    undecided (both outcomes exist for some input) and the path forks.  -> K(match-or-None surrogate) / None if not in this fragment."""
    import re as _re
    try:
        import re._parser as sre
        import re._constants as C
    except ImportError:      # python < 3.11
        import sre_parse as sre
        import sre_constants as C
    from .rope import Rope
    v = subject
    if isinstance(v, Term) and v.op == 'decode':
        v = v.a[0]
    if hasattr(v, 'payload') and hasattr(v, 'urlsafe'):       # a rule module's own base64-text abstraction
        alpha = _B64_URL if v.urlsafe else _B64_STD
        rope = Rope.of(it, v.payload)
    elif isinstance(v, Term) and v.op in ('b64encode', 'urlsafe_b64encode'):
        alpha = _B64_STD if v.op == 'b64encode' else _B64_URL
        rope = Rope.of(it, v.a[0])
    else:
        return None
    if rope is None:
        return None
    opaque = []
    for val, nb in rope.parts:
        opaque += [not isinstance(val, K)] * nb if not isinstance(val, K) else [False] * nb
        # only a plain unknown (Sym) is unconstrained; a Term (a checksum of the other bytes, ...) is unknown but not free
        if not isinstance(val, K) and not isinstance(val, Sym):
            opaque[-nb:] = [None] * nb
    nbytes = len(opaque)
    L = 4 * ((nbytes + 2) // 3)
    npad = (3 - nbytes % 3) % 3
    # per position: 'any' (every alphabet character occurs for some input), 'pad', or 'some' (an unknown subset of the alphabet)
    kind = []
    for p in range(L):
        g, j = divmod(p, 4)
        src = {0: (0,), 1: (0, 1), 2: (1, 2), 3: (2,)}[j]
        idx = [3 * g + k for k in src]
        if p >= L - npad:
            kind.append('pad')
        elif all(i < nbytes and opaque[i] is True for i in idx):
            kind.append('any')
        else:
            kind.append('some')
    # the pattern: a sequence of single-character classes with repeat counts
    try:
        tree = list(sre.parse(pat.pattern, pat.flags))
    except Exception:
        return None
    elems = []
    for op, av in tree:
        if op is C.AT:
            if av in (C.AT_BEGINNING, C.AT_BEGINNING_STRING, C.AT_END, C.AT_END_STRING):
                continue
            return None
        lo = hi = 1
        if op in (C.MAX_REPEAT, C.MIN_REPEAT):
            lo, hi, sub = av
            sub = list(sub)
            if len(sub) != 1:
                return None
            op, av = sub[0]
        if op not in (C.IN, C.LITERAL, C.ANY, C.NOT_LITERAL):
            return None
        one = _re.compile(_unparse_class(op, av, C), pat.flags & ~_re.VERBOSE)
        elems.append((one, lo, hi if hi is not C.MAXREPEAT else None))
    if not elems:
        return None
    variable = [e for e in elems if e[1] != e[2]]
    if variable and len(elems) > 1:
        return None
    if variable:
        one, lo, hi = elems[0]
        if L < lo or (method == 'fullmatch' and hi is not None and L > hi):
            return K(None)
        span = L if hi is None else min(L, hi)
        classes = [one] * span
    else:
        classes = [e[0] for e in elems for _ in range(e[1])]
        if len(classes) > L or (method == 'fullmatch' and len(classes) != L):
            return K(None)
    verdict = True
    for p, one in enumerate(classes):
        chars = '=' if kind[p] == 'pad' else alpha
        ok = [bool(one.fullmatch(c)) for c in chars]
        if all(ok):
            continue
        if not any(ok):
            return K(None)
        if kind[p] == 'any':
            verdict = None
        elif verdict is True:
            verdict = 'unknown'
    if verdict is True:
        return ReObj(_SymMatch(subject))
    if verdict is None:
        c = Cond(('re', pat.pattern, method, repr(it.vkey(subject))), True, f're {pat.pattern!r} matches the base64 text')
        return ReObj(_SymMatch(subject)) if it.truth(c, node) else K(None)
    return None


def _unparse_class(op, av, C):
    """a one-character pattern equivalent to the parsed class element"""
    def lit(c):
        ch = chr(c)
        return '\\' + ch if not ch.isalnum() else ch
    if op is C.ANY:
        return '.'
    if op is C.LITERAL:
        return lit(av)
    if op is C.NOT_LITERAL:
        return '[^' + lit(av) + ']'
    out = '['
    for k, v in av:
        if k is C.NEGATE:
            out += '^'
        elif k is C.LITERAL:
            out += lit(v)
        elif k is C.RANGE:
            out += lit(v[0]) + '-' + lit(v[1])
        elif k is C.CATEGORY:
            out += {C.CATEGORY_DIGIT: '\\d', C.CATEGORY_NOT_DIGIT: '\\D', C.CATEGORY_WORD: '\\w', C.CATEGORY_NOT_WORD: '\\W',
                    C.CATEGORY_SPACE: '\\s', C.CATEGORY_NOT_SPACE: '\\S'}[v]
        else:
            raise Fail(f'regex class element {k}')
    return out + ']'


class _SymMatch:
    """a successful match over the whole symbolic text: truthy; group(0) is the text"""
    def __init__(self, subject):
        self.subject = subject

    def __repr__(self):
        return f'<match over {vrepr(self.subject)[:30]}>'

    def group(self, *a):
        raise Fail('groups of a match over a symbolic text')


def wrap_re(r):
    import re as _re
    if isinstance(r, (_re.Pattern, _re.Match)):
        return ReObj(r)
    if isinstance(r, (list, tuple)) and any(isinstance(x, (list, tuple)) for x in r):
        return ListV([wrap_re(x) for x in r], tup=isinstance(r, tuple))
    if isinstance(r, list):
        return ListV([K(x) for x in r])
    return K(r)


# ------------------------------------------------------------------ attributes / methods of plain values
_K_METHODS = ('hex', 'to01', 'decode', 'encode', 'lower', 'upper', 'replace', 'startswith', 'endswith', 'get', 'keys',
              'values', 'items', 'bit_length', 'count', 'find', 'zfill', 'rjust', 'ljust', 'strip', 'split', 'index',
              'to_bytes', 'join', 'isdigit', 'rstrip', 'lstrip', 'format', 'rfind', 'title', 'capitalize')


def value_attr(it, v, a, n):
    if isinstance(v, BA):
        return ba_methods(it, v, a, None)
    if isinstance(v, ExcV):
        if a in getattr(v, 'attrs', {}):
            return v.attrs[a]
        if a == 'args':
            return ListV(list(v.args), tup=True)
        cls = getattr(v, 'cls', None)
        if cls is not None:
            r = it.class_attr(cls, a, v)
            if r is not None:
                return r
    if isinstance(v, ListV) and getattr(v, 'nt', None) is not None:
        nt = v.nt
        if a in nt.fields:
            return v.items[nt.fields.index(a)]
        if a == '_fields':
            return ListV([K(f) for f in nt.fields], tup=True)
        if a == '_replace':
            def repl(it_, args, kw, node, _v=v):
                vals = list(_v.items)
                for k, x in kw.items():
                    if k not in nt.fields:
                        raise RaiseEx('ValueError', f'unexpected field {k}')
                    vals[nt.fields.index(k)] = x
                r = ListV(vals, tup=True)
                r.nt = nt
                return r
            return Native(repl, 'namedtuple._replace')
        ncls = getattr(nt, 'cls', None)
        if ncls is not None and a not in ('_asdict', '_replace', '_fields', 'count', 'index'):
            # members a typing.NamedTuple class defines itself: properties, methods, class methods
            for c_ in it.prog.mro(ncls):
                if a in c_.methods:
                    from .front import FuncRef
                    f_ = FuncRef(c_.methods[a], c_.module, c_)
                    decs_ = f_.decorators()
                    if 'property' in decs_:
                        return it.invoke(f_, [v], {})
                    if 'staticmethod' in decs_:
                        return f_
                    if 'classmethod' in decs_:
                        return Bound(nt, f_)
                    return Bound(v, f_)
                if a in c_.class_attrs and a not in nt.fields:
                    # a constant of the class body that is not a field (no annotation): a plain class attribute
                    r_ = it.class_attr(c_, a, None)
                    if r_ is not None:
                        return r_
        if a == '_asdict':
            def asd(it_, args, kw, node, _v=v):
                d = DictV()
                for f, x in zip(nt.fields, _v.items):
                    d.d[f] = x
                    d.keyobj[f] = K(f)
                return d
            return Native(asd, 'namedtuple._asdict')
    if isinstance(v, K) and isinstance(v.v, (bytes, bytearray)) and a in ('nbytes', 'itemsize', 'format', 'ndim', 'readonly', 'obj'):
        # attributes of a memoryview over bytes (modelled as the bytes it views)
        return {'nbytes': K(len(v.v)), 'itemsize': K(1), 'format': K('B'), 'ndim': K(1), 'readonly': K(isinstance(v.v, bytes)), 'obj': v}[a]
    if isinstance(v, K) and isinstance(v.v, (bytes, bytearray)) and a in ('tobytes', 'release', 'toreadonly', 'cast', 'tolist', '__enter__', '__exit__'):
        return Bound(v, Native(lambda it_, args, kw, node, _a=a: val_method(it_, args[0], _a, args[1:], kw, node), 'val.' + a))
    if isinstance(v, K) and type(v.v).__name__ == 'SymBuf':
        return Bound(v, Native(lambda it_, args, kw, node, _a=a: val_method(it_, args[0], _a, args[1:], kw, node), 'val.' + a))
    if isinstance(v, K) and not hasattr(v.v, a):
        raise RaiseEx('AttributeError', f'{type(v.v).__name__} object has no attribute {a}', n)
    # a value whose Python type is known has exactly the attributes of that type: anything else is an AttributeError of the code
    pyt = (tuple if v.tup else list) if isinstance(v, ListV) else dict if isinstance(v, DictV) else set if isinstance(v, SetV) else int if isinstance(v, PInt) else None
    if pyt is not None and not hasattr(pyt, a) and not (isinstance(v, DictV) and a in ('default_factory', 'move_to_end', 'popitem', 'most_common', 'elements', 'subtract', 'total')) \
            and not (isinstance(v, ListV) and a in ('appendleft', 'popleft', 'extendleft', 'rotate', 'maxlen', '_asdict', '_replace', '_fields', '_make')):
        raise RaiseEx('AttributeError', f'{pyt.__name__} object has no attribute {a}', n)
    if isinstance(v, (K, PBits, ListV, DictV, SetV, Sym, Term, PInt, ExcV, Cond)):
        return Bound(v, Native(lambda it_, args, kw, node, _a=a: val_method(it_, args[0], _a, args[1:], kw, node), 'val.' + a))
    return None


def val_method(it, v, name, args, kw, node):
    if isinstance(v, PBits):
        if name == 'to01':
            return bits_value(v.pat, 'str')
        if name == 'tobytes':
            pat = v.pat + '0' * (-len(v.pat) % 8)
            return bits_value(pat, 'bytes')
        if name == 'hex':
            return Term('hex', v)
        if name == 'count' and v.known():
            return K(v.pat.count('1'))
        if name == 'replace' and v.view == 'str' and all(isinstance(a, K) for a in args):
            return v
        if name == 'decode':
            return Term('decode', v)
        if name in ('startswith', 'endswith') and v.view in ('str', 'bytes') and args:
            try:
                cands = to_const(args[0])
            except NotConst:
                cands = None
            if cands is not None:
                cands = list(cands) if isinstance(cands, tuple) else [cands]
                unknown = False
                for c in cands:
                    pat = c if isinstance(c, str) else ''.join(format(x, '08b') for x in c)
                    if v.view == 'str' and any(ch not in '01' for ch in pat):
                        continue
                    if len(pat) > len(v.pat):
                        continue
                    part = v.pat[:len(pat)] if name == 'startswith' else v.pat[len(v.pat) - len(pat):]
                    if all(x == y for x, y in zip(part, pat)):
                        return K(True)
                    if all(x == y or x == '?' for x, y in zip(part, pat)):
                        unknown = True
                if not unknown:
                    return K(False)
                return Cond((name, repr(v), repr(cands)), True, f'{v.pat}.{name}({cands})')
    if isinstance(v, (K, PInt)) and name == 'to_bytes':
        names = ['length', 'byteorder']
        b = dict(zip(names, args))
        b.update(kw)
        length, order, signed = b.get('length', K(1)), b.get('byteorder', K('big')), b.get('signed', K(False))
        if isinstance(v, K) and isinstance(v.v, int) and all(isinstance(x, K) for x in (length, order, signed)):
            try:
                return K(int(v.v).to_bytes(length.v, order.v, signed=bool(signed.v)))
            except OverflowError:
                raise RaiseEx('OverflowError', 'int too big to convert')
        return Term('to_bytes', v, length, order, signed)
    if isinstance(v, (Sym, Term)) and name == 'to_bytes':
        names = ['length', 'byteorder']
        b = dict(zip(names, args))
        b.update(kw)
        return Term('to_bytes', v, b.get('length', K(1)), b.get('byteorder', K('big')), b.get('signed', K(False)))
    if isinstance(v, PInt) and name == 'bit_length':
        return atom(f'bit_length({v.p})')
    if isinstance(v, K) and type(v.v) in (str, bytes, int, bool, float, tuple, frozenset, range) and name not in ('join', 'to_bytes') \
            and not name.startswith('__') and hasattr(v.v, name):
        # methods of immutable python values are pure: folded on constant arguments by the checker's own python
        try:
            ca = [to_const(a) for a in args]
            ck = {k: to_const(x) for k, x in kw.items()}
        except NotConst:
            ca = None
        if ca is not None:
            try:
                r = getattr(v.v, name)(*ca, **ck)
            except _PY_ERRORS as e:
                raise RaiseEx(type(e).__name__, str(e)[:60])
            return from_const(r)
    if isinstance(v, K) and isinstance(v.v, (bytes, bytearray)) and name in ('tobytes', 'release', 'toreadonly', 'cast', 'tolist', '__enter__', '__exit__'):
        # memoryview is modelled as the bytes it views
        if name == 'cast':
            if args and isinstance(args[0], K) and args[0].v in ('B', 'c', 'b') and args[0].v == 'B':
                return v
            raise Fail(f'memoryview.cast({args[0] if args else ""}) is not modelled')
        if name == 'tolist':
            return ListV([K(x) for x in v.v])
        if name == '__enter__':
            return v
        return K(bytes(v.v)) if name == 'tobytes' else v if name == 'toreadonly' else K(None)
    if isinstance(v, K) and type(v.v).__name__ == 'SymBuf':
        from .rope import buf_store, Rope
        if name == 'extend' and len(args) == 1 and Rope.of(it, args[0]) is not None:
            buf_store(it, v, len(v.v), len(v.v), args[0])
            return K(None)
        if name == 'append' and len(args) == 1 and isinstance(args[0], K) and isinstance(args[0].v, int) and not isinstance(args[0].v, bool):
            if not 0 <= args[0].v < 256:
                raise RaiseEx('ValueError', 'byte must be in range(0, 256)')
            buf_store(it, v, len(v.v), len(v.v), K(bytes([args[0].v])))
            return K(None)
        if name == 'copy' and not args:
            return K(type(v.v)(v.v.rope))
        if name == 'clear' and not args:
            v.v = bytearray()
            return K(None)
        raise Fail(f'bytearray.{name} on a buffer with symbolic content is not modelled')
    if isinstance(v, K) and isinstance(v.v, bytearray):
        r = bytearray_method(it, v, name, args, kw)
        if r is not None:
            return r
    if isinstance(v, K):
        if name in _K_METHODS and all(isinstance(a, K) for a in args) and all(isinstance(x, K) for x in kw.values()):
            try:
                r = getattr(v.v, name)(*[a.v for a in args], **{k: x.v for k, x in kw.items()})
            except (ValueError, OverflowError, UnicodeDecodeError, KeyError, IndexError) as e:
                raise RaiseEx(type(e).__name__, str(e)[:60])
            except (TypeError, AttributeError) as e:
                raise RaiseEx(type(e).__name__, str(e)[:60])
            if name in ('items', 'keys', 'values'):
                r = list(r)
            if name == 'split':
                return ListV([K(x) for x in r])
            return K(r)
        if name == 'join' and isinstance(v.v, (str, bytes)) and args:
            items = it.iterate(args[0])
            if items is not None:
                from .rope import MemView, SymBuf
                items = [x.v.rope.simplify() if isinstance(x, K) and isinstance(x.v, SymBuf) else
                         (x.rope_value(it) if isinstance(x, MemView) else x) for x in items]
            if items is not None and all(isinstance(x, K) for x in items):
                try:
                    return K(v.v.join(x.v for x in items))
                except TypeError as e:
                    raise RaiseEx('TypeError', str(e)[:60])
            if items is not None:
                # symbolic pieces: the join is the concatenation (with the separator in between)
                acc = None
                for x in items:
                    if acc is None:
                        acc = x
                        continue
                    if len(v.v):
                        acc = it.concat(acc, v)
                    acc = it.concat(acc, x) if acc is not None else None
                    if acc is None:
                        break
                if acc is not None:
                    return acc
                if not items:
                    return K(v.v[:0])
            return Term('join', v, args[0])
        if isinstance(v.v, (bytes, str)) and name in ('hex', 'decode', 'encode'):
            pass
    if isinstance(v, DictV):
        if name == 'get':
            k = it.dkey(args[0])
            if k in v.d:
                return v.d[k]
            dflt = args[1] if len(args) > 1 else K(None)
            if isinstance(args[0], K) and all(not isinstance(o, tuple) for o in v.d):
                return dflt
            if getattr(it, 'INJECTIVE_KEYS', True):
                return dflt         # distinct symbolic keys denote distinct values (collision-free hashing assumption of the caller)
            return Term('dict.get', v, args[0])
        if name == 'items':
            return ListV([ListV([v.keyobj.get(k, K(k)), val], tup=True) for k, val in v.d.items()])
        if name == 'keys':
            return ListV([v.keyobj.get(k, K(k)) for k in v.d])
        if name == 'values':
            return ListV(list(v.d.values()))
        if name == 'pop':
            k = it.dkey(args[0])
            if k in v.d:
                v.keyobj.pop(k, None)
                return v.d.pop(k)
            if len(args) > 1:
                return args[1]
            if isinstance(args[0], K):
                raise RaiseEx('KeyError', repr(args[0].v))
            return Term('dict.pop', v, args[0])
        if name == 'update':
            if args and isinstance(args[0], DictV):
                v.d.update(args[0].d)
                v.keyobj.update(args[0].keyobj)
            elif args:
                other = builtin(it, 'dict', [args[0]], {}, node)
                if not isinstance(other, DictV):
                    raise Fail('dict.update with something that is not a mapping / sequence of pairs')
                v.d.update(other.d)
                v.keyobj.update(other.keyobj)
            for k, x in kw.items():
                v.d[k] = x
            return K(None)
        if name == 'setdefault':
            k = it.dkey(args[0])
            if k not in v.d:
                v.d[k] = args[1] if len(args) > 1 else K(None)
                v.keyobj[k] = args[0]
            return v.d[k]
        if name == 'copy':
            d = DictV(dict(v.d))
            d.keyobj = dict(v.keyobj)
            return d
        if name == 'clear':
            v.d.clear()
            v.keyobj.clear()
            return K(None)
        if name == 'popitem':
            if not v.d:
                raise RaiseEx('KeyError', 'popitem(): dictionary is empty')
            k = next(reversed(v.d))
            ko = v.keyobj.pop(k, K(k))
            return ListV([ko, v.d.pop(k)], tup=True)
        if name == 'move_to_end':
            k = it.dkey(args[0])
            if k in v.d:
                v.d[k] = v.d.pop(k)
            return K(None)
        if name in ('__len__',):
            return K(len(v.d))
        if name in ('__contains__',):
            r = it.contains(v, args[0])
            if r is None:
                raise Fail('dict membership undecided')
            return K(r)
        if name == '__getitem__':
            return it.getitem(v, args[0], node)
        if name == '__setitem__':
            it.setitem(v, args[0], args[1], node)
            return K(None)
        if name == '__iter__':
            return builtin(it, 'iter', [v], {}, node)
        raise Fail(f'dict method {name} is not modelled')
    if isinstance(v, ListV):
        if name == 'popleft':
            try:
                return v.items.pop(0)
            except IndexError:
                raise RaiseEx('IndexError', 'pop from an empty deque')
        if name == 'appendleft':
            v.items.insert(0, args[0])
            return K(None)
        if name == 'extendleft':
            items = it.iterate(args[0])
            if items is None:
                raise Fail('extendleft with unknown iterable')
            for x in items:
                v.items.insert(0, x)
            return K(None)
        if name == 'clear':
            v.items.clear()
            return K(None)
        if name == 'append':
            v.items.append(args[0])
            return K(None)
        if name == 'extend':
            items = it.iterate(args[0])
            if items is None:
                raise Fail('extend with unknown iterable')
            v.items.extend(items)
            return K(None)
        if name == 'pop':
            try:
                return v.items.pop(*[_int(a, 'pop index') for a in args])
            except IndexError:
                raise RaiseEx('IndexError', 'pop from empty list')
        if name == 'insert':
            v.items.insert(_int(args[0], 'insert index'), args[1])
            return K(None)
        if name == 'copy':
            return ListV(list(v.items), v.tup)
        if name == 'index':
            lo_ = _int(args[1], 'index start') if len(args) > 1 else 0
            hi_ = _int(args[2], 'index stop') if len(args) > 2 else len(v.items)
            lo_, hi_, _ = slice(lo_, hi_).indices(len(v.items))
            for i in range(lo_, hi_):
                r_ = it.eq3(v.items[i], args[0])
                if r_ is True:
                    return K(i)
                if r_ is None:
                    raise Fail('list.index over elements whose equality with the argument is undecided')
            raise RaiseEx('ValueError', 'not in list')
        if name == 'reverse':
            v.items.reverse()
            return K(None)
        if name == 'sort':
            if kw.get('key') is not None and not (isinstance(kw['key'], K) and kw['key'].v is None):
                r = _sort_with_key(it, v.items, kw['key'], kw.get('reverse'), node)
                if r is None:
                    raise Fail('sort with a symbolic key')
                v.items[:] = r
                return K(None)
            if all(isinstance(x, K) for x in v.items):
                rev = kw.get('reverse')
                v.items.sort(key=lambda x: x.v, reverse=bool(rev is not None and it.truth(rev)))
                return K(None)
            raise Fail('sort of symbolic list')
        if name == 'count':
            return K(sum(1 for x in v.items if it.eq3(x, args[0]) is True))
        if name == 'remove':
            for i, x in enumerate(v.items):
                r = True if x is args[0] else it.eq3(x, args[0])
                if r is True:
                    del v.items[i]
                    return K(None)
                if r is None:
                    raise Fail('list.remove with an undecided comparison')
            raise RaiseEx('ValueError', 'list.remove(x): x not in list')
        if name in ('__len__',):
            return K(len(v.items))
        if name == '__getitem__':
            return it.getitem(v, args[0], node)
        if name == '__setitem__':
            it.setitem(v, args[0], args[1], node)
            return K(None)
        if name == '__iter__':
            return builtin(it, 'iter', [v], {}, node)
        if name == '__contains__':
            r = it.contains(v, args[0])
            if r is None:
                raise Fail('list membership undecided')
            return K(r)
        raise Fail(f'list/tuple method {name} is not modelled')
    if isinstance(v, SetV):
        if name == 'add':
            v.items[it.dkey(args[0])] = args[0]
            return K(None)
        if name == 'discard':
            v.items.pop(it.dkey(args[0]), None)
            return K(None)
        if name == 'remove':
            k = it.dkey(args[0])
            if k not in v.items:
                if it.contains(v, args[0]) is False:
                    raise RaiseEx('KeyError', 'set.remove')
                raise Fail('set.remove with an undecided membership')
            v.items.pop(k)
            return K(None)
        if name in ('update', 'union', 'intersection', 'difference', 'symmetric_difference', 'issubset', 'issuperset', 'isdisjoint',
                    'intersection_update', 'difference_update'):
            others = []
            for a in args:
                items = it.iterate(a)
                if items is None:
                    raise Fail(f'set.{name} with an unknown iterable')
                o = SetV()
                for x in items:
                    o.items[it.dkey(x)] = x
                others.append(o)
            return set_op(it, v, name, others)
        if name == 'copy':
            r = SetV()
            r.items = dict(v.items)
            return r
        if name == 'clear':
            v.items.clear()
            return K(None)
        if name == 'pop':
            if not v.items:
                raise RaiseEx('KeyError', 'pop from an empty set')
            k = next(iter(v.items))
            return v.items.pop(k)
        raise Fail(f'set method {name} is not modelled')
    if isinstance(v, (Sym, Term)) and name in ('hex', 'decode', 'encode', 'lower', 'upper'):
        if isinstance(v, Term) and v.op == 'fromhex' and name == 'hex':
            return v.a[0]
        if isinstance(v, Term) and (v.op, name) in (('decode', 'encode'), ('encode', 'decode')) and len(v.a) == 1:
            return v.a[0]
        return Term(name, v)
    hook = getattr(it, 'method_hook', None)
    if hook is not None:
        r = hook(v, name, args, kw, node)
        if r is not None:
            return r
    return Term(f'.{name}', v, *args)


def set_op(it, v, name, others):
    def known(x):
        return all(not isinstance(k, tuple) or k[:1] not in (('sym',), ('t',), ('p',)) for k in x.items)
    if name == 'update':
        for o in others:
            v.items.update(o.items)
        return K(None)
    if name == 'union':
        r = SetV()
        r.items = dict(v.items)
        for o in others:
            r.items.update(o.items)
        return r
    if not (known(v) and all(known(o) for o in others)):
        raise Fail(f'set.{name} over symbolic members')
    if name in ('intersection', 'intersection_update'):
        keep = {k: x for k, x in v.items.items() if all(k in o.items for o in others)}
    elif name in ('difference', 'difference_update'):
        keep = {k: x for k, x in v.items.items() if not any(k in o.items for o in others)}
    elif name == 'symmetric_difference':
        o = others[0]
        keep = {k: x for k, x in v.items.items() if k not in o.items}
        keep.update({k: x for k, x in o.items.items() if k not in v.items})
    elif name == 'issubset':
        return K(all(k in others[0].items for k in v.items))
    elif name == 'issuperset':
        return K(all(k in v.items for k in others[0].items))
    elif name == 'isdisjoint':
        return K(not any(k in others[0].items for k in v.items))
    else:
        raise Fail(f'set.{name}')
    if name.endswith('_update'):
        v.items = keep
        return K(None)
    r = SetV()
    r.items = keep
    return r


# ------------------------------------------------------------------ builtins
_PURE = {'bin': bin, 'str': str, 'int': int, 'len': len, 'bool': bool, 'hex': hex, 'range': range, 'bytes': bytes,
         'min': min, 'max': max, 'abs': abs, 'ord': ord, 'chr': chr, 'bytearray': bytearray, 'sum': sum, 'float': float,
         'divmod': divmod, 'round': round, 'pow': pow, 'tuple': tuple, 'oct': oct, 'repr': repr, 'format': format}
_TYPES = {'NoneType': type(None), 'int': int, 'bool': bool, 'str': str, 'bytes': bytes, 'tuple': tuple, 'list': list, 'dict': dict,
          'bytearray': bytearray, 'float': float, 'set': set, 'slice': slice, 'object': object, 'frozenset': frozenset, 'range': range}


def builtin(it, name, args, kw, n):
    hook = getattr(it, 'builtin_hook', None)
    if hook is not None:
        r = hook(name, args, kw, n)
        if r is not None:
            return r
    if name == 'enumerate' and args and hasattr(args[0], 'abs_pull'):
        args = [IterV(gen=it.pull_iter(args[0], n))] + list(args[1:])
    if name in ('min', 'max', 'sum', 'sorted', 'list', 'tuple', 'set', 'frozenset', 'dict', 'bytes', 'bytearray') and args and isinstance(args[0], IterV):
        # these consume their argument completely: an iterator object is drained once, here (a model that looked at it twice would find
        # it empty the second time)
        args = [ListV(list(it.pull_iter(args[0], n)))] + list(args[1:])
    if name == 'isinstance':
        return do_isinstance(it, args[0], args[1], n)
    if name == 'object' and not args and not kw:
        return K(object())         # a fresh object with nothing but an identity (sentinels)
    if name in ('bytes', 'bytearray') and len(args) == 1 and (type(args[0]).__name__ == 'MemView' or (isinstance(args[0], K) and type(args[0].v).__name__ == 'SymBuf')):
        from .rope import SymBuf, Rope
        v = args[0].rope_value(it) if type(args[0]).__name__ == 'MemView' else args[0].v.rope.simplify()
        if isinstance(v, K):
            return K(bytes(v.v)) if name == 'bytes' else K(bytearray(v.v))
        return v if name == 'bytes' else K(SymBuf(Rope.of(it, v)))
    if name == 'len':
        return do_len(it, args[0], n)
    if '.' in name and name.split('.')[0] in ('int', 'str', 'bytes', 'bytearray', 'list', 'dict', 'set', 'tuple', 'float', 'bool') and name.count('.') == 1 \
            and name not in ('int.from_bytes', 'bytes.fromhex', 'bytearray.fromhex', 'dict.fromkeys', 'str.maketrans', 'bytes.maketrans', 'float.fromhex') and args:
        # unbound method of a built-in type: int.bit_length(x), str.upper(s), bytes.hex(b) ...
        return it.call(it.getattr(args[0], name.split('.')[1], n), list(args[1:]), dict(kw), n)
    if name == 'int.from_bytes' or name == 'int.from_bytes':
        b = dict(zip(['bytes', 'byteorder'], args))
        b.update(kw)
        src, order, signed = b['bytes'], b.get('byteorder', K('big')), b.get('signed', K(False))
        if isinstance(src, PBits) and src.view == 'bytes' and src.known():
            src = bits_value(src.pat, 'bytes')
        if all(isinstance(x, K) for x in (src, order, signed)):
            return K(int.from_bytes(src.v, order.v, signed=bool(signed.v)))
        if isinstance(src, Term) and src.op == 'tobytes' and isinstance(order, K) and order.v == 'big' and isinstance(signed, K) and not signed.v:
            # the bytes of a bit container read back as one big-endian number: the unsigned value of its bits (the zero bits tobytes()
            # appended are a left shift)
            segs = list(src.a[2].ba.segs)
            pad = 0
            if len(segs) >= 2 and segs[-1].kind == 'k' and set(segs[-1].val) <= {'0'} and segs[-1].n < 8:
                pad = segs[-1].n
                segs = segs[:-1]
            u = None
            if len(segs) == 1 and (sum(s_.n for s_ in segs) + pad) % 8 == 0:
                s_ = segs[0]
                u = s_.val if s_.kind == 'u' and s_.val is not None else mod2(s_.val, s_.n) if s_.kind == 'i' and s_.val is not None else None
            if u is not None:
                if not pad:
                    return u
                sh = Term('<<', u, K(pad))
                r_ = irange(u)
                if r_ is not None:
                    sh.bounds = (r_[0] << pad, r_[1] << pad)
                return sh
        if isinstance(src, Term) and src.op == 'to_bytes' and isinstance(order, K) and isinstance(signed, K) \
                and isinstance(src.a[2], K) and isinstance(src.a[3], K) and src.a[2].v == order.v and bool(src.a[3].v) == bool(signed.v):
            return src.a[0]          # from_bytes(to_bytes(v, n, order, signed), order, signed) == v  (to_bytes raises unless v fits)
        return Term('from_bytes', src, order, signed)
    if name == 'bytes.fromhex' or name == 'bytearray.fromhex':
        if isinstance(args[0], K):
            try:
                return K(bytes.fromhex(args[0].v))
            except (ValueError, TypeError) as e:
                raise RaiseEx(type(e).__name__, 'fromhex')
        if isinstance(args[0], Term) and args[0].op == 'hex':
            return args[0].a[0]
        return Term('fromhex', args[0])
    if name in ('list', 'tuple', 'sorted', 'reversed', 'set', 'frozenset') and args:
        items = it.iterate(args[0])
        if items is not None:
            if name == 'sorted' and kw.get('key') is None and items and all(isinstance(x, Inst) and x.cls is not None and
                                                                           it.prog.find_method(x.cls, '__lt__')[1] is not None for x in items):
                import functools as _ft

                def _cmp(x, y):
                    if it.truth(it.cmp(ast.Lt(), x, y, n), n):
                        return -1
                    return 1 if it.truth(it.cmp(ast.Lt(), y, x, n), n) else 0
                rev = kw.get('reverse')
                return ListV(sorted(items, key=_ft.cmp_to_key(_cmp), reverse=bool(rev is not None and it.truth(rev))))
            if name == 'sorted':
                if kw.get('key') is not None and not (isinstance(kw['key'], K) and kw['key'].v is None):
                    r = _sort_with_key(it, items, kw['key'], kw.get('reverse'), n)
                    if r is not None:
                        return ListV(r)
                    return Term('sorted', ListV(items))
                if all(isinstance(x, K) for x in items):
                    rev = kw.get('reverse')
                    return ListV(sorted(items, key=lambda x: x.v, reverse=bool(rev is not None and it.truth(rev))))
                if len(items) <= 1:
                    return ListV(items)
                try:
                    consts = [to_const(x) for x in items]
                except NotConst:
                    consts = None
                if consts is not None:
                    rev = kw.get('reverse')
                    try:
                        order = sorted(range(len(items)), key=lambda i: consts[i], reverse=bool(rev is not None and it.truth(rev)))
                    except TypeError as e:
                        raise RaiseEx('TypeError', str(e)[:60])
                    return ListV([items[i] for i in order])
                return Term('sorted', ListV(items))
            if name == 'reversed':
                return ListV(list(reversed(items)))
            if name in ('set', 'frozenset'):
                s = SetV()
                for x in items:
                    s.items[it.dkey(x)] = x
                return s
            return ListV(items, tup=(name == 'tuple'))
        return Term(name, args[0])
    if name in ('list', 'dict', 'set', 'tuple') and not args:
        if name == 'dict':
            d = DictV()
            for k, v in kw.items():
                d.d[k] = v
                d.keyobj[k] = K(k)
            return d
        return {'list': ListV([]), 'set': SetV(), 'tuple': ListV([], tup=True)}[name]
    if name == 'dict' and args and isinstance(args[0], DictV):
        d = DictV(dict(args[0].d))
        d.keyobj = dict(args[0].keyobj)
        return d
    if name == 'enumerate' and isinstance(args[0], IterV):
        st0 = args[1] if len(args) > 1 else kw.get('start')
        start0 = _int(st0, 'enumerate start') if st0 is not None else 0

        def egen():
            for i, x in enumerate(it.pull_iter(args[0]), start0):
                yield ListV([K(i), x], tup=True)
        return IterV(gen=egen())
    if name == 'enumerate':
        items = it.iterate(args[0])
        if items is None:
            return Term('enumerate', args[0])
        st = args[1] if len(args) > 1 else kw.get('start')
        start = _int(st, 'enumerate start') if st is not None else 0
        return ListV([ListV([K(i + start), x], tup=True) for i, x in enumerate(items)])
    if name == 'zip':
        if any(isinstance(a, IterV) or hasattr(a, 'abs_pull') for a in args):
            def zgen():
                srcs = [it.pull_iter(a) for a in args]
                while True:
                    row = []
                    for s_ in srcs:
                        try:
                            row.append(next(s_))
                        except StopIteration:
                            return
                    yield ListV(row, tup=True)
            return IterV(gen=zgen())
        lists = [it.iterate(a) for a in args]
        if any(l is None for l in lists):
            return Term('zip', *args)
        return ListV([ListV(list(t), tup=True) for t in zip(*lists)])
    if name == 'range':
        ps = [_as_poly(a) for a in args]
        if all(isinstance(a, K) for a in args):
            try:
                return K(range(*[a.v for a in args]))
            except (TypeError, ValueError) as e:
                raise RaiseEx(type(e).__name__, 'range')
        if all(p is not None or isinstance(a, (Sym, PInt)) for p, a in zip(ps, args)):
            return Term('range', *args)
        raise RaiseEx('TypeError', 'range of non-int') if any(isinstance(a, K) and not isinstance(a.v, int) for a in args) else Fail(f'range of {args}')
    if name in ('min', 'max') and len(args) >= 2 and any(isinstance(a, PInt) for a in args):
        ps = sorted(repr(_as_poly(a)) for a in args)
        return atom(f'{name}({", ".join(ps)})')
    if name in ('min', 'max') and len(args) == 1:
        items = it.iterate(args[0])
        if items is not None and all(isinstance(x, K) for x in items) and items and kw.get('key') is None:
            return K((min if name == 'min' else max)(x.v for x in items))
    if name in ('min', 'max') and args:
        items = it.iterate(args[0]) if len(args) == 1 else list(args)
        if items is None:
            raise Fail(f'{name}() over an unknown iterable')
        keyf = kw.get('key')
        if keyf is not None and isinstance(keyf, K) and keyf.v is None:
            keyf = None
        if not items:
            if 'default' in kw:
                return kw['default']
            raise RaiseEx('ValueError', f'{name}() arg is an empty sequence')
        best = items[0]
        bk = it.call(keyf, [best], {}, n) if keyf is not None else best
        for x in items[1:]:
            xk = it.call(keyf, [x], {}, n) if keyf is not None else x
            better = it.cmp(ast.Lt() if name == 'min' else ast.Gt(), xk, bk, n)     # strict: the first of equal candidates stays
            if it.truth(better, n):
                best, bk = x, xk
        return best
    if name == 'bool' and args:
        v = args[0]
        if isinstance(v, Cond):
            return v
        if isinstance(v, K):
            return K(bool(v.v))
        if isinstance(v, (Sym, Term, PInt)):
            if isinstance(v, Term) and v.op == 'bit':
                return v
            return Term('bool', v)
        return K(it.truth(v, n))
    if name == 'str' and args and isinstance(args[0], PBits):
        return bits_value(args[0].pat, 'str')
    if name in ('str', 'repr') and args and isinstance(args[0], ExcV):
        e = args[0]
        cls = getattr(e, 'cls', None)
        if cls is not None:
            c, m = it.prog.find_method(cls, '__str__' if name == 'str' else '__repr__')
            if m is not None:
                from .front import FuncRef
                return it.invoke(FuncRef(m, c.module, c), [e], {})
        if name == 'str':
            if len(e.args) == 0:
                return K('')
            if len(e.args) == 1:
                return builtin(it, 'str', [e.args[0]], {}, n)
        return Term(name, Sym(f'exc:{e.kind}'))
    if name == 'format' and len(args) == 2 and isinstance(args[1], K) and isinstance(args[1].v, str):
        r_ = format_bits(args[0], args[1].v)
        if r_ is not None:
            return r_
    if name in ('str', 'repr', 'format') and args and isinstance(args[0], Inst) and args[0].cls is not None:
        for dn in (('__str__', '__repr__') if name == 'str' else ('__format__', '__str__', '__repr__') if name == 'format' else ('__repr__',)):
            c, m = it.prog.find_method(args[0].cls, dn)
            if m is not None:
                from .front import FuncRef
                return it.invoke(FuncRef(m, c.module, c), [args[0]] + (list(args[1:]) if dn == '__format__' else []), {})
    if name == 'memoryview' and args:
        from .rope import MemView, SymBuf
        if isinstance(args[0], K) and isinstance(args[0].v, (bytearray, SymBuf)):
            return MemView(args[0], 0, len(args[0].v))        # a view of a mutable buffer shares it
        return args[0]
    if name == 'slice' and args:
        a3 = ([K(None)] + list(args) if len(args) == 1 else list(args)) + [K(None)] * 2
        return SliceV(a3[0], a3[1], a3[2])
    if name in ('map', 'filter') and len(args) >= 2 and any(isinstance(a, IterV) or hasattr(a, 'abs_pull') for a in args[1:]):
        # over a lazy source the result is lazy as well (python's map / filter always are)
        f = args[0]
        srcs = [it.pull_iter(a, n) for a in args[1:]]

        def lazy():
            for t in zip(*srcs):
                if name == 'map':
                    yield it.call(f, list(t), {}, n)
                elif it.truth(t[0] if isinstance(f, K) and f.v is None else it.call(f, [t[0]], {}, n), n):
                    yield t[0]
        return IterV(gen=lazy())
    if name in ('map', 'filter') and len(args) >= 2:
        lists = [it.iterate(a) for a in args[1:]]
        if any(l is None for l in lists):
            raise Fail(f'{name} over an unknown iterable')
        f = args[0]
        if name == 'map':
            return ListV([it.call(f, list(t), {}, n) for t in zip(*lists)])
        if isinstance(f, K) and f.v is None:
            return ListV([x for x in lists[0] if it.truth(x, n)])
        return ListV([x for x in lists[0] if it.truth(it.call(f, [x], {}, n), n)])
    if name == 'dict' and args and not isinstance(args[0], DictV):
        items = it.iterate(args[0])
        if items is not None:
            d = DictV()
            for pair in items:
                kv = it.iterate(pair)
                if kv is None or len(kv) != 2:
                    raise Fail('dict() from something that is not a sequence of pairs')
                key = it.dkey(kv[0])
                d.d[key] = kv[1]
                d.keyobj[key] = kv[0]
            for k_, x in kw.items():
                d.d[k_] = x
                d.keyobj[k_] = K(k_)
            return d
    if name in ('str.maketrans', 'bytes.maketrans', 'bytearray.maketrans') and all(isinstance(a, K) for a in args):
        try:
            return K((str if name.startswith('str') else bytes).maketrans(*[a.v for a in args]))
        except (ValueError, TypeError) as e:
            raise RaiseEx(type(e).__name__, 'maketrans')
    if name in ('dict.fromkeys', 'OrderedDict.fromkeys') and args:
        items = it.iterate(args[0])
        if items is None:
            raise Fail('dict.fromkeys over an unknown iterable')
        d = DictV()
        for x in items:
            key = it.dkey(x)
            d.d[key] = args[1] if len(args) > 1 else K(None)
            d.keyobj[key] = x
        return d
    if name == 'iter' and len(args) == 2:
        # iter(callable, sentinel): calls until the result equals the sentinel
        f, sentinel = args

        def until():
            while True:
                x = it.call(f, [], {}, n)
                if it.truth(it.cmp(ast.Eq(), x, sentinel, n), n):
                    return
                yield x
        return IterV(gen=until())
    if name == 'iter' and args:
        if isinstance(args[0], IterV):
            return args[0]
        if isinstance(args[0], ListV):
            return IterV(args[0].items)        # a live view: the list may grow while it is iterated
        items = it.iterate(args[0])
        if items is None:
            raise Fail('iter() over an unknown iterable')
        return IterV(list(items))
    if name == 'next' and args:
        if not isinstance(args[0], IterV):
            raise Fail(f'next() of {args[0]!r}')
        try:
            return args[0].pull()
        except StopIter:
            if len(args) > 1:
                return args[1]
            raise RaiseEx('StopIteration', '')
    if name in ('int', 'operator.index', 'index') and args and isinstance(args[0], EnumMember) and args[0].is_int:
        return args[0].value
    if name == 'int' and args:
        v = args[0]
        if isinstance(v, PBits) and v.view == 'str' and len(args) > 1 and isinstance(args[1], K) and args[1].v == 2:
            if v.known():
                return K(int(v.pat, 2))
            return Term('int2', v)
        if isinstance(v, (PInt,)):
            return v
        if isinstance(v, K) and all(isinstance(a, K) for a in args[1:]) and all(isinstance(x, K) for x in kw.values()):
            try:
                return K(int(v.v, *[a.v for a in args[1:]], **{k: x.v for k, x in kw.items()}))
            except (ValueError, TypeError) as e:
                raise RaiseEx(type(e).__name__, 'int()')
        if isinstance(v, Term) and v.op == 'bit':
            return v
        return Term('int', *args)
    if name in ('bytes', 'bytearray', 'tuple', 'sum', 'min', 'max', 'divmod', 'str', 'repr', 'len', 'bool') and args and isinstance(args[0], ListV) \
            and all(isinstance(x, K) for x in kw.values()):
        try:
            ca = [to_const(a) for a in args]
        except NotConst:
            ca = None
        if ca is not None and name in _PURE and (name not in ('str', 'repr') or getattr(args[0], 'nt', None) is None):
            try:
                return from_const(_PURE[name](*ca, **{k: x.v for k, x in kw.items()}))
            except _PY_ERRORS as e:
                raise RaiseEx(type(e).__name__, str(e)[:60])
    if name in _PURE and all(isinstance(a, K) for a in args) and all(isinstance(x, K) for x in kw.values()):
        try:
            return K(_PURE[name](*[a.v for a in args], **{k: x.v for k, x in kw.items()}))
        except (ValueError, OverflowError, IndexError) as e:
            raise RaiseEx(type(e).__name__, str(e)[:60])
        except TypeError as e:
            raise RaiseEx('TypeError', str(e)[:60])
    if name in ('bytes', 'bytearray') and args and isinstance(args[0], ListV) and args[0].items and \
            all(isinstance(x, ByteOf) or (isinstance(x, K) and isinstance(x.v, int) and 0 <= x.v < 256) for x in args[0].items):
        ba = BA()
        for x in args[0].items:
            ba.extend(x.ba if isinstance(x, ByteOf) else BA([Seg(8, 'k', format(x.v, '08b'))]))
        return tobytes_term(ba)
    if name in ('bytes', 'bytearray') and args:
        v = args[0]
        from .rope import MemView, SymBuf, Rope
        if isinstance(v, MemView):
            v = v.rope_value(it)
            if isinstance(v, K):
                return K(bytes(v.v)) if name == 'bytes' else K(bytearray(v.v))
        if isinstance(v, K) and isinstance(v.v, SymBuf):
            v = v.v.rope.simplify()
        if type(v).__name__ == 'Rope':
            if name == 'bytearray':
                return K(SymBuf(v))
            return v
        if isinstance(v, (Sym, Term)):
            if name == 'bytearray' and isinstance(bytes_len(it, v), K):
                return K(SymBuf(Rope.of(it, v)))
            return v
        if isinstance(v, PInt):
            return Term('zeros', v)
    if name == 'bytearray' and not args:
        return K(bytearray())
    if name == 'setattr':
        o, k, v = args
        if isinstance(k, K):
            it.setattr(o, k.v, v, n)
            return K(None)
        raise Fail('setattr with unknown name')
    if name == 'vars' and len(args) == 1 and isinstance(args[0], Inst) and args[0].native is None:
        # the instance dictionary itself, in the order the attributes were first assigned: a live view - what is written through it
        # (`vars(self).update(...)`) is an attribute of the object
        d = DictV()
        d.d = args[0].attrs
        d.keyobj = _LiveKeys(args[0].attrs)
        return d
    if name == 'getattr':
        o, k = args[:2]
        if isinstance(k, K):
            try:
                return it.getattr(o, k.v, n)
            except RaiseEx:
                if len(args) > 2:
                    return args[2]
                raise
        raise Fail('getattr with unknown name')
    if name == 'hasattr':
        o, k = args
        if isinstance(o, Inst) and isinstance(k, K):
            try:
                it.getattr(o, k.v, n)
                return K(True)
            except RaiseEx:
                return K(False)
        return Cond(('hasattr', repr(it.vkey(o)), repr(k)), True, 'hasattr')
    if name == 'type' and len(args) == 1:
        v = args[0]
        if isinstance(v, Inst):
            return v.cls
        if isinstance(v, K):
            return Builtin(type(v.v).__name__)
        if isinstance(v, ListV) and getattr(v, 'nt', None) is not None:
            return getattr(v.nt, 'cls', None) or v.nt
        if isinstance(v, ListV):
            return Builtin('tuple' if v.tup else 'list')
        if isinstance(v, DictV):
            return Builtin('dict')
        if isinstance(v, SetV):
            return Builtin('set')
        if isinstance(v, PInt):
            return Builtin('int')
        if isinstance(v, PBits) and v.view in ('str', 'bytes'):
            return Builtin(v.view)
        if isinstance(v, Sym) and v.meta.get('ty') in ('bytes', 'str', 'int', 'bool', 'dict', 'list'):
            return Builtin(v.meta['ty'])
        if isinstance(v, Term) and v.op in ('cat', 'to_bytes', 'sha256', 'sha512', 'tobytes', 'fromhex', 'crc', 'bslice'):
            return Builtin('bytes')
        if isinstance(v, Term) and v.op in ('fstr', 'hex', 'decode', 'strfmt'):
            return Builtin('str')
        if isinstance(v, Term) and (v.op in ('int2', 'int', 'ba2int', 'from_bytes', 'len', 'count', 'mod2', 'mod2x', '+', '-', '*', '//', '%', '<<', '>>', '&', '|', '^', '**',
                                             'unaryUSub', 'unaryInvert', 'abs') or getattr(v, 'bounds', None) is not None):
            return Builtin('int')
        if isinstance(v, Term) and v.op in ('bool', 'bit', 'unaryNot'):
            return Builtin('bool' if v.op != 'bit' else 'int')
        if isinstance(v, BinText):
            return Builtin('str')
        if isinstance(v, BA):
            return Ext('bitarray.bitarray')
        if type(v).__name__ == 'Rope':
            return Builtin('bytes')
        return Term('type', v)
    if name == 'print':
        return K(None)
    if name == 'id':
        return K(id(args[0]))
    if name == 'hash' and args:
        v = args[0]
        if isinstance(v, Inst) and v.cls is not None:
            c, m = it.prog.find_method(v.cls, '__hash__')
            if m is not None:
                from .front import FuncRef
                return it.invoke(FuncRef(m, c.module, c), [v], {})
            for k_ in it.prog.mro(v.cls):
                if '__hash__' in k_.class_attrs:
                    hv = it.class_attr(k_, '__hash__', v)
                    if isinstance(hv, K) and hv.v is None:
                        raise RaiseEx('TypeError', f"unhashable type: '{v.cls.name}'")
                    return it.call(hv, [], {}, n)
                decs = class_decorators(k_)
                if 'dataclass' in decs:
                    # the generated __hash__: eq (default True) without frozen / unsafe_hash sets __hash__ to None
                    def flag(nm, dflt):
                        e = decs['dataclass'].get(nm)
                        return e.value if isinstance(e, ast.Constant) else dflt
                    if flag('eq', True) and not flag('frozen', False) and not flag('unsafe_hash', False):
                        raise RaiseEx('TypeError', f"unhashable type: '{v.cls.name}'")
                    if flag('eq', True):
                        return Term('hash', ListV([v.attrs.get(f, K(None)) for f, _, _ in dataclass_fields(it, k_)], tup=True))
                if '__eq__' in k_.methods:
                    raise RaiseEx('TypeError', f"unhashable type: '{v.cls.name}'")        # a class that defines __eq__ without __hash__
        return Term('hash', v)
    if name == 'any' or name == 'all':
        if isinstance(args[0], IterV):
            items = it.pull_iter(args[0])
        else:
            items = it.iterate(args[0])
        if items is None:
            return Term(name, args[0])
        for x in items:
            t = it.truth(x, n)
            if name == 'any' and t:
                return K(True)
            if name == 'all' and not t:
                return K(False)
        return K(name == 'all')
    if name == 'sum' and args:
        items = it.iterate(args[0])
        if items is not None:
            tot = K(0) if len(args) < 2 else args[1]
            for x in items:
                tot = it.binop(ast.Add(), tot, x)
            return tot
    if name == 'iter' or name == 'next':
        raise Fail(f'builtin {name}')
    if name in ('Exception', 'ValueError', 'TypeError', 'KeyError', 'IndexError', 'NotImplementedError', 'OverflowError',
                'AssertionError', 'RuntimeError', 'AttributeError'):
        return ExcV(name, tuple(args))
    if name in ('staticmethod', 'classmethod', 'property'):
        return args[0]
    if name == 'callable':
        from .front import FuncRef, ClassRef
        return K(isinstance(args[0], (FuncRef, ClassRef, Bound, Native, Builtin, Ext)))
    return Term('builtin:' + name, *args)


def _sort_with_key(it, items, keyf, reverse, node):
    """stable sort by a key function whose results are concrete (ints / tuples of constants); None if a key is symbolic"""
    keys = []
    for x in items:
        k = it.call(keyf, [x], {}, node)
        if isinstance(k, ListV) and all(isinstance(e, K) for e in k.items):
            k = K(tuple(e.v for e in k.items))
        if not isinstance(k, K):
            return None
        keys.append(k.v)
    rev = bool(reverse is not None and it.truth(reverse))
    try:
        order = sorted(range(len(items)), key=lambda i: keys[i], reverse=rev)
    except TypeError:
        raise RaiseEx('TypeError', 'unorderable sort keys')
    return [items[i] for i in order]


def do_len(it, v, n):
    if isinstance(v, K):
        try:
            return K(len(v.v))
        except TypeError:
            raise RaiseEx('TypeError', 'len()')
    if isinstance(v, (ListV,)):
        return K(len(v.items))
    if isinstance(v, DictV):
        return K(len(v.d))
    if isinstance(v, SetV):
        return K(len(v.items))
    if isinstance(v, BA):
        return K(len(v))
    if isinstance(v, PBits):
        return K(len(v.pat) // 8 if v.view == 'bytes' else len(v.pat))
    if isinstance(v, Inst):
        if v.cls is not None:
            c, m = it.prog.find_method(v.cls, '__len__')
            if m is not None:
                from .front import FuncRef
                return it.invoke(FuncRef(m, c.module, c), [v], {})
        if isinstance(v.native, BA):
            return K(len(v.native))
    hook = getattr(v, 'abs_len', None)
    if hook is not None:
        return hook(it)
    r = bytes_len(it, v)
    if r is not None:
        return r
    if isinstance(v, Sym):
        return atom(f'len({v.name})')
    if isinstance(v, Term):
        return atom(f'len({v!r})')
    raise Fail(f'len of {v!r}')


def do_isinstance(it, v, t, n):
    from .front import ClassRef
    ts = t.items if isinstance(t, ListV) else [t]
    res = False
    unk = False
    for ty in ts:
        r = _isinst1(it, v, ty)
        if r is True:
            return K(True)
        if r is None:
            unk = True
    if unk:
        names = ','.join(getattr(x, 'name', getattr(x, 'dotted', '?')) for x in ts)
        return Cond(('isinstance', repr(it.vkey(v)), names), True, f'isinstance({vrepr(v)[:30]}, {names})')
    return K(res)


def _isinst1(it, v, ty):
    from .front import ClassRef
    hook = getattr(v, 'abs_isinstance', None)
    if hook is not None:
        r = hook(it, ty)
        if r is not None:
            return r
    if isinstance(v, ExcV) and isinstance(ty, (ClassRef, Builtin)):
        return it.exc_matches(v.kind, [ty.name], v)
    if isinstance(ty, NamedTupleClass):
        return isinstance(v, ListV) and getattr(v, 'nt', None) is ty if not isinstance(v, (Sym, Term)) else None
    if isinstance(ty, ClassRef):
        if isinstance(v, Inst):
            return v.cls is not None and it.prog.is_subclass(v.cls, ty.name)
        if isinstance(v, ListV) and getattr(getattr(v, 'nt', None), 'cls', None) is not None:
            return it.prog.is_subclass(v.nt.cls, ty.name)       # an instance of a typing.NamedTuple class
        if isinstance(v, (K, PInt, PBits, ListV, DictV, SetV, BA, ExcV)):
            return False
        if isinstance(v, Sym) and v.meta.get('ty') in ('bytes', 'str', 'int', 'bool', 'bits'):
            return False
        if isinstance(v, Sym) and v.meta.get('cls') is not None:
            return v.meta['cls'] == ty.name
        if isinstance(v, Term) and v.op in ('fstr', 'hex', 'decode', 'strfmt', 'cat', 'to_bytes', 'sha256', 'sha512', 'tobytes', 'fromhex', 'crc', 'bslice', 'from_bytes'):
            return False
        return None
    if isinstance(ty, Builtin):
        pyt = _TYPES.get(ty.name)
        if isinstance(v, K):
            if pyt is None:
                return None
            return isinstance(v.v, pyt)
        if isinstance(v, PInt):
            return ty.name == 'int'
        if isinstance(v, ListV):
            return ty.name == ('tuple' if v.tup else 'list')
        if isinstance(v, DictV):
            return ty.name == 'dict'
        if isinstance(v, (Inst, BA, SliceV)):
            return False
        if isinstance(v, PBits):
            return {'str': 'str', 'bytes': 'bytes', 'bits': None}.get(v.view) == ty.name
        if isinstance(v, Sym):
            mt = v.meta.get('ty')
            if mt in ('bytes', 'str', 'int', 'bool', 'dict', 'list'):
                if mt == 'bool' and ty.name == 'int':
                    return True
                return mt == ty.name
            if v.meta.get('cls') is not None:
                return False
        if isinstance(v, Term):
            if v.op not in ('cat', 'slice') and isinstance(bytes_len(it, v), K):
                return ty.name == 'bytes'       # terms that denote byte strings of known length (digests, keys, signatures, cipher text)
            if v.op in ('cat', 'to_bytes', 'sha256', 'tobytes', 'fromhex', 'slice') and ty.name == 'bytes':
                return True if v.op != 'slice' else None
            if v.op in ('fstr', 'hex', 'decode', 'strfmt'):
                return ty.name == 'str'
            if v.op in ('cat', 'to_bytes', 'sha256', 'sha512', 'tobytes', 'fromhex', 'crc', 'bslice'):
                return False
        return None
    if isinstance(ty, Ext):
        last = ty.dotted.split('.')[-1]
        if isinstance(v, Inst):
            return v.cls is not None and last in it.prog.ext_bases(v.cls)
        if isinstance(v, BA):
            return last in ('bitarray', 'frozenbitarray') if last == 'bitarray' else None
        if isinstance(v, (K, PInt, ListV, DictV, PBits)):
            return False
        return None
    return None
