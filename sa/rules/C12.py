"""C12 - block signature sets are accepted only with a genuine validator supermajority.

check_block_signatures is abstractly interpreted with symbolic public keys, symbolic weights (polynomial arithmetic), a
symbolic block id and an *oracle model of Ed25519*: VerifyKey(pk).verify(msg, sig) succeeds exactly for the triples the
scenario declares valid (pk_i, spec payload, sig_i) and raises BadSignatureError otherwise - so a wrong payload, a wrong key
or a wrong signature all count as invalid.  Scenarios enumerate completely: n = 0..3 validators x every signature sequence
of length 0..3 (thorough: 4) over {valid_i, bad_i, valid-for-another-block_i, unknown signer}.

D1  threshold: the condition that separates return from ProofError, normalised over the weight polynomials, is exactly
    3*signed - 2*total > 0 (strict) with `signed` the sum over DISTINCT signers; the empty set is rejected.
D2  each signer once: a sequence naming a validator twice is rejected, or accepted under the distinct-signer sum only.
D3  error discipline: unknown signer / invalid signature / signature for another payload => rejection on every path;
    verify_sign returns False only on BadSignatureError and True only after verify returned.
D4  terms: node id = sha256(0xc6b41348 | pubkey); signed payload = 0x706e0bc5 | root_hash | file_hash.
"""
import ast
import itertools
from ..core import AnalysisError
from ..front import Program
from ..interp import Interp, run_paths, as_poly
from ..values import *
from ..rope import Rope, install
from .. import models

MANIFEST = dict(
    technique='abstract interpretation of check_block_signatures / verify_sign with symbolic keys, weights (polynomials) and an oracle model of Ed25519; complete enumeration of signature sequences over small validator sets; accept condition compared as a normalised polynomial inequality',
    text='Decides for every validator set of 0..3 members with symbolic weights and every signature sequence of length <= 3(4) over valid / invalid / foreign-payload / unknown-signer entries '
         'that the set is accepted iff all signatures are valid signatures of the block payload by known distinct validators and 3*signed > 2*total (as a polynomial inequality, so for all weights), '
         'including the empty set and duplicates; node-id and payload derivations are checked as terms.'
         " Signatures of the wrong length (PyNaCl's own ValueError, a CryptoError) never count as valid."
         ' A threshold written in a form the polynomial normal form does not identify with 3*signed > 2*total (integer division, a pre-computed quorum) is decided on a grid of weight vectors instead - bounded.'
         ' The validator set may be handed over as a single-pass iterable.',
    note='trusted: interpreter, polynomial normaliser, the Ed25519 oracle model (nacl is not analysed), collision-freeness of SHA-256 (distinct terms = distinct ids). Not decided: larger validator sets (the loop bodies are uniform).',
    design_ref='DESIGN.md section 4 C12')

NODE_MAGIC = b'\xc6\xb4\x13H'
SIGN_MAGIC = bytes.fromhex('706e0bc5')


class VerifyKeyModel:
    def __init__(self, rule, pk):
        self.rule, self.pk = rule, pk

    def abs_attr(self, it, a, node):
        if a == 'verify':
            def verify(it_, args, kw, n):
                msg = args[0] if args else kw.get('smessage')
                sig = args[1] if len(args) > 1 else kw.get('signature')
                if sig is None or (isinstance(sig, K) and sig.v is None):
                    # the combined form signature || message (PyNaCl: the first 64 bytes are the signature)
                    whole = Rope.of(it_, msg)
                    if whole is None:
                        raise Fail('VerifyKey.verify of a combined message of unknown layout')
                    if whole.n < 64:
                        raise RaiseEx('BadSignatureError', 'signed message shorter than a signature')
                    sig, msg = whole.cut(it_, 0, 64).simplify(), whole.cut(it_, 64, whole.n).simplify()
                key = (repr(it_.vkey(self.pk)), repr(it_.vkey(msg)), repr(it_.vkey(sig)))
                self.rule['asked'].append(key)
                ln = it_.models.bytes_len(it_, sig) if not (isinstance(sig, K) and sig.v is None) else None
                if sig is not None and isinstance(ln, K) and ln.v != 64:
                    # PyNaCl refuses a signature that is not exactly 64 bytes before libsodium runs: nacl.exceptions.ValueError
                    raise RaiseEx('NaclValueError', 'The signature must be exactly 64 bytes long')
                if key in self.rule['valid']:
                    return msg
                raise RaiseEx('BadSignatureError', 'oracle: not a valid signature of this message under this key')
            return Native(verify, 'VerifyKey.verify')
        return None


def mk(prog, oracle_state):
    it = install(Interp(prog))
    it.INJECTIVE_KEYS = True

    def ext_hook(dotted, args, kw, n):
        if dotted.endswith('VerifyKey'):
            return VerifyKeyModel(oracle_state, args[0] if args else kw.get('key'))
        if dotted.split('.')[-1] == 'crypto_sign_open' and len(args) == 2:
            # the libsodium binding on the combined form signature || message: the same oracle, the first 64 bytes are the signature
            whole = Rope.of(it, args[0])
            if whole is None:
                raise Fail('crypto_sign_open of a byte string of unknown layout')
            if whole.n < 64:
                raise RaiseEx('BadSignatureError', 'signed message shorter than a signature')
            sig, msg = whole.cut(it, 0, 64).simplify(), whole.cut(it, 64, whole.n).simplify()
            verify = VerifyKeyModel(oracle_state, args[1]).abs_attr(it, 'verify', n)
            return verify.fn(it, [msg, sig], {}, n)
        return None
    it.ext_hook = ext_hook
    return it


def node_id(it, pk):
    return Term('sha256', Rope([(K(NODE_MAGIC), 4), (pk, 32)]))


def spec_payload(R, F):
    return Rope([(K(SIGN_MAGIC), 4), (R, 32), (F, 32)])


def scenario(prog, n, seq, weights=None, one_shot=False):
    """-> list of (outcome, detail, it) per path"""
    state = dict(valid=set(), asked=[])
    R = Sym('R', ty='bytes', n=32, key=('blk', 'root'))
    F = Sym('F', ty='bytes', n=32, key=('blk', 'file'))
    pks = [Sym(f'P{i}', ty='bytes', n=32, key=('pk', i)) for i in range(n)]
    unknown_pk = Sym('PU', ty='bytes', n=32, key=('pk', 'u'))
    results = []

    def one(orc):
        it = mk(prog, state)
        it.oracle = orc
        state['valid'].clear()
        state['asked'].clear()
        VD, SPK = prog.cls('ValidatorDescr'), prog.cls('SigPubKey', required=False)
        nodes = []
        for i in range(n):
            nd = Inst(VD)
            pkobj = Inst(SPK)
            pkobj.attrs['pubkey'] = pks[i]
            nd.attrs['public_key'] = pkobj
            nd.attrs['weight'] = atom(f'w{i}') if weights is None else K(weights[i])
            nodes.append(nd)
        blk = Inst(prog.cls('BlockIdExt'))
        blk.attrs.update(root_hash=R, file_hash=F, workchain=K(-1), shard=K(-1 << 63), seqno=K(1))
        msg = spec_payload(R, F)
        sigs = []
        for j, (kind, i) in enumerate(seq):
            sg = Sym(f'S{j}', ty='bytes', n=64 if kind != 'malformed' else 63, key=('sig', j))
            pk = unknown_pk if kind == 'unknown' else pks[i]
            if kind == 'valid':
                state['valid'].add((repr(it.vkey(pk)), repr(it.vkey(msg)), repr(it.vkey(sg))))
            elif kind == 'otherblock':
                other = Rope([(K(SIGN_MAGIC), 4), (F, 32), (R, 32)])
                state['valid'].add((repr(it.vkey(pk)), repr(it.vkey(other)), repr(it.vkey(sg))))
            elif kind == 'unknown':
                state['valid'].add((repr(it.vkey(pk)), repr(it.vkey(msg)), repr(it.vkey(sg))))
            elif kind == 'combined':
                # what a validator really signed for another block, as nacl's combined form `signature || message`, in the place of the signature
                other = Rope([(K(SIGN_MAGIC), 4), (F, 32), (R, 32)])
                state['valid'].add((repr(it.vkey(pk)), repr(it.vkey(other.simplify())), repr(it.vkey(sg))))
                state['valid'].add((repr(it.vkey(pk)), repr(it.vkey(other)), repr(it.vkey(sg))))
                sg = Rope([(sg, 64)] + other.parts)
            d = DictV({'node_id_short': Term('hex', node_id(it, pk)), 'signature': sg})
            d.keyobj = {k: K(k) for k in d.d}
            sigs.append(d)
        try:
            # one_shot: the validator set handed over as a single-pass iterable (islice over the set's values, a filtering generator)
            it.invoke(prog.func('check_block_signatures'), [IterV(list(nodes)) if one_shot else ListV(nodes), ListV(sigs), blk], {})
            return ('accept', None, it)
        except RaiseEx as e:
            return ('raise', e, it)
    for out, desc in run_paths(one, 64):
        results.append((out, desc))
    return results


def spec_verdict(n, seq):
    """-> ('reject', why) | ('threshold', set of distinct signers) ; dup = True when a signer repeats"""
    if any(k != 'valid' for k, _ in seq):
        return 'reject', False
    signers = [i for _, i in seq]
    dup = len(set(signers)) != len(signers)
    return set(signers), dup


def check(run):
    prog = Program()
    thorough = run.tier == 'thorough'
    f = prog.func('check_block_signatures')
    w = prog.where(f)
    run.explanation = 'check_block_signatures interpreted over all small validator sets and signature sequences with an Ed25519 oracle model; accept condition compared as a polynomial inequality.'
    run.rule('D1', 'accepted iff 3*sum(weights of distinct valid signers) - 2*total > 0 (normalised polynomial inequality; constant cases decided outright)', 50)
    run.rule('D2', 'a validator named twice is rejected or counted once', 15)
    run.rule('D3', 'unknown signer / invalid signature / signature of another payload => rejected on every path; verify_sign is True only after verify returned, False only on BadSignatureError', 100)
    run.rule('D4', 'node id = sha256(c6b41348 | pubkey); payload = 706e0bc5 | root_hash | file_hash', 2)
    run.rule('D2s', 'one validator named under several spellings of its id (hex case, blanks) is still one validator', 4)
    run.rule('D5', 'no state is carried between calls: signatures accepted for one block are not accepted for another block in the same process', 2)
    run.trust('CPython ast', 'checker interpreter + polynomial normaliser', 'Ed25519 oracle model', 'SHA-256 collision-freeness')
    run.exhaustive = True

    # ---- D4 terms
    it = install(Interp(prog))
    P = Sym('P0', ty='bytes', n=32, key=('pk', 0))
    got = it.invoke(prog.func('calculate_node_id_short'), [P], {})
    want = node_id(it, P)
    run.check(repr(got) == repr(want), 'D4', 'calculate_node_id_short', f'{vrepr(got)[:80]} (spec {vrepr(want)[:80]})', prog.where(prog.func('calculate_node_id_short')))
    # payload: read off what the oracle was asked on a one-validator one-signature scenario
    st = dict(valid=set(), asked=[])
    it = mk(prog, st)
    R = Sym('R', ty='bytes', n=32, key=('blk', 'root'))
    F = Sym('F', ty='bytes', n=32, key=('blk', 'file'))
    nd = Inst(prog.cls('ValidatorDescr'))
    pko = Inst(prog.cls('SigPubKey'))
    pko.attrs['pubkey'] = P
    nd.attrs.update(public_key=pko, weight=K(1))
    blk = Inst(prog.cls('BlockIdExt'))
    blk.attrs.update(root_hash=R, file_hash=F)
    sg = Sym('S0', ty='bytes', n=64, key=('sig', 0))
    d = DictV({'node_id_short': Term('hex', node_id(it, P)), 'signature': sg})
    d.keyobj = {k: K(k) for k in d.d}
    try:
        it.invoke(f, [ListV([nd]), ListV([d]), blk], {})
    except RaiseEx:
        pass
    want_key = (repr(it.vkey(P)), repr(it.vkey(spec_payload(R, F))), repr(it.vkey(sg)))
    ok = st['asked'] == [want_key]
    run.check(ok, 'D4', 'check_block_signatures[payload]', f'verification asked for {st["asked"][:1]}; specification {want_key}'[:400], w)

    # ---- D3 verify_sign discipline
    for valid in (True, False):
        st = dict(valid=set(), asked=[])
        it = mk(prog, st)
        M = Sym('M', ty='bytes', n=68, key=('m',))
        if valid:
            st['valid'].add((repr(it.vkey(P)), repr(it.vkey(M)), repr(it.vkey(sg))))
        r = it.invoke(prog.func('verify_sign'), [P, M, sg], {})
        run.check(isinstance(r, K) and r.v is valid, 'D3', 'verify_sign' if not (isinstance(r, K) and r.v is valid) else f'verify_sign[{"valid" if valid else "invalid"}]',
                  f'{"valid" if valid else "invalid"} signature -> {vrepr(r)}', prog.where(prog.func('verify_sign')))

    # a signature of the wrong length (PyNaCl raises its own ValueError, a CryptoError): never True
    st = dict(valid=set(), asked=[])
    it = mk(prog, st)
    M = Sym('M', ty='bytes', n=68, key=('m',))
    for ln in (0, 63, 65):
        short = Sym(f'sig{ln}', ty='bytes', n=ln, key=('sigshort', ln))
        try:
            r = it.invoke(prog.func('verify_sign'), [P, M, short], {})
            res = vrepr(r)
            ok = isinstance(r, K) and r.v is False
        except RaiseEx as e:
            res, ok = f'raises {e.kind}', True
        run.check(ok, 'D3', 'verify_sign[malformed signature]' if not ok else f'verify_sign[{ln}-byte signature]', f'{ln}-byte signature -> {res} (must be False or an exception, never True)',
                  prog.where(prog.func('verify_sign')))
    for n in (1, 2, 3):
        for p_ in range(n):
            for seq in ([('valid', i) if i != p_ else ('malformed', i) for i in range(n)], [('valid', i) for i in range(n)] + [('malformed', p_)],
                        [('malformed', p_)] + [('valid', i) for i in range(n)]):
                tag = f'n={n},sigs=[{",".join(k + str(i) for k, i in seq)}]'
                for (kind, res, it2), desc in scenario(prog, n, seq):
                    run.evaluations += 1
                    run.check(kind == 'raise', 'D3', 'check_block_signatures[malformed]' if kind != 'raise' else f'{tag}|{desc[:24]}',
                              f'{tag}: ' + ('rejected' if kind == 'raise' else f'accepted although one entry is a 63-byte string, not a signature (path {desc})'), w)

    # an entry whose `signature` is the combined form signature || message of what the validator signed for ANOTHER block: only the 64-byte
    # detached signature over THIS block's payload counts - anything longer is no signature of it
    for n in (1, 2, 3):
        for p_ in range(n):
            for seq in ([('valid', i) if i != p_ else ('combined', i) for i in range(n)], [('combined', p_)] + [('valid', i) for i in range(n) if i != p_]):
                tag = f'n={n},sigs=[{",".join(k + str(i) for k, i in seq)}]'
                for (kind, res, it2), desc in scenario(prog, n, seq):
                    run.evaluations += 1
                    run.check(kind == 'raise', 'D3', 'check_block_signatures[combined form in place of a signature]' if kind != 'raise' else f'{tag}|{desc[:24]}',
                              f'{tag}: ' + ('rejected' if kind == 'raise' else f'accepted although one entry carries `signature || payload of another block` (132 bytes) where the signature belongs (path {desc})'), w)

    # ---- scenarios
    maxlen = 4 if thorough else 3
    nfail = 0
    grid_cache, bounded_notes = {}, set()
    for n in range(0, 4):
        alphabet = [(k, i) for i in range(n) for k in ('valid', 'bad', 'otherblock')] + [('unknown', None)]
        for L in range(0, maxlen + 1):
            if L == maxlen and n == 3 and not thorough:
                # longest sequences on three validators: only those made of valid entries (duplicates and thresholds live there) + one bad position
                seqs = [s for s in itertools.product(alphabet, repeat=L) if sum(1 for k, _ in s if k != 'valid') <= 1]
            else:
                seqs = itertools.product(alphabet, repeat=L)
            for seq in seqs:
                tag = f'n={n},sigs=[{",".join((k + str(i) if i is not None else k) for k, i in seq)}]'
                verdict, dup = spec_verdict(n, seq)
                paths = scenario(prog, n, seq)
                run.evaluations += len(paths)
                T = Poly.const(0)
                for i in range(n):
                    T = T + Poly.var(f'w{i}')
                for (kind, res, it), desc in paths:
                    if verdict == 'reject':
                        ok = kind == 'raise'
                        if ok:
                            run.ok('D3', f'{tag}|{desc[:24]}', f'raises {res.kind}' if L <= 1 else '')
                        else:
                            nfail += 1
                            if nfail <= 6:
                                bad = next((k + (str(i) if i is not None else '')) for k, i in seq if k != 'valid')
                                run.fail('D3', f'check_block_signatures[{[k for k, _ in seq if k != "valid"][0]}]', f'{tag}: accepted although entry {bad} is not a valid signature of this block by a known validator (path {desc})', w, witness=dict(n=n, seq=[list(map(str, s)) for s in seq]))
                        continue
                    S = Poly.const(0)
                    for i in verdict:
                        S = S + Poly.var(f'w{i}')
                    rule = 'D2' if dup else 'D1'
                    q = S * Poly.const(3) - T * Poly.const(2)
                    if dup and kind == 'raise' and not any('>= 0' in d for d, _ in it.pathcond):
                        run.ok('D2', f'{tag}|dup-rejected', f'duplicate rejected with {res.kind}')
                        continue
                    if q.is_const():
                        want = q.cval() > 0
                        ok = (kind == 'accept') == want
                        why = f'signed {S}, total {T}: constant case, {"accepted" if kind == "accept" else "rejected"} (must be {"accepted" if want else "rejected"})'
                    else:
                        spec = it.int_cond(ast.Gt(), S * Poly.const(3), T * Poly.const(2))
                        dec = it.decided.get(spec.key)
                        if dec is None:
                            # the path compared the weights by a formula the polynomial normal form does not identify with 3*signed > 2*total
                            # (an integer division, a pre-computed quorum, ...): decided instead on every weight vector of a small grid -
                            # the formula must agree with the specification at each point (bounded, recorded as such)
                            key_ = (n, tuple(seq))
                            if key_ not in grid_cache:
                                grid = itertools.product((0, 1, 2, 3, 4, 6, 7) if n <= 2 else (1, 2, 3, 5), repeat=n)
                                bad_pt = None
                                npts = 0
                                for ws_ in grid:
                                    npts += 1
                                    s_ = sum(ws_[i] for i in verdict)
                                    want_ = 3 * s_ > 2 * sum(ws_)
                                    kinds_ = {k for (k, _, _), _ in scenario(prog, n, seq, ws_)}
                                    if kinds_ != ({'accept'} if want_ else {'raise'}):
                                        bad_pt = (ws_, sorted(kinds_), want_)
                                        break
                                grid_cache[key_] = (bad_pt, npts)
                            bad_pt, npts = grid_cache[key_]
                            conds = [d for d, _ in it.pathcond if '>= 0' in d]
                            if bad_pt is None:
                                ok = True
                                why = f'signed(distinct) {S}, total {T}: the path decides {conds}; agrees with 3*signed > 2*total on all {npts} weight vectors of the grid (bounded)'
                                bounded_notes.add(str(conds)[:120])
                            else:
                                ok = False
                                why = (f'signed(distinct) {S}, total {T}: the path decided {conds or "no weight comparison"}; with weights {bad_pt[0]} the set is {bad_pt[1]} '
                                       f'but 3*signed > 2*total is {bad_pt[2]}')
                        else:
                            holds = dec if spec.pol else not dec
                            ok = (kind == 'accept') == holds
                            why = f'3*({S}) > 2*({T}) is {holds} on this path and the set is {"accepted" if kind == "accept" else "rejected"}'
                    if ok:
                        run.ok(rule, f'{tag}|{desc[:24]}', why if L <= 1 else '')
                    else:
                        nfail += 1
                        if nfail <= 6:
                            run.fail(rule, 'check_block_signatures[duplicate signer]' if dup else 'check_block_signatures[threshold]', f'{tag}: {why}', w, witness=dict(n=n, seq=[list(map(str, s)) for s in seq], path=desc))
    for note in sorted(bounded_notes):
        run.info(f'threshold written as {note}: not identified symbolically with 3*signed > 2*total, decided on a grid of weight vectors')
    spellings_and_replay(run, prog, w)
    # concrete boundary cross-check of the threshold (guards against an equivalent-but-unrecognised formula being misjudged and vice versa)
    for weights, seq, want in (((1, 1, 1), (('valid', 0), ('valid', 1)), False), ((1, 1, 1), (('valid', 0), ('valid', 1), ('valid', 2)), True),
                               ((2, 1), (('valid', 0),), False), ((3, 1), (('valid', 0),), True), ((5, 5, 5), (('valid', 2), ('valid', 0)), False),
                               ((7, 3), (('valid', 0),), True), ((0, 0), (), False)):
        paths = scenario(prog, len(weights), seq, weights)
        kinds = {k for (k, _, _), _ in paths}
        ok = kinds == ({'accept'} if want else {'raise'})
        run.check(ok, 'D1', 'check_block_signatures[threshold]' if not ok else f'concrete[w={weights},signers={[i for _, i in seq]}]',
                  f'weights {weights}, valid signatures of {[i for _, i in seq]}: {sorted(kinds)} (must be {"accept" if want else "reject"}: 3*signed {">" if want else "<="} 2*total)', w)
        # the same with the validators given as a single-pass iterable: the set is walked once, whatever it is
        paths = scenario(prog, len(weights), seq, weights, one_shot=True)
        kinds = {k for (k, _, _), _ in paths}
        ok = kinds == ({'accept'} if want else {'raise'})
        run.check(ok, 'D1', 'check_block_signatures[threshold, validators as a one-shot iterable]' if not ok else f'concrete one-shot[w={weights},signers={[i for _, i in seq]}]',
                  f'validators as an iterator, weights {weights}, valid signatures of {[i for _, i in seq]}: {sorted(kinds)} (must be {"accept" if want else "reject"})', w)


def spellings_and_replay(run, prog, w):
    import hashlib
    f = prog.func('check_block_signatures')

    def setup(it, st, nvals, weights):
        pks = [bytes([i + 1]) * 32 for i in range(nvals)]
        nodes = []
        for i, pk in enumerate(pks):
            nd = Inst(prog.cls('ValidatorDescr'))
            pko = Inst(prog.cls('SigPubKey'))
            pko.attrs['pubkey'] = K(pk)
            nd.attrs.update(public_key=pko, weight=K(weights[i]))
            nodes.append(nd)
        ids = [hashlib.sha256(NODE_MAGIC + pk).digest() for pk in pks]
        return pks, nodes, ids

    def blk(it, r, fh):
        b = Inst(prog.cls('BlockIdExt'))
        b.attrs.update(root_hash=K(r), file_hash=K(fh), workchain=K(-1), shard=K(-1 << 63), seqno=K(1))
        return b
    # ---- spellings: validator 0 (weight 4 of 10) under several textual forms of the same id
    variants = {'lower+upper': lambda h: [h, h.upper()], 'upper x2 + spaced': lambda h: [h.upper(), ' '.join(h[i:i + 2] for i in range(0, len(h), 2)), h],
                'lower + trailing blank': lambda h: [h, h + ' '], 'eight spellings': lambda h: [h, h.upper(), h.capitalize(), ' ' + h, h + ' ', h[:2] + ' ' + h[2:], h[:4].upper() + h[4:], h[:-2] + h[-2:].upper()]}
    for name, mk_forms in variants.items():
        st = dict(valid=set(), asked=[])
        it = mk(prog, st)
        it.CONCRETE_HASH = True
        pks, nodes, ids = setup(it, st, 7, [4] + [1] * 6)
        R, F = b'\x01' * 32, b'\x02' * 32
        msg = K(SIGN_MAGIC + R + F)
        sigs = []
        for j, form in enumerate(mk_forms(ids[0].hex())):
            sg = Sym(f'S{j}', ty='bytes', n=64, key=('sig', j))
            st['valid'].add((repr(it.vkey(K(pks[0]))), repr(it.vkey(msg)), repr(it.vkey(sg))))
            d = DictV({'node_id_short': K(form), 'signature': sg})
            d.keyobj = {k: K(k) for k in d.d}
            sigs.append(d)
        try:
            it.invoke(f, [ListV(nodes), ListV(sigs), blk(it, R, F)], {})
            out = 'accepted'
        except RaiseEx as e:
            out = f'rejected ({e.kind})'
        ok = out != 'accepted'
        run.check(ok, 'D2s', 'check_block_signatures[duplicate signer, other spelling]' if not ok else f'spellings: {name}',
                  f'validator 0 (weight 4 of 10) listed {len(sigs)} times as {name}: {out} (40% of the weight is not a supermajority however often it is listed)', w)
        run.evaluations += 1
    # ---- replay in the same process: set accepted for block A, then presented for block B
    for nvals in (1, 3):
        st = dict(valid=set(), asked=[])
        it = mk(prog, st)
        it.CONCRETE_HASH = True
        pks, nodes, ids = setup(it, st, nvals, [5] * nvals)
        RA, FA, RB, FB = b'\x0a' * 32, b'\x0b' * 32, b'\x0c' * 32, b'\x0d' * 32
        msgA = K(SIGN_MAGIC + RA + FA)
        sigs = []
        for j in range(nvals):
            sg = Sym(f'S{j}', ty='bytes', n=64, key=('sig', j))
            st['valid'].add((repr(it.vkey(K(pks[j]))), repr(it.vkey(msgA)), repr(it.vkey(sg))))
            d = DictV({'node_id_short': K(ids[j].hex()), 'signature': sg})
            d.keyobj = {k: K(k) for k in d.d}
            sigs.append(d)
        try:
            it.invoke(f, [ListV(nodes), ListV(sigs), blk(it, RA, FA)], {})
            first = 'accepted'
        except RaiseEx as e:
            first = f'rejected ({e.kind})'
        try:
            it.invoke(f, [ListV(nodes), ListV(sigs), blk(it, RB, FB)], {})
            second = 'accepted'
        except RaiseEx as e:
            second = f'rejected ({e.kind})'
        ok = first == 'accepted' and second != 'accepted'
        run.check(ok, 'D5', 'check_block_signatures[replay for another block]' if not ok else f'replay: {nvals} validator(s)',
                  f'{nvals} validator(s): genuine set for block A {first}; the same signatures presented for block B in the same process: {second} (they are not signatures of B)', w)
        run.evaluations += 1
    # ---- another validator set in a later call: members of the set used before are strangers to this one
    st = dict(valid=set(), asked=[])
    it = mk(prog, st)
    it.CONCRETE_HASH = True
    pks, nodes, ids = setup(it, st, 6, [5] * 6)
    R1, F1, R2, F2 = b'\x1a' * 32, b'\x1b' * 32, b'\x1c' * 32, b'\x1d' * 32

    def signed(by, R, F, base):
        msg = K(SIGN_MAGIC + R + F)
        out = []
        for j in by:
            sg = Sym(f'S{base}_{j}', ty='bytes', n=64, key=('sig', base, j))
            st['valid'].add((repr(it.vkey(K(pks[j]))), repr(it.vkey(msg)), repr(it.vkey(sg))))
            d = DictV({'node_id_short': K(ids[j].hex()), 'signature': sg})
            d.keyobj = {k: K(k) for k in d.d}
            out.append(d)
        return out
    V1, V2 = [0, 1, 2], [3, 4, 5]
    try:
        it.invoke(f, [ListV([nodes[j] for j in V1]), ListV(signed(V1, R1, F1, 1)), blk(it, R1, F1)], {})
        first = 'accepted'
    except RaiseEx as e:
        first = f'rejected ({e.kind})'
    outcomes = {}
    for name, by in (('signed by the three members of the earlier set only', V1), ('two genuine members plus one member of the earlier set', [3, 4, 0])):
        try:
            it.invoke(f, [ListV([nodes[j] for j in V2]), ListV(signed(by, R2, F2, 2)), blk(it, R2, F2)], {})
            outcomes[name] = 'accepted'
        except RaiseEx as e:
            outcomes[name] = f'rejected ({e.kind})'
    ok = first == 'accepted' and all(v != 'accepted' for v in outcomes.values())
    run.check(ok, 'D5', 'check_block_signatures[validators of an earlier call]' if not ok else 'history: a second validator set',
              f'set {{0,1,2}} verified for block 1: {first}; then block 2 with the set {{3,4,5}}: ' + '; '.join(f'{k}: {v}' for k, v in outcomes.items()) + ' (a signer outside the given set is unknown, whatever was verified before)', w)
    run.evaluations += 3
