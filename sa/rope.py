"""Symbolic byte strings with concrete layout: a Rope is a sequence of parts, each of a known byte length - constant bytes,
or an opaque value (Sym / Term) standing for that many unknown bytes.  Indexing, slicing, concatenation, length and
equality are decided on the layout; the content of opaque parts is never looked at.  Used wherever the package builds or
takes apart byte layouts (friendly addresses, TL frames, ADNL packets, signed payloads)."""
import ast
from .values import *


def _nbytes(it, v):
    from . import models
    if isinstance(v, Rope):
        return v.n
    r = models.bytes_len(it, v)
    if isinstance(r, K):
        return r.v
    return None


class Rope:
    def __init__(self, parts):
        """parts: list of (value, nbytes); value is K(bytes) or an opaque abstract value"""
        out = []
        for v, n in parts:
            if n == 0:
                continue
            if isinstance(v, Rope):
                for p in v.parts:
                    self._push(out, p)
            else:
                self._push(out, (v, n))
        self.parts = out
        self.n = sum(n for _, n in out)

    @staticmethod
    def _push(out, p):
        v, n = p
        if isinstance(v, K) and out and isinstance(out[-1][0], K):
            out[-1] = (K(bytes(out[-1][0].v) + bytes(v.v)), out[-1][1] + n)
        else:
            out.append((v, n))

    @staticmethod
    def of(it, v):
        """abstract value -> Rope, or None when its length is unknown"""
        if isinstance(v, Rope):
            return v
        if isinstance(v, K) and isinstance(v.v, (bytes, bytearray)):
            return Rope([(K(bytes(v.v)), len(v.v))])
        if isinstance(v, Term) and v.op == 'cat':
            parts = []
            for p in v.a:
                r = Rope.of(it, p)
                if r is None:
                    return None
                parts += r.parts
            return Rope(parts)
        n = _nbytes(it, v)
        if n is None:
            return None
        return Rope([(v, n)])

    def simplify(self):
        if not self.parts:
            return K(b'')
        if len(self.parts) == 1:
            return self.parts[0][0]
        return self

    def concrete(self):
        return all(isinstance(v, K) for v, _ in self.parts)

    def __repr__(self):
        return 'Rope[' + ' | '.join(f'{vrepr(v) if not isinstance(v, K) else v.v.hex()}:{n}' for v, n in self.parts) + ']'

    # ---- hooks used by the interpreter
    def abs_key(self):
        return ('rope', repr(self))

    def abs_len(self, it):
        return K(self.n)

    def abs_truth(self, it):
        return self.n > 0

    def abs_isinstance(self, it, ty):
        nm = getattr(ty, 'name', None)
        if nm in ('bytes',):
            return True
        if nm in ('str', 'int', 'tuple', 'list', 'dict', 'bytearray', 'bool'):
            return False
        return False

    def _norm(self, i, dflt):
        if i is None:
            return dflt
        if i < 0:
            i += self.n
        return min(max(i, 0), self.n)

    def cut(self, it, lo, hi):
        out = []
        pos = 0
        for v, n in self.parts:
            a, b = max(lo, pos), min(hi, pos + n)
            if a < b:
                if a == pos and b == pos + n:
                    out.append((v, n))
                elif isinstance(v, K):
                    out.append((K(v.v[a - pos:b - pos]), b - a))
                else:
                    out.append((it.getslice(v, K(a - pos), K(b - pos), K(None), None) if isinstance(v, Sym) and v.meta.get('n') is not None
                                else Term('bslice', v, K(a - pos), K(b - pos)), b - a))
            pos += n
        return Rope(out)

    def abs_slice(self, it, lo, hi, st, node):
        if not all(isinstance(x, K) for x in (lo, hi, st)) or st.v not in (None, 1):
            if isinstance(st, K) and st.v == -1 and isinstance(lo, K) and lo.v is None and isinstance(hi, K) and hi.v is None:
                if self.concrete():
                    return K(b''.join(v.v for v, _ in self.parts)[::-1])
                return Term('reversed_bytes', self.simplify())
            raise Fail(f'rope slice with symbolic bounds {lo!r}:{hi!r}')
        a, b = self._norm(lo.v, 0), self._norm(hi.v, self.n)
        return self.cut(it, a, max(a, b)).simplify()

    def abs_item(self, it, i, node):
        if not (isinstance(i, K) and isinstance(i.v, int)):
            raise Fail('rope index not constant')
        k = i.v + self.n if i.v < 0 else i.v
        if not 0 <= k < self.n:
            raise RaiseEx('IndexError', 'index out of range')
        pos = 0
        for v, n in self.parts:
            if pos <= k < pos + n:
                if isinstance(v, K):
                    return K(v.v[k - pos])
                return Sym(f'byte{k - pos}({vrepr(v)[:30]})', ty='int', key=('byte', it.vkey(v), k - pos))
            pos += n

    def abs_binop(self, it, op, a, b, reflected):
        if not isinstance(op, ast.Add):
            return None
        ra, rb = Rope.of(it, a), Rope.of(it, b)
        if ra is None or rb is None:
            return None
        return Rope(ra.parts + rb.parts).simplify()

    def abs_cmp(self, it, op, a, b, node):
        if not isinstance(op, (ast.Eq, ast.NotEq)):
            return None
        ra, rb = Rope.of(it, a), Rope.of(it, b)
        if ra is None or rb is None:
            return None
        r = rope_eq(it, ra, rb)
        if r is None:
            return None
        return K(r if isinstance(op, ast.Eq) else not r)

    def abs_attr(self, it, a, node):
        if a == 'hex':
            return Native(lambda it_, args, kw, n: K(b''.join(v.v for v, _ in self.parts).hex()) if self.concrete() else Term('hex', self), 'bytes.hex')
        if a == 'decode':
            return Native(lambda it_, args, kw, n: Term('decode', self), 'bytes.decode')
        return None

    def abs_iter(self, it):
        out = []
        for k in range(self.n):
            out.append(self.abs_item(it, K(k), None))
        return out


def rope_eq(it, ra, rb):
    """True / False / None"""
    if ra.n != rb.n:
        return False
    # align on common boundaries
    bounds = sorted({0, ra.n} | set(_bounds(ra)) | set(_bounds(rb)))
    unk = False
    for lo, hi in zip(bounds, bounds[1:]):
        pa, pb = ra.cut(it, lo, hi).parts, rb.cut(it, lo, hi).parts
        (va, _), (vb, _) = pa[0], pb[0]
        if isinstance(va, K) and isinstance(vb, K):
            if va.v != vb.v:
                return False
        elif repr(it.vkey(va)) == repr(it.vkey(vb)):
            continue
        else:
            unk = True
    return None if unk else True


def _bounds(r):
    pos = 0
    out = []
    for _, n in r.parts:
        pos += n
        out.append(pos)
    return out


def install(it):
    """make byte-string concatenation in this interpreter produce Ropes whenever all lengths are known"""
    orig_concat = it.concat

    def concat(a, b):
        def bytesy(v):
            return isinstance(v, Rope) or (isinstance(v, K) and isinstance(v.v, (bytes, bytearray))) or \
                (isinstance(v, Sym) and v.meta.get('ty') == 'bytes') or (isinstance(v, Term) and _nbytes(it, v) is not None)
        if bytesy(a) and bytesy(b) and not (isinstance(a, K) and isinstance(b, K)):
            ra, rb = Rope.of(it, a), Rope.of(it, b)
            if ra is not None and rb is not None:
                return Rope(ra.parts + rb.parts).simplify()
        return orig_concat(a, b)
    it.concat = concat
    it.ROPES = True
    return it


# ---------------------------------------------------------------- mutable byte buffers with opaque content
class SymBuf:
    """the content of a `bytearray` that holds opaque (symbolic) bytes: it lives inside the K object that stands for the bytearray (K.v), so the
    buffer keeps its identity when it turns from concrete to symbolic.  Only what the model understands is allowed; every other use of the
    payload is an analysis error, never a guess."""
    def __init__(self, rope):
        self.rope = rope

    def __len__(self):
        return self.rope.n

    def __bool__(self):
        return self.rope.n > 0

    def __repr__(self):
        return f'SymBuf({self.rope!r})'

    def _no(self, *a, **k):
        raise Fail('operation on a bytearray with symbolic content that the model does not follow')
    __add__ = __radd__ = __mul__ = __iter__ = __getitem__ = __setitem__ = __eq__ = __lt__ = __contains__ = _no
    __hash__ = None


def buf_rope(it, k):
    """the Rope of a bytearray value (concrete or symbolic)"""
    if isinstance(k.v, SymBuf):
        return k.v.rope
    return Rope([(K(bytes(k.v)), len(k.v))])


def buf_store(it, k, lo, hi, value):
    """k[lo:hi] = value on a bytearray K (any lengths: the buffer shrinks / grows as Python's does)"""
    rv = Rope.of(it, value.rope_value(it) if isinstance(value, MemView) else value)
    if rv is None:
        raise Fail('slice assignment of a byte string of unknown length into a bytearray')
    cur = buf_rope(it, k)
    new = Rope(cur.cut(it, 0, lo).parts + rv.parts + cur.cut(it, hi, cur.n).parts)
    if new.concrete():
        k.v = bytearray(b''.join(bytes(v.v) for v, _ in new.parts))
    else:
        k.v = SymBuf(new)


class MemView:
    """memoryview over a bytearray: a window that shares the buffer (writes through the view reach it)"""
    not_none = True

    def __init__(self, target, lo, hi):
        self.target, self.lo, self.hi = target, lo, hi

    def abs_key(self):
        return ('memview', id(self.target), self.lo, self.hi)

    def abs_len(self, it):
        return K(self.hi - self.lo)

    def abs_truth(self, it):
        return self.hi > self.lo

    def abs_isinstance(self, it, ty):
        nm = getattr(ty, 'name', None)
        return nm == 'memoryview' if nm in ('memoryview', 'bytes', 'bytearray', 'str', 'int', 'list', 'tuple') else None

    def rope_value(self, it):
        return buf_rope(it, self.target).cut(it, self.lo, self.hi).simplify()

    def abs_slice(self, it, lo, hi, st, n):
        if not all(isinstance(x, K) for x in (lo, hi, st)) or st.v not in (None, 1):
            raise Fail('symbolic / strided slice of a memoryview')
        a, b, _ = slice(lo.v, hi.v).indices(self.hi - self.lo)
        return MemView(self.target, self.lo + a, self.lo + max(a, b))

    def abs_item(self, it, i, n):
        if isinstance(i, K) and isinstance(i.v, int):
            return it.getitem(self.rope_value(it), i, n)
        raise Fail('symbolic index into a memoryview')

    def abs_iter(self, it):
        return it.iterate(self.rope_value(it))

    def write(self, it, value):
        ln = _nbytes(it, value)
        if ln is None or ln != self.hi - self.lo:
            raise RaiseEx('ValueError', 'memoryview assignment: lvalue and rvalue have different structures')
        buf_store(it, self.target, self.lo, self.hi, value)

    def abs_setslice(self, it, lo, hi, value):
        a, b, _ = slice(lo, hi).indices(self.hi - self.lo)
        MemView(self.target, self.lo + a, self.lo + max(a, b)).write(it, value)

    def abs_attr(self, it, a, n):
        if a in ('cast', 'toreadonly', '__enter__'):
            return Native(lambda it_, args, kw, node: self, 'memoryview.' + a)
        if a in ('release', '__exit__'):
            return Native(lambda it_, args, kw, node: K(None), 'memoryview.' + a)
        if a == 'tobytes':
            return Native(lambda it_, args, kw, node: self.rope_value(it_), 'memoryview.tobytes')
        if a == 'nbytes':
            return K(self.hi - self.lo)
        if a == 'itemsize':
            return K(1)
        if a == 'readonly':
            return K(False)
        if a == 'obj':
            return self.target
        return None

    def abs_enter(self, it):
        return self

    def abs_exit(self, it, exc):
        return False
