"""Self-test of the checkers, both ways: every mutant in selftest/mutants/*.json is applied to a scratch copy of
/repo/pytoniq_core (outside /repo and /verif), the named check is run against the copy (VERIF_REPO), and the outcome
is compared with the expectation ('fire' = exit 1 naming the property, 'silent' = exit 0).  Scratch copies are removed.

mutant file: {"property": "C18", "file": "pytoniq_core/crypto/crc.py", "edits": [[old, new], ...], "expect": "fire"|"silent",
              "note": "..."}
usage: python selftest/run.py [C18 ...] [-j 16] [--tier quick]
"""
import glob
import json
import os
import shutil
import subprocess
import sys
import tempfile
import time
from concurrent.futures import ThreadPoolExecutor

HERE = os.path.dirname(os.path.abspath(__file__))
VERIF = os.path.dirname(HERE)
REPO = os.environ.get('VERIF_REPO', '/repo')


def one(path, tier):
    m = json.load(open(path))
    tmp = tempfile.mkdtemp(prefix='vst_', dir=os.environ.get('VERIF_SCRATCH', '/tmp'))
    try:
        shutil.copytree(os.path.join(REPO, 'pytoniq_core'), os.path.join(tmp, 'pytoniq_core'),
                        ignore=shutil.ignore_patterns('__pycache__'))
        for f, edits in ([(m['file'], m['edits'])] + [(x['file'], x['edits']) for x in m.get('more', [])]):
            fp = os.path.join(tmp, f)
            src = open(fp).read()
            for old, new in edits:
                if src.count(old) < 1:
                    return (path, m, 'BROKEN-MUTANT', f'pattern not found: {old[:50]!r}')
                src = src.replace(old, new, 1)
            open(fp, 'w').write(src)
            try:
                compile(src, fp, 'exec')
            except SyntaxError as e:
                return (path, m, 'BROKEN-MUTANT', f'syntax error {e}')
        env = dict(os.environ, VERIF_REPO=tmp, VERIF_OUT=os.path.join(tmp, 'out'))
        t0 = time.time()
        r = subprocess.run([os.path.join(VERIF, 'check'), m['property'], '--tier', tier], env=env, capture_output=True,
                           text=True, timeout=900)
        fired = r.returncode == 1 and f"VIOLATION property={m['property']}" in r.stdout
        if r.returncode == 2:
            got = 'analysis-error'
        else:
            got = 'fire' if fired else 'silent' if r.returncode == 0 else f'rc{r.returncode}'
        lines = [l for l in r.stdout.splitlines() if 'VIOLATION' in l or 'ANALYSIS-ERROR' in l]
        prev = [l for i, l in enumerate(r.stdout.splitlines()) if i + 1 < len(r.stdout.splitlines()) and 'VIOLATION' in r.stdout.splitlines()[i + 1]]
        return (path, m, got, ' | '.join((prev + lines)[:3])[:300] + f' ({time.time() - t0:.1f}s)')
    finally:
        shutil.rmtree(tmp, ignore_errors=True)


def main():
    args = sys.argv[1:]
    tier = 'quick'
    jobs = 16
    if '--tier' in args:
        i = args.index('--tier')
        tier = args[i + 1]
        del args[i:i + 2]
    if '-j' in args:
        i = args.index('-j')
        jobs = int(args[i + 1])
        del args[i:i + 2]
    files = sorted(glob.glob(os.path.join(HERE, 'mutants', '*.json')))
    if args:
        files = [f for f in files if any(os.path.basename(f).startswith(a) for a in args)]
    with ThreadPoolExecutor(jobs) as ex:
        res = list(ex.map(lambda f: one(f, tier), files))
    bad = 0
    summary = []
    for path, m, got, detail in res:
        ok = got == m['expect']
        bad += not ok
        print(f"{'ok  ' if ok else 'FAIL'} {os.path.basename(path):40s} expect={m['expect']:7s} got={got:15s} {detail}")
        summary.append(dict(mutant=os.path.basename(path), property=m['property'], expect=m['expect'], got=got, ok=ok,
                            note=m.get('note', '')))
    out = os.path.join(VERIF, 'evidence', 'selftest.json')
    if not args:
        json.dump(dict(tier=tier, total=len(res), agreeing=len(res) - bad, results=summary), open(out, 'w'), indent=1)
    print(f'{len(res) - bad}/{len(res)} as expected')
    sys.exit(1 if bad else 0)


if __name__ == '__main__':
    main()
