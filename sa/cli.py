"""./check entry point: exit-code discipline lives here."""
import argparse
import importlib
import json
import os
import sys
import traceback

from .core import Run, AnalysisError, VERIF
from .values import Fail, RaiseEx


def run_one(pid, tier, replay=None):
    try:
        mod = importlib.import_module(f'sa.rules.{pid}')
    except ModuleNotFoundError:
        print(f'ANALYSIS-ERROR property={pid} no rule module')
        return 2
    run = Run(pid, tier, level=getattr(mod, 'LEVEL', 'other'))
    try:
        try:
            mod.check(run)
        except (AnalysisError, Fail, RaiseEx) as e:
            # the analysis stopped early. A violation that was already established stands (it does not depend on the rest);
            # without one the run is undecided.
            if not run.unlisted_failures():
                raise
            print(f'INFO analysis stopped after a violation was established: {type(e).__name__}: {e}')
        return run.finish()
    except (AnalysisError, Fail, RaiseEx) as e:
        print(f'ANALYSIS-ERROR property={pid} {type(e).__name__}: {e}')
        return 2
    except Exception as e:          # a traceback must never look like a violation
        traceback.print_exc()
        print(f'ANALYSIS-ERROR property={pid} checker raised {type(e).__name__}: {e}')
        return 2


def main():
    ap = argparse.ArgumentParser()
    ap.add_argument('pid')
    ap.add_argument('--tier', default=os.environ.get('VERIF_TIER', 'quick'), choices=['quick', 'thorough'])
    ap.add_argument('--replay')
    a = ap.parse_args()
    if a.replay:
        try:
            r = json.load(open(a.replay))
            print(f"replaying rule {r.get('rule')} on construct {r.get('construct')} (the whole property is re-decided)")
        except Exception:
            pass
    if a.pid == 'all':
        rc = 0
        for l in open(os.path.join(VERIF, 'properties.jsonl')):
            pid = json.loads(l)['id']
            if os.path.exists(os.path.join(VERIF, 'sa', 'rules', pid + '.py')):
                rc = max(rc, run_one(pid, a.tier))
        sys.exit(rc)
    sys.exit(run_one(a.pid, a.tier, a.replay))


if __name__ == '__main__':
    main()
