"""Small-scope exhaustive DAG family for the thorough tiers of C03 / C04 / C05.

Every DAG shape with at most `n` distinct cells in topological order (cell i references only cells j > i, all reachable from
cell 0) and reference lists (ordered, with repetition - two references to the same child are a different shape) up to a bound:
    n <= 3: up to 4 references per cell;   n = 4: up to 3;   n = 5: up to 2 references per cell.
Two content modes: every cell distinct, or all leaves equal (so that equal sub-trees collapse to one cell by hash).
The shapes are enumerated completely; nothing is sampled."""
import itertools
import multiprocessing as mp
import sys
from .bocspec import SCell
from . import bocspec, bocrun
from . import cellmodel as cm
from .values import *

OPTS = [(False, False, False), (False, True, False), (True, False, False), (True, True, False), (True, False, True), (True, True, True)]


def shapes(max_n=5):
    out = []
    for n, maxr in ((1, 0), (2, 4), (3, 4), (4, 3), (5, 2)):
        if n > max_n:
            continue
        per_node = []
        for i in range(n):
            targets = list(range(i + 1, n))
            seqs = [()]
            for L in range(1, (maxr if targets else 0) + 1):
                seqs += list(itertools.product(targets, repeat=L))
            per_node.append(seqs)
        for combo in itertools.product(*per_node):
            # reachability from 0
            seen, work = {0}, [0]
            while work:
                x = work.pop()
                for y in combo[x]:
                    if y not in seen:
                        seen.add(y)
                        work.append(y)
            if len(seen) == n:
                out.append(combo)
    return out


def build(combo, mode):
    n = len(combo)
    cells = [None] * n
    for i in range(n - 1, -1, -1):
        leaf = not combo[i]
        if mode == 'same-leaves' and leaf:
            bits = '1011'
        else:
            bits = format(0b1000000 + i, '07b') + '1' * i
        cells[i] = SCell(bits, [cells[j] for j in combo[i]])
    return cells[0]


def name_of(combo, mode):
    return f'{mode}:' + ';'.join(f'{i}->{",".join(map(str, r)) or "-"}' for i, r in enumerate(combo))


def _worker(arg):
    pkg, items, what = arg
    sys.setrecursionlimit(20000)
    from .front import Program
    from .interp import Interp
    prog = Program(pkg)
    out = []
    for combo, mode in items:
        root = build(combo, mode)
        want = bocrun.skey(root)
        nd = bocrun.n_distinct([root])
        tag = name_of(combo, mode)
        if what in ('writer', 'roundtrip'):
            for opt in OPTS:
                it = Interp(prog)
                try:
                    c = bocrun.build(it, root)
                    o = cm.call_method(it, c, 'to_boc', K(opt[0]), K(opt[1]), K(opt[2]))
                    if what == 'writer':
                        st = bocrun.stream_of(o)
                        if st is None:
                            out.append((tag, opt, 'undecided', 'to_boc result not concrete'))
                            continue
                        dec = bocspec.strict_decode(st)
                        same = bocrun.decoded_key(dec, dec['roots'][0]) == want
                        keys = [bocrun.decoded_key(dec, i) for i in range(len(dec['cells']))]
                        once = len(dec['cells']) == nd and len(set(keys)) == len(keys)
                        flags = (bool(dec['has_idx']), bool(dec['has_crc']), bool(dec['cache'])) == opt
                        out.append((tag, opt, 'ok' if same and once and flags else 'bad', f'same DAG {same}, each distinct cell once {once} ({len(dec["cells"])} of {nd}), flags {flags}'))
                    else:
                        back = it.call(it.getattr(prog.cls('Cell'), 'one_from_boc'), [o], {})
                        same = isinstance(back, Inst) and bocrun.ckey(it, back) == want and repr(back.attrs.get('_hash')) == repr(c.attrs.get('_hash'))
                        out.append((tag, opt, 'ok' if same else 'bad', f'parse(serialise) has the same structure and hash: {same}'))
                except bocspec.SpecError as e:
                    out.append((tag, opt, 'bad', f'strict decoder rejects the output: {e}'))
                except RaiseEx as e:
                    out.append((tag, opt, 'bad', f'raises {e}'))
        else:   # reader on foreign encodings
            for kw in (dict(), dict(has_idx=True, has_crc=True, cache_bits=True), dict(magic='idx_crc'), dict(size=2, off=3, order='bfs-late'), dict(with_hashes=True)):
                try:
                    raw, _ = bocspec.encode([root], **kw)
                except Exception as e:
                    continue
                it = Interp(prog)
                try:
                    res = it.call(it.getattr(prog.cls('Cell'), 'from_boc'), [K(raw)], {})
                    ok = isinstance(res, ListV) and len(res.items) == 1 and bocrun.ckey(it, res.items[0]) == want
                    out.append((tag, tuple(sorted(kw.items())), 'ok' if ok else 'bad', 'parsed to the encoded root' if ok else 'parsed to a different DAG'))
                except RaiseEx as e:
                    out.append((tag, tuple(sorted(kw.items())), 'bad', f'rejected: {e}'))
    return out


def run_family(prog, what, max_n=5):
    items = [(c, m) for c in shapes(max_n) for m in ('distinct', 'same-leaves')]
    nproc = min(16, mp.cpu_count())
    with mp.Pool(nproc) as pool:
        res = [r for part in pool.map(_worker, [(prog.pkg, items[i::nproc], what) for i in range(nproc)]) for r in part]
    return len(items), res
