"""C01 - cell hash and depth are the TON representation hash and depth (ordinary cells).

Method: the real constructor `Cell(bits, refs, type)` is *abstractly interpreted* (data bits unknown, children's hashes
opaque symbols, control quantities - bit length b, reference count r, child depths - concrete and enumerated completely).
The byte stream that reaches sha256 is obtained as a term and compared with the specification's
    d1 d2 . data+completion tag . depth(ref_i) (2 bytes BE) ... . hash(ref_i) ...
"""
import ast
import itertools
from ..core import AnalysisError
from ..front import Program, FuncRef
from ..interp import Interp, Oracle, run_paths
from ..values import *
from .. import cellmodel as cm
from .. import models

MANIFEST = dict(
    technique='abstract interpretation of Cell.__init__ over the complete control domain (b in 0..1023, r in 0..4, child-depth orderings) with symbolic data; hash-stream term vs specification; who-may-write rule',
    text='Decides, for every bit length 0..1023 and reference count 0..4, that the byte stream hashed at construction is the TON '
         'representation (descriptor bytes, completion-tag padding, depths before hashes, 2-byte big-endian depths), that depth = '
         '1+max over children with the 1023 limit exact, that equality/hash depend on the representation hash only, that the '
         'recomputed representation equals the cached one, and that every construction route yields the same hash. Concrete '
         'digests are not computed (SHA-256 and bitarray are modelled).'
         " Ordinary cells above pruned sub-trees hash d1 with the union of the children's level masks; the same child in several reference slots contributes every slot; the cached hash stays the recomputed one after derived builders/slices are used."
         ' Equality and hashing follow the representation hash where it differs from the level-0 hash (a cell vs. the pruned branch standing for it, an ordinary cell above either); cells built one after the other in one process - leaves whose padded data bytes coincide, two prunings of one tree - each get their own hash.'
         ' Cells of a subclass of Cell compare and hash like plain cells with the same representation hash.',
    note='trusted: CPython ast, the checker\'s interpreter and its bitarray/hashlib models, transcription of tvm.pdf 3.1.4-3.1.6. '
         'Not decided: digests of concrete cells.',
    design_ref='DESIGN.md section 4 C01')


def mk(prog):
    it = Interp(prog)
    return it


def hash_parts(cell):
    h = cm.cached(None, cell, '_hash')
    if not (isinstance(h, Term) and h.op == 'sha256'):
        return None
    return cm.flatten_bytes(list(h.a))


def expect_stream(b, children, mask=0, exotic=False):
    """specification stream for an ordinary cell: list of ('k', byte) / ('data', b) / ('hash', i)"""
    r = len(children)
    out = [('k', cm.spec_d1(r, exotic, mask)), ('k', cm.spec_d2(b))]
    if b:
        out.append(('data', b))
    for d in children:
        out += [('k', d >> 8), ('k', d & 255)]
    for i in range(r):
        out.append(('hash', i))
    return out


def stream_matches(parts, want, hashes):
    if parts is None or len(parts) != len(want):
        return False, f'stream has {None if parts is None else len(parts)} items, specification {len(want)}'
    for idx, (p, w) in enumerate(zip(parts, want)):
        if w[0] == 'k':
            if p != ('k', w[1]):
                return False, f'item {idx}: got {p[1] if p[0] == "k" else vrepr(p[1])[:60]}, specification byte {w[1]:#04x}'
        elif w[0] == 'data':
            if p[0] != 't' or not cm.data_term_ok(p[1], w[1]):
                got = p[1].a[2].ba.pattern()[-12:] if p[0] == 't' and isinstance(p[1], Term) and p[1].op == 'tobytes' else p
                return False, f'item {idx}: data of {w[1]} bits not padded with the completion tag (tail {got})'
        else:
            if p[0] != 't' or p[1] is not hashes[w[1]]:
                return False, f'item {idx}: expected hash of reference {w[1]}, got {vrepr(p[1])[:40] if p[0] == "t" else p}'
    return True, ''


def construct(prog, b, depths, plain=False):
    """one abstract construction; returns (outcome, cell or exception, interpreter)"""
    it = mk(prog)
    kids = [cm.forge_ordinary_child(it, i, depth=d) for i, d in enumerate(depths)]
    ba = cm.data_bits(b)
    bits = ba if plain else cm.tvm_bits(it, ba)
    try:
        c = cm.new_cell(it, bits, kids)
        return 'ok', c, it, kids, bits
    except RaiseEx as e:
        return 'raise', e, it, kids, bits


def check(run):
    prog = Program()
    cellf = prog.method('Cell', '__init__')
    where = prog.where(cellf)
    run.explanation = ('Cell.__init__ abstractly interpreted on the complete control domain; the sha256 input stream, the stored '
                       'depth, the rejection threshold, __eq__/__hash__, the recomputed representation and the construction '
                       'routes are compared with the TON cell representation (tvm.pdf 3.1.4-3.1.6).')
    run.rule('D123', 'hashed stream of an ordinary cell == d1 d2 . padded data . depths(2B BE) . hashes, for every bit length and reference count', 1024)
    run.rule('D2b', 'padding is applied to a copy: the cell\'s own bits keep their length', 8)
    run.rule('D4', 'depth = 0 without references else 1 + max(child depths); accepted iff depth <= 1023', 100)
    run.rule('D5', 'calculate_representation_hash() recomputes exactly the cached hash', 3)
    run.rule('D8', 'an ordinary cell whose children carry level masks (pruned sub-trees below) hashes d1 = r + 32*(union of the children\'s masks)', 30)
    run.rule('D6', '__eq__ is equality of representation hashes; __hash__ is an int function of that hash only', 4)
    run.rule('D7', 'hash/depth/level fields are written only while constructing; every route (end_cell, to_cell, copy, begin_parse().to_cell()) re-derives the same hash', 4)
    # cells parsed from a bag that carries stored hashes (also on exotic cells): the parser must skip them and compute hash/depth/type from the content
    from .C05 import stored_hash_scenarios
    from .. import bocrun as _bocrun
    stored_hash_scenarios(run, prog, 'D7', _bocrun.dags(False), prog.where(prog.method('Boc', 'deserialize_cell')))
    run.trust('CPython ast', 'checker interpreter + models of bitarray, int.to_bytes, hashlib.sha256', 'tvm.pdf 3.1.4-3.1.6 transcription (sa/cellmodel.py)')
    run.exhaustive = True
    thorough = run.tier == 'thorough'

    # ---- D123 all b, r = 0 ; all r with representative b (quick) / all b x r (thorough)
    rs_full = range(0, 5) if thorough else [0]
    combos = [(b, r) for b in range(1024) for r in rs_full]
    if not thorough:
        combos += [(b, r) for r in range(1, 5) for b in (0, 1, 7, 8, 9, 15, 16, 500, 1016, 1022, 1023)]
    nfail = 0
    for b, r in combos:
        depths = [3 * i + 1 for i in range(r)]          # distinct concrete depths: order of depth bytes is observable
        out, c, it, kids, bits = construct(prog, b, depths)
        run.evaluations += 1
        cons = f'Cell.__init__[b={b},r={r}]'
        if out != 'ok':
            nfail += 1
            if nfail <= 3:
                run.fail('D123', 'Cell.__init__', f'construction with b={b}, r={r} raises {c}', where)
            continue
        hashes = [cm.cached(it, k, '_hash') for k in kids]
        ok, why = stream_matches(hash_parts(c), expect_stream(b, depths), hashes)
        if ok:
            run.ok('D123', cons, 'stream == spec' if (b, r) in ((0, 0), (9, 2)) else '')
        else:
            nfail += 1
            if nfail <= 3:
                run.fail('D123', 'Cell.__init__', f'b={b} r={r}: {why}', where, witness=dict(b=b, r=r))
        if r == 0 and b % 128 in (0, 1, 5):
            n_after = len(bits.native)
            run.check(n_after == b, 'D2b', 'Cell.__init__' if n_after != b else f'bits-kept[b={b}]',
                      f'b={b}: own bits have {n_after} bits after construction', where)
            hd = cm.cached(it, c, '_hashes')
            dp = cm.cached(it, c, '_depths')
            okd = isinstance(dp, ListV) and len(dp.items) == 1 and isinstance(dp.items[0], K) and dp.items[0].v == 0
            run.check(okd, 'D4', 'Cell.__init__' if not okd else f'depth-leaf[b={b}]', 'leaf depth 0', where)
    if nfail > 3:
        run.info(f'D123: {nfail} failing (b, r) states in total')

    # ---- plain bitarray input: same stream, input not mutated (shared with C08)
    for b in (0, 1, 7, 8, 13):
        out, c, it, kids, bits = construct(prog, b, [], plain=True)
        run.evaluations += 1
        if out != 'ok':
            run.fail('D123', 'Cell.__init__(plain bitarray)', f'b={b}: raises {c}', where)
            continue
        ok, why = stream_matches(hash_parts(c), expect_stream(b, []), [])
        run.check(ok, 'D123', 'Cell.__init__(plain bitarray)' if not ok else f'plain[b={b}]', why, where)
        own = c.attrs.get('bits')
        n_after = len(own.native if isinstance(own, Inst) else own)
        run.check(n_after == b and len(bits) == b, 'D2b', 'Cell.__init__(plain bitarray)' if n_after != b or len(bits) != b else f'plain-kept[b={b}]',
                  f"b={b}: the caller's bitarray has {len(bits)} bits and the cell's {n_after} after construction", where)

    # ---- D4: one child, all depths 0..1023 (complete: a child cannot be deeper), plus out-of-range probes
    bad = 0
    for d in list(range(0, 1024)) + [1024, 2000, 65535]:
        out, c, it, kids, _ = construct(prog, 0, [d])
        run.evaluations += 1
        want_ok = d + 1 <= 1023
        good = (out == 'ok') == want_ok
        if good and out == 'ok':
            dp = cm.cached(it, c, '_depths').items[-1]
            good = isinstance(dp, K) and dp.v == d + 1
        if good:
            if d % 16 == 0 or d > 1000:
                run.ok('D4', f'depth[child={d}]')
        else:
            bad += 1
            if bad <= 2:
                run.fail('D4', 'Cell.__init__', f'child depth {d}: ' + (f'accepted with depth {vrepr(c.attrs["_depths"].items[-1])}' if out == 'ok' else f'rejected ({c})') +
                         f'; specification: {"depth " + str(d + 1) if want_ok else "reject (depth > 1023)"}', where, witness=dict(child_depth=d))
    # max over children: complete over weak orderings (the code may only compare / copy depths)
    for r in ((2, 3, 4) if thorough else (2, 3)):
        for vals in itertools.product(range(r), repeat=r):
            for base in (0, 1022 - max(vals)):
                depths = [base + v for v in vals]
                out, c, it, kids, _ = construct(prog, 0, depths)
                run.evaluations += 1
                want = 1 + max(depths)
                good = out == 'ok' and isinstance(cm.cached(it, c, '_depths').items[-1], K) and cm.cached(it, c, '_depths').items[-1].v == want
                if good:
                    hashes = [cm.cached(it, k, '_hash') for k in kids]
                    good, why = stream_matches(hash_parts(c), expect_stream(0, depths), hashes)
                if not good:
                    bad += 1
                    if bad <= 3:
                        run.fail('D4', 'Cell.__init__', f'child depths {depths}: stored depth / stream differ from 1+max', where, witness=dict(depths=depths))
                elif vals == tuple(range(r)):
                    run.ok('D4', f'max[r={r},base={base}]')

    # ---- D8 ordinary cells above pruned sub-trees: the level part of d1 is the union of the children's level masks
    from .C02 import ordinary_mask_union, mk_child
    ordinary_mask_union(run, prog, 'D8', where, thorough)
    # observation outside the property's quantifier (it speaks of the level-0 representation): above a pruned sub-tree the cached top-level hash
    # chains on the lower-level hash (DataCell::create), while get_representation() always spells d1 d2 data ...; reported, not judged
    try:
        it = mk(prog)
        c = cm.new_cell(it, cm.tvm_bits(it, cm.data_bits(9)), [mk_child(it, 0, 1)])
        h2 = cm.call_method(it, c, 'calculate_representation_hash')
        if repr(it.vkey(h2)) != repr(it.vkey(cm.cached(it, c, '_hash'))):
            run.info('ordinary cell of level 1 (above a pruned sub-tree): calculate_representation_hash() is not the cached hash - it hashes the data where the cached top-level hash hashes the level-0 hash; '
                     'the property is about level-0 cells, where the two coincide (D5)')
    except (RaiseEx, Fail):
        pass

    # ---- D5 recomputed representation
    for b, depths in ((0, []), (5, [2]), (16, [0, 7, 3])):
        out, c, it, kids, _ = construct(prog, b, depths)
        cons = f'calculate_representation_hash[b={b},r={len(depths)}]'
        if out != 'ok':
            continue
        try:
            h2 = cm.call_method(it, c, 'calculate_representation_hash')
            same = isinstance(h2, Term) and repr(cm.flatten_bytes(list(h2.a))) == repr(hash_parts(c)) and h2.op == 'sha256'
            if not same:
                # compare structurally through the stream matcher
                same, why = stream_matches(cm.flatten_bytes(list(h2.a)) if isinstance(h2, Term) else None,
                                           expect_stream(b, depths), [cm.cached(it, k, '_hash') for k in kids])
            run.check(same, 'D5', 'Cell.calculate_representation_hash' if not same else cons,
                      'recomputed stream == cached stream' if same else 'recomputed representation differs from the hashed one',
                      prog.where(prog.method('Cell', 'calculate_representation_hash')))
        except RaiseEx as e:
            run.fail('D5', 'Cell.calculate_representation_hash', f'b={b}, r={len(depths)}: raises {e}',
                     prog.where(prog.method('Cell', 'calculate_representation_hash')), witness=dict(b=b, depths=depths))
        run.evaluations += 1

    # the same child in several reference slots (one object, or two objects with one hash): every slot contributes its depth and hash
    for shape in ('x,x', 'x,y,x', 'x,x,x,x', 'x,x2', 'y,x,x2'):
        it = mk(prog)
        hx = Sym('HX', ty='bytes', n=32, key=('childhash', 'x'))
        pool = {'x': cm.forge_ordinary_child(it, 0, depth=3, hash_=hx), 'y': cm.forge_ordinary_child(it, 1, depth=5), 'x2': cm.forge_ordinary_child(it, 2, depth=3, hash_=hx)}
        kids = [pool[n_] for n_ in shape.split(',')]
        try:
            c = cm.new_cell(it, cm.tvm_bits(it, cm.data_bits(6)), kids)
            want = expect_stream(6, [3 if n_ != 'y' else 5 for n_ in shape.split(',')])
            hashes = [cm.cached(it, k, '_hash') for k in kids]
            ok1, why1 = stream_matches(hash_parts(c), want, hashes)
            h2 = cm.call_method(it, c, 'calculate_representation_hash')
            ok2, why2 = stream_matches(cm.flatten_bytes(list(h2.a)) if isinstance(h2, Term) and h2.op == 'sha256' else None, want, hashes)
            good = ok1 and ok2
            why = ('cached hash: ' + why1 if not ok1 else 'recomputed representation: ' + why2) if not good else 'cached and recomputed streams list every slot'
        except RaiseEx as e:
            good, why = False, f'raises {e}'
        run.check(good, 'D5', 'Cell.calculate_representation_hash[repeated child]' if not good else f'repeated-child[{shape}]', f'references [{shape}] (x2 = another object with the hash of x): {why}',
                  prog.where(prog.method('Cell', 'get_representation')))
        run.evaluations += 1

    # ---- D6 identity
    it = mk(prog)
    c1 = cm.forge_ordinary_child(it, 1)
    c2 = cm.forge_ordinary_child(it, 2)
    c3 = cm.leaf(it, 9, 'other')
    c3.attrs['_hash'] = cm.cached(it, c1, '_hash')
    c3.attrs['_hashes'] = ListV([cm.cached(it, c1, '_hash')])
    cm.reforge(it, c3)
    cm.shadow_lookups(it, c3)
    weq = prog.where(prog.method('Cell', '__eq__'))
    r13 = it.cmp(ast.Eq(), c1, c3, None)
    run.check(isinstance(r13, K) and r13.v is True, 'D6', 'Cell.__eq__' if not (isinstance(r13, K) and r13.v is True) else 'eq-same-hash',
              f'cells with the same representation hash but different other fields compare {vrepr(r13)}', weq)
    r12 = it.cmp(ast.Eq(), c1, c2, None)
    k1, k2 = sorted([repr(it.vkey(cm.cached(it, c1, '_hash'))), repr(it.vkey(cm.cached(it, c2, '_hash')))])
    good = isinstance(r12, Cond) and r12.key == ('eq', k1, k2) and r12.pol
    run.check(good, 'D6', 'Cell.__eq__' if not good else 'eq-depends-on-hash-only',
              f'equality of two cells with opaque hashes H1, H2 is decided by: {r12!r}', weq)
    rn = it.cmp(ast.NotEq(), c1, c3, None)
    run.check(isinstance(rn, K) and rn.v is False, 'D6', 'Cell.__ne__' if not (isinstance(rn, K) and rn.v is False) else 'ne-same-hash', f'!= on equal hashes gives {vrepr(rn)}', weq)
    hv = models.builtin(it, 'hash', [c1], {}, None)
    hv3 = models.builtin(it, 'hash', [c3], {}, None)
    whash = prog.where(prog.method('Cell', '__hash__'))
    is_int = isinstance(hv, (PInt,)) or (isinstance(hv, Term) and hv.op in ('from_bytes', 'int')) or (isinstance(hv, K) and isinstance(hv.v, int))
    run.check(is_int, 'D6', 'Cell.__hash__' if not is_int else 'hash-is-int', f'__hash__ returns {vrepr(hv)[:60]}', whash)
    same = repr(hv) == repr(hv3) and 'H1' in repr(hv)
    run.check(same, 'D6', 'Cell.__hash__' if not same else 'hash-function-of-repr-hash',
              f'__hash__ of two cells with equal representation hash: {vrepr(hv)[:50]} / {vrepr(hv3)[:50]}', whash)
    run.evaluations += 5
    # cells of a subclass (what `MyCell.from_boc` hands out through the `cls` hook of the parser) are cells: equal to a plain cell with the
    # same representation hash, in both directions, and the same dictionary key
    from ..front import ClassRef
    it = mk(prog)
    cellcls = prog.cls('Cell')
    sub = ClassRef('_SubclassOfCell', ast.parse('class _SubclassOfCell(Cell):\n    pass').body[0], cellcls.module)
    try:
        plain = cm.new_cell(it, cm.tvm_bits(it, cm.data_bits(12, 'sub')), [])
        subc = it.construct(sub, [cm.tvm_bits(it, cm.data_bits(12, 'sub')), ListV([])], {})
        e1, e2 = it.cmp(ast.Eq(), plain, subc, None), it.cmp(ast.Eq(), subc, plain, None)
        e3 = it.cmp(ast.Eq(), subc, cm.call_method(it, subc, 'copy'), None)
        h1, h2 = models.builtin(it, 'hash', [plain], {}, None), models.builtin(it, 'hash', [subc], {}, None)
        good = all(isinstance(e, K) and e.v is True for e in (e1, e2, e3)) and repr(h1) == repr(h2)
        why = f'a cell and a cell of a subclass with the same content: == gives {vrepr(e1)} / {vrepr(e2)} (reversed), subclass cell == its copy {vrepr(e3)}, same __hash__: {repr(h1) == repr(h2)}'
    except RaiseEx as e:
        good, why = False, f'comparing a cell with a cell of a subclass raises {e}'
    except Fail as e:
        raise AnalysisError(f'subclass-of-Cell scenario: {e}')
    run.check(good, 'D6', 'Cell.__eq__[subclass]' if not good else 'eq: cells of a subclass', why, weq)
    run.evaluations += 1
    # a cell and the pruned branch standing for it (or an ordinary cell above that branch and the cell above the original): the same level-0
    # hash, different representation hashes - they must compare unequal and live under different dictionary keys
    it = mk(prog)
    x = cm.forge_ordinary_child(it, 7, depth=0)        # a level-0 cell whose representation hash is the opaque H7
    hx = cm.cached(it, x, '_hash')
    pr_bits = BA([Seg(16, 'k', format(1, '08b') + format(1, '08b')), Seg(256, 'b', hx), Seg(16, 'k', format(0, '016b'))])
    pr = cm.new_cell(it, cm.tvm_bits(it, pr_bits), [], 1)
    above_x = cm.new_cell(it, cm.tvm_bits(it, cm.data_bits(5, 'up')), [x])
    above_p = cm.new_cell(it, cm.tvm_bits(it, cm.data_bits(5, 'up')), [pr])
    for a_, b_, what in ((x, pr, 'a cell and the pruned branch that carries its hash'), (above_x, above_p, 'an ordinary cell and the same cell above the pruned child (level 1)')):
        req = it.cmp(ast.Eq(), a_, b_, None)
        l0a, l0b = cm.call_method(it, a_, 'get_hash', K(0)), cm.call_method(it, b_, 'get_hash', K(0))
        pe = it.cmp(ast.Eq(), l0a, l0b, None)
        premise = repr(it.vkey(l0a)) == repr(it.vkey(l0b)) or (isinstance(pe, K) and pe.v is True)
        if not premise:
            raise AnalysisError(f'D6 fixture: {what} do not have the same level-0 hash ({vrepr(l0a)[:40]} / {vrepr(l0b)[:40]})')
        # (False, or undecided between the two representation-hash terms - an opaque H7 may or may not equal a digest; never True)
        neq = (isinstance(req, K) and req.v is False) or (isinstance(req, Cond) and req.pol)
        run.check(neq, 'D6', 'Cell.__eq__[virtual hash]' if not neq else f'eq-not-by-level0-hash:{what[:20]}',
                  f'{what}: equal level-0 hashes, different representation hashes; == gives {vrepr(req)[:60]} (must be decided by the representation hashes, not be True)', weq)
        ha, hb = models.builtin(it, 'hash', [a_], {}, None), models.builtin(it, 'hash', [b_], {}, None)
        dif = repr(it.vkey(ha)) != repr(it.vkey(hb))
        run.check(dif, 'D6', 'Cell.__hash__[virtual hash]' if not dif else f'hash-not-by-level0-hash:{what[:20]}',
                  f'{what}: __hash__ gives {vrepr(ha)[:40]} / {vrepr(hb)[:40]} (must differ with the representation hash)', whash)
        run.evaluations += 2

    # cells built one after the other in the same process: the hash of a cell is computed from ITS descriptors and data - two leaves whose padded
    # data bytes coincide ('1' -> 0xC0 with the completion tag, '11000000' -> 0xC0 without) differ in d2 and must not share a hash
    it = mk(prog)
    la = cm.new_cell(it, cm.tvm_bits(it, BA([Seg(1, 'k', '1')])), [])
    lb = cm.new_cell(it, cm.tvm_bits(it, BA([Seg(8, 'k', '11000000')])), [])
    lc = cm.new_cell(it, cm.tvm_bits(it, BA([Seg(2, 'k', '11')])), [])
    ha_, hb_, hc_ = (repr(it.vkey(cm.cached(it, x, '_hash'))) for x in (la, lb, lc))
    good = len({ha_, hb_, hc_}) == 3
    run.check(good, 'D6', 'Cell.__init__[cells built earlier in the process]' if not good else 'history: leaves with equal padded data bytes',
              f"leaves '1', '11000000', '11' built in turn: hash terms {'all different' if good else 'NOT all different: ' + ha_[:50] + ' / ' + hb_[:50] + ' / ' + hc_[:50]} (their data bytes are 0xC0, 0xC0, 0xE0; d2 = 1, 2, 1)", weq)
    req2 = it.cmp(ast.Eq(), la, lb, None)
    run.check(not (isinstance(req2, K) and req2.v is True), 'D6', 'Cell.__eq__[cells built earlier in the process]' if (isinstance(req2, K) and req2.v is True) else 'history: leaves compare by their own hash',
              f"leaf '1' == leaf '11000000' gives {vrepr(req2)[:40]}", weq)
    run.evaluations += 2
    # a construction that is refused (depth 1024) and then an ordinary construction: what the refused one left behind must not show in the next cell
    it = mk(prog)
    deep = cm.forge_ordinary_child(it, 21, depth=1023)
    try:
        cm.new_cell(it, cm.tvm_bits(it, cm.data_bits(3, 'over')), [deep])
        refused = False
    except RaiseEx:
        refused = True
    after = cm.new_cell(it, cm.tvm_bits(it, BA([Seg(5, 'k', '10110')])), [])
    it2 = mk(prog)
    fresh = cm.new_cell(it2, cm.tvm_bits(it2, BA([Seg(5, 'k', '10110')])), [])
    ta, tf = repr(it.vkey(cm.cached(it, after, '_hash'))), repr(it2.vkey(cm.cached(it, fresh, '_hash')))
    good = refused and ta == tf
    run.check(good, 'D6', 'Cell.__init__[after a refused construction]' if not good else 'history: refused construction leaves nothing behind',
              f'a cell of depth 1024 is {"refused" if refused else "NOT refused"}; the leaf built next hashes {"as in a fresh process" if ta == tf else "differently: " + ta[:70] + " instead of " + tf[:50]}', weq)
    run.evaluations += 1
    # two different prunings of one tree, built in turn: the same data, the same level mask, children with the same level-0 hashes and depths -
    # but different level-1 hashes (the pruned child stands at another position)
    it = mk(prog)
    ca, cb = cm.forge_ordinary_child(it, 11, depth=0), cm.forge_ordinary_child(it, 12, depth=0)

    def pruned_of(c_):
        bits_ = BA([Seg(16, 'k', format(1, '08b') + format(1, '08b')), Seg(256, 'b', cm.cached(it, c_, '_hash')), Seg(16, 'k', format(0, '016b'))])
        return cm.new_cell(it, cm.tvm_bits(it, bits_), [], 1)
    x1 = cm.new_cell(it, cm.tvm_bits(it, cm.data_bits(9, 'two')), [pruned_of(ca), cb])
    x2 = cm.new_cell(it, cm.tvm_bits(it, cm.data_bits(9, 'two')), [ca, pruned_of(cb)])
    t1, t2 = repr(it.vkey(cm.cached(it, x1, '_hash'))), repr(it.vkey(cm.cached(it, x2, '_hash')))
    l01, l02 = cm.call_method(it, x1, 'get_hash', K(0)), cm.call_method(it, x2, 'get_hash', K(0))
    good = t1 != t2 and repr(it.vkey(l01)) == repr(it.vkey(l02))
    run.check(good, 'D6', 'Cell.__init__[another pruning of the same tree built earlier]' if not good else 'history: two prunings of one tree',
              f'cell over (pruned A, B) and then cell over (A, pruned B): level-0 hashes {"equal" if repr(it.vkey(l01)) == repr(it.vkey(l02)) else "DIFFERENT"}, '
              f'representation hashes {"different" if t1 != t2 else "THE SAME (" + t1[:60] + ")"} (they must differ: the pruned child is hashed by its own level-1 hash)', weq)
    run.evaluations += 1

    # ---- D7 who may write, and construction routes
    protected = {'_hash', '_hashes', '_depths', 'level_mask', '_descriptors', '_data_bytes'}
    cell_cls = prog.cls('Cell')
    # methods of Cell reachable from __init__ through self.<m>() calls
    reach, work = set(), ['__init__']
    while work:
        m = work.pop()
        if m in reach or m not in cell_cls.methods:
            continue
        reach.add(m)
        for n in ast.walk(cell_cls.methods[m]):
            if isinstance(n, ast.Call) and isinstance(n.func, ast.Attribute) and isinstance(n.func.value, ast.Name) and n.func.value.id == 'self':
                work.append(n.func.attr)
    offenders = []
    nsites = 0
    for f in prog.all_functions():
        for n in ast.walk(f.node):
            tgt = None
            if isinstance(n, ast.Attribute) and isinstance(n.ctx, (ast.Store, ast.Del)) and n.attr in protected:
                tgt = n
            elif isinstance(n, ast.Call) and isinstance(n.func, ast.Attribute) and n.func.attr in ('append', 'extend', 'pop', 'insert', 'clear', 'remove', 'sort', 'reverse') \
                    and isinstance(n.func.value, ast.Attribute) and n.func.value.attr in protected:
                tgt = n.func.value
            elif isinstance(n, ast.Subscript) and isinstance(n.ctx, (ast.Store, ast.Del)) and isinstance(n.value, ast.Attribute) and n.value.attr in protected:
                tgt = n.value
            if tgt is None:
                continue
            # `level_mask` of other classes (LevelMask has none) - only receivers that may be cells matter: self inside Cell, or any non-self receiver
            recv_self = isinstance(tgt.value, ast.Name) and tgt.value.id == 'self'
            if recv_self and f.cls is not None and not prog.is_subclass(f.cls, 'Cell'):
                if tgt.attr not in ('_hash', '_hashes', '_depths', 'level_mask'):
                    continue
                if not (f.cls.name in ('NullCell',)):
                    continue
            nsites += 1
            inside = f.cls is not None and f.cls.name == 'Cell' and f.name in reach and recv_self
            if not inside:
                offenders.append((f, n))
    for f, n in offenders[:3]:
        run.fail('D7', f'{f.qual}', f'writes a hash/depth/level field of a cell outside construction: `{ast.unparse(n)[:60]}`', prog.where(n, f.module))
    if not offenders:
        run.ok('D7', 'who-may-write', f'{nsites} writes to {sorted(protected)}, all inside Cell construction ({sorted(reach)})')
    # routes
    it = mk(prog)
    kid = cm.forge_ordinary_child(it, 0, depth=4)
    src = cm.new_cell(it, cm.tvm_bits(it, cm.data_bits(13)), [kid])
    ref_stream = repr(hash_parts(src))
    routes = {
        'Cell.copy': lambda: cm.call_method(it, src, 'copy'),
        'Cell.begin_parse().to_cell()': lambda: cm.call_method(it, cm.call_method(it, src, 'begin_parse'), 'to_cell'),
        'Slice.from_cell(c).to_cell()': lambda: cm.call_method(it, it.call(it.getattr(prog.cls('Slice'), 'from_cell'), [src], {}), 'to_cell'),
        'Cell.to_builder().end_cell()': lambda: cm.call_method(it, cm.call_method(it, src, 'to_builder'), 'end_cell'),
        'Cell.begin_parse().to_builder().end_cell()': lambda: cm.call_method(it, cm.call_method(it, cm.call_method(it, src, 'begin_parse'), 'to_builder'), 'end_cell'),
        'Builder.store_bits/store_ref/end_cell': lambda: cm.call_method(it, cm.call_method(it, cm.call_method(
            it, it.construct(prog.cls('Builder'), [], {}), 'store_bits', cm.data_bits(13)), 'store_ref', kid), 'end_cell'),
    }
    for name, fn in routes.items():
        try:
            c = fn()
            same = isinstance(c, Inst) and c.cls.name == 'Cell' and repr(hash_parts(c)) == ref_stream
            run.check(same, 'D7', name if not same else f'route:{name}', 'same hashed stream as the source cell' if same else 'derived cell hashes a different stream', where)
        except RaiseEx as e:
            run.fail('D7', name, f'raises {e}', where)
        run.evaluations += 1
    # the cached hash stays the hash of the cell's content whatever is done with objects derived from it: after filling a derived builder and
    # reading a derived slice, the explicitly recomputed representation is still the cached one
    it = mk(prog)
    kid, extra = cm.forge_ordinary_child(it, 0, depth=4), cm.forge_ordinary_child(it, 1, depth=2)
    src = cm.new_cell(it, cm.tvm_bits(it, cm.data_bits(13)), [kid])
    before = repr(hash_parts(src))
    uses = {
        'to_builder() then store_ref / store_uint': lambda: cm.call_method(it, cm.call_method(it, cm.call_method(it, src, 'to_builder'), 'store_ref', extra), 'store_uint', K(5), K(7)),
        'begin_parse() then load_bits / load_ref': lambda: (lambda sl: (cm.call_method(it, sl, 'load_bits', K(9)), cm.call_method(it, sl, 'load_ref')))(cm.call_method(it, src, 'begin_parse')),
        'copy() then to_builder().store_ref': lambda: cm.call_method(it, cm.call_method(it, cm.call_method(it, src, 'copy'), 'to_builder'), 'store_ref', extra),
        'begin_parse().to_builder().store_ref': lambda: cm.call_method(it, cm.call_method(it, cm.call_method(it, src, 'begin_parse'), 'to_builder'), 'store_ref', extra),
    }
    for name, fn in uses.items():
        try:
            fn()
            h2 = cm.call_method(it, src, 'calculate_representation_hash')
            now = repr(cm.flatten_bytes(list(h2.a))) if isinstance(h2, Term) and h2.op == 'sha256' else repr(h2)
            same = now == before and repr(hash_parts(src)) == before
            run.check(same, 'D7', f'Cell hash after {name.split(" ")[0]}' if not same else f'stable:{name}',
                      f'after {name}: the recomputed representation of the source cell ' + ('equals' if same else 'DIFFERS from') + ' its cached hash', where)
        except RaiseEx as e:
            run.fail('D7', f'Cell hash after {name.split(" ")[0]}', f'{name}: raises {e}', where)
        run.evaluations += 1
    e = it.call(it.getattr(prog.cls('Cell'), 'empty'), [], {})
    ok, why = stream_matches(hash_parts(e), expect_stream(0, []), [])
    run.check(ok, 'D7', 'Cell.empty' if not ok else 'route:Cell.empty', why, where)
