"""E4: schema-directed typestate for Slice.  An AbsSlice is the *remaining token stream* of a TL-B constructor: bits and
references are two channels over one ordered stream.  The package's deserialisers are interpreted (sa/interp.py) with an
AbsSlice in place of a Slice; every load_* call is checked against, and consumes, the schema.

Mismatch  = the code disagrees with the schema (a finding);  Fail = the analysis cannot proceed (never a verdict)."""
import ast
import re
import zlib
from .values import *
from .front import ClassRef, FuncRef
from . import tlbp
from .models import bits_value

PRIM_RE = re.compile(r'^(uint|int|bits)(\d+)$')


class Tok:
    def __init__(s, kind, **kw):
        s.kind = kind
        s.__dict__.update(kw)

    def clone(s):
        return Tok(s.kind, **{k: v for k, v in s.__dict__.items() if k != 'kind'})

    def __repr__(s):
        d = {k: v for k, v in s.__dict__.items() if k not in ('kind', 'env', 'discr', 'orig', 'te', 'inner', 'x', 'y', 'l', 'r') or k in ('l',) and isinstance(v, int)}
        return f"{s.kind}{d}"


class SchemaDB:
    def __init__(s, text):
        s.decls = tlbp.P(tlbp.tokenize(text)).decls()
        s.types = {}
        s.by_name = {}
        for d in s.decls:
            s.types.setdefault(d['type'], []).append(d)
            s.by_name.setdefault(d['name'], []).append(d)

    def add(s, decls):
        """constructors the bundled file predates (taken from docstrings): only for names/types the file does not define"""
        for d in decls:
            if d['name'] != '_' and any(x['type'] == d['type'] for x in s.by_name.get(d['name'], [])):
                continue
            if d['name'] == '_' and d['type'] in s.types:
                continue
            s.decls.append(d)
            s.types.setdefault(d['type'], []).append(d)
            s.by_name.setdefault(d['name'], []).append(d)

    @staticmethod
    def tag_bits(d):
        t = d['tag']
        if t is None:
            if d['name'] == '_':
                return ''
            toks = [x for x in d['toks'] if x not in ('(', ')', ';')]
            text = ' '.join(toks)
            text = text.replace('^ ', '^').replace(' : ', ':').replace('^[ ', '^[')
            return format(zlib.crc32(text.encode()), '032b')
        kind, v = t
        if v in ('', '_'):
            return ''
        if kind == '$':
            return v
        us = v.endswith('_')
        v = v.rstrip('_')
        bits = ''.join(format(int(c, 16), '04b') for c in v)
        if us:
            bits = bits.rstrip('0')[:-1]
        return bits


def nat(e, env):
    k = e[0]
    if k == 'num':
        return e[1]
    if k == 'id':
        v = env.get(e[1])
        return v if isinstance(v, int) else None
    if k in ('add', 'mul'):
        a, b = nat(e[1], env), nat(e[2], env)
        if a is None or b is None:
            return None
        return a + b if k == 'add' else a * b
    return None


def match_args(con, args):
    """bind the constructor's result pattern to actual type arguments -> env, or None if this constructor cannot produce them"""
    pats = con['args']
    if len(pats) != len(args):
        return None
    env = {}
    for p, a in zip(pats, args):
        if p[0] == 'num':
            if isinstance(a, int) and a != p[1]:
                return None
        elif p[0] == 'id':
            env[p[1]] = a
        elif p[0] == 'add' and p[2][0] == 'num' and p[1][0] == 'id':
            c = p[2][1]
            if isinstance(a, int):
                if a < c:
                    return None
                env[p[1][1]] = a - c
            else:
                env[p[1][1]] = None
        elif p[0] == 'neg':
            pass
        else:
            return None
    return env


def discriminators(con):
    """fields whose value selects the layout (used in cond?T, x.i?T or as a type argument) -> domain list or None (= from width)"""
    names, cons = {}, {}

    def ids(e, out):
        if isinstance(e, tuple):
            if e and e[0] == 'id':
                out.add(e[1])
            for x in e[1:]:
                ids(x, out)
        elif isinstance(e, list):
            for x in e:
                ids(x, out)

    def walk_fields(fields):
        for f in fields:
            if f[0] == 'constraint':
                ex = f[1]
                if len(ex) == 3 and ex[1] in ('<=', '=') and ex[2].isdigit():
                    cons[ex[0]] = (ex[1], int(ex[2]))
            elif f[0] == 'field':
                walk_te(f[2])

    def walk_te(te):
        k = te[0]
        if k == 'cond':
            out = set()
            ids(te[1], out)
            for n in out:
                names[n] = None
            walk_te(te[2])
        elif k == 'app':
            h = te[1][0]
            for a in te[1][1:]:
                if h[0] == 'id' and h[1] in ('##', '#<=', '#<', 'Maybe', 'Either', 'VarUInteger', 'VarInteger', 'HashmapE', 'Hashmap',
                                              'HashmapAugE', 'HashmapAug', 'bits', 'uint', 'int'):
                    if a[0] in ('app', 'ref', 'anon', 'cond'):
                        walk_te(a)
                else:
                    out = set()
                    ids(a, out)
                    for n in out:
                        names[n] = None
        elif k == 'ref':
            walk_te(te[1])
        elif k == 'anon':
            walk_fields(te[1])

    walk_fields(con['fields'])
    fieldnames = set()

    def collect(fields):
        for f in fields:
            if f[0] == 'field':
                if f[1]:
                    fieldnames.add(f[1])
                if f[2][0] == 'ref' and f[2][1][0] == 'anon':
                    collect(f[2][1][1])
                if f[2][0] == 'anon':
                    collect(f[2][1])
    collect(con['fields'])
    res = {}
    for n in names:
        if n not in fieldnames:
            continue
        if n in cons:
            op, k = cons[n]
            res[n] = list(range(k + 1)) if op == '<=' else [k]
        else:
            res[n] = None
    for n, (op, k) in cons.items():
        if n in fieldnames and n not in res and op == '=':
            res[n] = [k]
    return res


def mentions(fields, tname):
    def walk(e):
        if isinstance(e, tuple):
            if len(e) == 2 and e[0] == 'id' and e[1] == tname:
                return True
            return any(walk(x) for x in e[1:])
        if isinstance(e, list):
            return any(walk(x) for x in e)
        return False
    return any(f[0] == 'field' and walk(f[2]) for f in fields)


_REFS_MEMO = {}


def may_have_refs(db, tname, _stack=None):
    """can a value of type `tname` own cell references (a ^X field, a dictionary, Cell/Any, an Either of a reference ...)?  Unknown types: no."""
    key = (id(db), tname)
    if key in _REFS_MEMO:
        return _REFS_MEMO[key]
    _stack = _stack or set()
    if tname in _stack:
        return False
    _stack = _stack | {tname}

    def walk(e):
        if isinstance(e, tuple):
            if e and e[0] == 'ref':
                return True
            if len(e) == 2 and e[0] == 'id':
                n = e[1]
                if n in ('Cell', 'Any', 'HashmapE', 'Hashmap', 'HashmapAugE', 'HashmapAug', 'BinTree', 'BinTreeAug'):
                    return True
                if n in db.types:
                    return may_have_refs(db, n, _stack)
                return False
            return any(walk(x) for x in e[1:])
        if isinstance(e, list):
            return any(walk(x) for x in e)
        return False
    r = any(f[0] == 'field' and walk(f[2]) for d in db.types.get(tname, []) for f in d['fields'])
    if len(_stack) == 1:
        _REFS_MEMO[key] = r
    return r


def field_names(con):
    out = []

    def collect(fields):
        for f in fields:
            if f[0] == 'field':
                if f[1]:
                    out.append(f[1])
                if f[2][0] == 'ref' and f[2][1][0] == 'anon':
                    collect(f[2][1][1])
                if f[2][0] == 'anon':
                    collect(f[2][1])
    collect(con['fields'])
    return out


class CellObj:
    """a cell taken from the stream with load_ref: its content is the schema expression `inner`"""
    not_none = True

    def __init__(s, it, db, inner, env, name=None, discr=None, depth_of=None):
        s.it, s.db, s.inner, s.env, s.name, s.discr = it, db, inner, env, name, discr
        s.depth_of = dict(depth_of or {})

    def abs_key(s):
        return ('cellobj', id(s))

    def abs_attr(s, it, a, node):
        if a in ('begin_parse', 'to_slice'):
            def bp(it_, args, kw, n):
                if getattr(s, 'root_slice', None) is not None:
                    return s.root_slice
                toks = [Tok('FIELD', name=s.name, te=s.inner)]
                if s.inner[0] == 'dictroot':
                    t = s.inner[1]
                    kind = 'HASHMAPAUG' if t.kind == 'HASHMAPAUGE' else 'HASHMAP'
                    toks = [Tok(kind, n=t.n, x=t.x, y=t.y, name=t.name)]
                r = AbsSlice(it_, s.db, toks, s.env, str(s.name or '^[...]'))
                r.path = getattr(s, 'path', ())
                r.discr = dict(s.discr or {})
                r.depth_of = dict(getattr(s, 'depth_of', {}))
                if not hasattr(it_, 'subslices'):
                    it_.subslices = []
                it_.subslices.append(r)
                return r
            return Native(bp, 'cell.begin_parse')
        if a in ('copy', 'to_builder'):
            return Native(lambda it_, args, kw, n: s, 'cell.' + a)
        if a in ('type_',):
            return getattr(s, 'type_value', K(-1))
        if a in ('is_exotic',):
            return K(False)
        if a in ('bits', 'refs', 'hash', 'data'):
            return Sym(f'cell.{a}', key=('cellattr', id(s), a))
        return Native(lambda it_, args, kw, n: Sym(f'cell.{a}()'), 'cell.' + a)

    def abs_isinstance(s, it, ty):
        return getattr(ty, 'name', None) == 'Cell'

    def __repr__(s):
        return f'<cell {s.name}>'


class AbsSlice:
    typestate = True
    not_none = True

    def __init__(s, it, db, toks, env, label=''):
        s.it, s.db = it, db
        s.toks = list(toks)
        s.env = dict(env)
        s.label = label
        s.discr = {}
        s.trace = []
        s.peeking = False
        s.reads = []          # (field name, Sym) of every field symbol handed out
        s.depth_of = {}       # nesting depth of recursive type expansions along this lineage

    @property
    def oracle(s):
        return s.it.oracle

    def abs_key(s):
        return ('absslice', id(s))

    def abs_isinstance(s, it, ty):
        return getattr(ty, 'name', None) == 'Slice'

    def abs_truth(s, it):
        return True

    # ---- lowering
    def lower(s, te, name):
        k = te[0]
        env = s.env
        if k == 'id':
            n = te[1]
            m = PRIM_RE.match(n)
            if m:
                return [Tok('PRIM', ty=m.group(1), n=int(m.group(2)), name=name)]
            if n == '#':
                return [Tok('PRIM', ty='uint', n=32, name=name)]
            if n in ('Bool', 'Bit', 'bool'):
                return [Tok('PRIM', ty='uint', n=1, name=name, boolish=True)]
            if n in ('Cell', 'Any'):
                return [Tok('ANY', name=name)]
            if n in ('Grams', 'Coins', 'grams'):
                return [Tok('VARU', l=4, name=name)]
            if n in ('MsgAddressInt', 'MsgAddressExt', 'MsgAddress', 'Address'):
                return [Tok('ADDR', which=n if n != 'Address' else 'MsgAddress', name=name)]
            if n in ('True', 'Unit'):
                return []
            if n in env and isinstance(env[n], tuple) and env[n] and env[n][0] in ('id', 'app', 'ref', 'anon'):
                return s.lower(env[n], name)
            return [Tok('TYPE', t=n, args=[], name=name)]
        if k == 'app':
            h = te[1][0]
            args = te[1][1:]
            hn = h[1] if h[0] == 'id' else None
            if hn == '##':
                return [Tok('PRIM', ty='uint', n=nat(args[0], env), name=name, nexpr=args[0])]
            if hn == '#<=':
                v = nat(args[0], env)
                return [Tok('PRIM', ty='uint', n=None if v is None else v.bit_length(), name=name)]
            if hn == '#<':
                v = nat(args[0], env)
                return [Tok('PRIM', ty='uint', n=None if v is None else (v - 1).bit_length(), name=name)]
            if hn in ('uint', 'int', 'bits'):
                return [Tok('PRIM', ty=hn, n=nat(args[0], env), name=name, nexpr=args[0])]
            if hn == 'Maybe':
                return [Tok('MAYBE', inner=args[0], name=name)]
            if hn == 'Either':
                return [Tok('EITHER', l=args[0], r=args[1], name=name)]
            if hn == 'VarUInteger':
                return [Tok('VARU', l=(nat(args[0], env) - 1).bit_length(), name=name)]
            if hn == 'VarInteger':
                return [Tok('VARI', l=(nat(args[0], env) - 1).bit_length(), name=name)]
            if hn in ('HashmapE', 'Hashmap', 'HashmapAugE', 'HashmapAug'):
                return [Tok(hn.upper(), n=nat(args[0], env), x=args[1], y=args[2] if len(args) > 2 else None, name=name, env=dict(env))]
            if hn:
                return [Tok('TYPE', t=hn, args=[s.argval(a) for a in args], name=name)]
            raise Fail(f'type application {te}')
        if k == 'ref':
            return [Tok('REF', inner=te[1], name=name, env=dict(env), discr=dict(s.discr))]
        if k == 'anon':
            return s.field_tokens(te[1])
        if k == 'cond':
            c = te[1]
            if c[0] == 'bit':
                v = env.get(c[1][1])
                if not isinstance(v, int):
                    raise Fail(f'condition on a field that was not enumerated: {c}')
                on = (v >> c[2][1]) & 1
            else:
                v = env.get(c[1])
                if not isinstance(v, int):
                    raise Fail(f'condition on a field that was not enumerated: {c}')
                on = v
            return s.lower(te[2], name) if on else []
        if k == 'mul':
            # n * Bit / n * [ ... ]
            cnt = nat(te[1], env)
            if cnt is not None and te[2] == ('id', 'Bit'):
                return [Tok('PRIM', ty='bits', n=cnt, name=name)]
            raise Fail(f'repetition {te}')
        raise Fail(f'lower {te}')

    def argval(s, a):
        v = nat(a, s.env)
        if v is not None:
            return v
        if a[0] == 'id' and a[1] in s.env:
            return s.env[a[1]]
        return a

    @staticmethod
    def field_tokens(fields):
        out = []
        for f in fields:
            if f[0] == 'field':
                out.append(Tok('FIELD', name=f[1], te=f[2]))
            elif f[0] == 'constraint':
                out.append(Tok('CONSTRAINT', expr=f[1]))
        return out

    def constructor_tokens(s, con, args):
        env = match_args(con, args)
        if env is None:
            raise Fail(f'constructor {con["name"]} cannot have arguments {args}')
        tb = s.db.tag_bits(con)
        toks = [Tok('ENV', env=env, con=con['name'], discr=discriminators(con))]
        if tb:
            toks.append(Tok('TAG', bits=tb, con=con['name']))
        toks += s.field_tokens(con['fields'])
        return toks

    def expand_type(s, i):
        t = s.toks[i]
        cons = s.db.types.get(t.t)
        if not cons:
            raise Fail(f'unknown TL-B type {t.t}')
        cons = [c for c in cons if match_args(c, t.args) is not None]
        if not cons:
            raise Fail(f'no constructor of {t.t} for arguments {t.args}')
        # recursive types (BinTree, ...): below nesting depth 2 only the constructors that do not mention the type again
        d = s.depth_of.get(t.t, 0)
        if d >= 2:
            flat = [c for c in cons if not mentions(c['fields'], t.t)]
            cons = flat or cons
        s.depth_of[t.t] = d + 1
        c = cons[s.oracle.choose(len(cons), 'con:' + t.t)]
        saved = Tok('ENV', env=dict(s.env), con='<restore>', discr=dict(s.discr))
        s.toks[i:i + 1] = s.constructor_tokens(c, t.args) + [saved]

    def presence(s, i, t):
        b = s.oracle.choose(2, t.kind + ':' + str(t.name))
        new = [Tok('TAG', bits=str(b), con=t.kind, name=t.name, orig=t)]
        if t.kind == 'MAYBE':
            if b:
                new += s.lower(t.inner, t.name)
        elif t.kind == 'EITHER':
            new += s.lower(t.r if b else t.l, t.name)
        else:
            if b:
                new.append(Tok('REF', inner=('dictroot', t), name=t.name, env=dict(s.env), discr={}))
            if t.kind == 'HASHMAPAUGE':
                save = s.env
                s.env = dict(getattr(t, 'env', None) or s.env)
                new += s.lower(t.y, (t.name or '') + '.extra')
                s.env = save
        s.toks[i:i + 1] = new

    def first(s, want):
        i = 0
        while i < len(s.toks):
            t = s.toks[i]
            if t.kind == 'FIELD':
                s.toks[i:i + 1] = s.lower(t.te, t.name)
                continue
            if t.kind == 'CONSTRAINT':
                s.toks.pop(i)
                continue
            if t.kind == 'ENV':
                if t.con == '<restore>':
                    s.env = dict(t.env)
                    s.discr = dict(t.discr)
                else:
                    s.env = dict(t.env)
                    s.discr = dict(t.discr)
                s.toks.pop(i)
                continue
            if want == 'bits':
                if t.kind == 'REF':
                    i += 1
                    continue
                return i
            else:
                if t.kind in ('PRIM', 'TAG', 'VARU', 'VARI', 'ADDR'):
                    i += 1
                    continue
                if t.kind == 'TYPE':
                    s.expand_type(i)
                    continue
                if t.kind in ('MAYBE', 'EITHER', 'HASHMAPE', 'HASHMAPAUGE'):
                    s.presence(i, t)
                    continue
                if t.kind in ('HASHMAP', 'HASHMAPAUG'):
                    # an inline dictionary occupies bits and references of this very cell; nothing can be addressed past it
                    return i
                return i
        return None

    def copy(s):
        c = AbsSlice(s.it, s.db, [t.clone() for t in s.toks], s.env, s.label)
        c.discr = dict(s.discr)
        c.depth_of = dict(s.depth_of)
        c.path = getattr(s, 'path', ())
        c.refs_taken = getattr(s, 'refs_taken', 0)
        return c

    def empty(s):
        i = 0
        while i < len(s.toks):
            t = s.toks[i]
            if t.kind in ('CONSTRAINT', 'ENV'):
                s.toks.pop(i)
                continue
            if t.kind == 'FIELD':
                lowered = s.lower(t.te, t.name)
                s.toks[i:i + 1] = lowered
                continue
            return False
        return True

    def only_any(s):
        if s.empty():
            return True
        return all(t.kind == 'ANY' for t in s.toks if t.kind not in ('ENV', 'CONSTRAINT'))

    def remaining_desc(s):
        return [repr(t) for t in s.toks if t.kind not in ('CONSTRAINT', 'ENV')]

    # ---- reads
    def read(s, n, mode, consume=True):
        if not consume:
            save = ([t.clone() for t in s.toks], dict(s.env), dict(s.discr))
            s.peeking = True
            try:
                return s.read(n, mode, True)
            finally:
                s.peeking = False
                s.toks, s.env, s.discr = save
        if n is None:
            raise Fail('symbolic read width')
        pat = ''
        need = n
        segs = []       # what a raw read covers: ('k', bits) constant tag bits / ('f', k, token, whole) k bits of a schema field / ('?', k)
        while need > 0:
            i = s.first('bits')
            if i is None:
                if s.peeking:
                    break       # a peek past the end returns fewer bits at run time
                raise Mismatch(f'load_{mode}({n}): the schema has no more bits here ({s.label})')
            t = s.toks[i]
            if t.kind == 'TAG':
                k = min(need, len(t.bits))
                pat += t.bits[:k]
                segs.append(('k', t.bits[:k]))
                need -= k
                if k == len(t.bits):
                    s.toks.pop(i)
                else:
                    t.bits = t.bits[k:]
                continue
            if t.kind == 'TYPE':
                s.expand_type(i)
                continue
            if t.kind in ('MAYBE', 'EITHER', 'HASHMAPE', 'HASHMAPAUGE'):
                s.presence(i, t)
                continue
            if t.kind == 'PRIM':
                if t.n is None:
                    raise Fail(f'symbolic field width {t}')
                if pat == '' and need == t.n:
                    s.toks.pop(i)
                    if mode in ('uint', 'int') and t.ty in ('uint', 'int') and mode != t.ty:
                        raise Mismatch(f'field {t.name}:{t.ty}{t.n} is read with load_{mode}({n}) (signedness)')
                    s.trace.append((f'load_{mode}({n})', f'{t.name}:{t.ty}{t.n}'))
                    return s.field_value(t, mode)
                if mode in ('uint', 'int') and not s.peeking:
                    # an integer load must coincide with exactly one schema field (raw reads - bits/bytes/skip - may span or split fields);
                    # a peek (preload_uint used for dispatch on a tag) may look further: its unknown bits stay unknown
                    raise Mismatch(f'load_{mode}({n}) does not coincide with field {t.name}:{t.ty}{t.n}')
                k = min(need, t.n)
                pat += '?' * k
                need -= k
                s.trace.append((f'{mode}{n}[{k}]', f'{t.name}:{t.ty}{t.n}'))
                segs.append(('f', k, t.clone(), k == t.n and not getattr(t, 'split', False)))
                if k == t.n:
                    s.toks.pop(i)
                else:
                    t.n -= k
                    t.split = True
                continue
            if t.kind == 'ANY':
                pat += '?' * need
                segs.append(('?', need))
                need = 0
                continue
            if t.kind in ('VARU', 'VARI', 'ADDR') and mode in ('bits', 'bytes', 'str'):
                raise Mismatch(f'raw read of {n} bits over the variable-length field {t.name} ({t.kind})')
            raise Mismatch(f'load_{mode}({n}) but the schema has {t} next')
        r = bits_value(pat, mode if mode in ('uint', 'int', 'str', 'bytes') else 'bits')
        if isinstance(r, PBits):
            r.segs = segs
            r.owner = s
        return r

    def struct_unpack(s, it, fmt, raw):
        """struct.unpack over a raw multi-field read: every integer item must coincide with exactly one schema field, in width and signedness"""
        from .models import struct_items
        items = struct_items(fmt)
        if items is None:
            raise Fail(f'struct format {fmt!r} (native sizes / alignment are not modelled)')
        segs = [list(x) for x in raw.segs]
        out = []
        widths = {'b': (8, 'int'), 'B': (8, 'uint'), 'h': (16, 'int'), 'H': (16, 'uint'), 'i': (32, 'int'), 'I': (32, 'uint'), 'l': (32, 'int'), 'L': (32, 'uint'),
                  'q': (64, 'int'), 'Q': (64, 'uint'), '?': (8, 'uint'), 'c': (8, 'bits')}

        def take(nbits, what):
            """-> list of segment pieces covering nbits"""
            got, need = [], nbits
            while need > 0:
                if not segs:
                    raise Mismatch(f'struct item {what} reads past the {len(raw.pat)} bits that were loaded')
                sg = segs[0]
                size = len(sg[1]) if sg[0] == 'k' else sg[1]
                k = min(size, need)
                if sg[0] == 'k':
                    got.append(('k', sg[1][:k]))
                    sg[1] = sg[1][k:]
                else:
                    got.append((sg[0], k) + tuple(sg[2:]) + ((k == size),))
                    sg[1] -= k
                if (len(sg[1]) if sg[0] == 'k' else sg[1]) == 0:
                    segs.pop(0)
                need -= k
            return got
        for idx, (code, cnt) in enumerate(items):
            if code == 'x':
                take(8, 'x')
                continue
            if code == 's':
                got = take(8 * cnt, f'{cnt}s')
                if all(g[0] == 'k' for g in got):
                    bits = ''.join(g[1] for g in got)
                    out.append(K(bytes(int(bits[i:i + 8], 2) for i in range(0, len(bits), 8))))
                elif len(got) == 1 and got[0][0] == 'f' and got[0][3] and got[0][-1]:
                    t = got[0][2]
                    sym = Sym(t.name or 'anon', t, not_none=True, field=t.name, ty='bytes', n=cnt)
                    s.reads.append((t.name, sym))
                    out.append(sym)
                else:
                    out.append(Sym(f'struct[{idx}]', ty='bytes', n=cnt, not_none=True))
                continue
            w, sign = widths[code]
            got = take(w, code)
            if all(g[0] == 'k' for g in got):
                bits = ''.join(g[1] for g in got)
                v = int(bits, 2)
                if sign == 'int' and bits[0] == '1':
                    v -= 1 << w
                out.append(K(bool(v)) if code == '?' else K(v))
                continue
            if len(got) == 1 and got[0][0] == 'f' and got[0][3] and got[0][-1]:
                t = got[0][2]
                if t.ty in ('uint', 'int') and sign in ('uint', 'int') and t.ty != sign:
                    raise Mismatch(f'field {t.name}:{t.ty}{t.n} is unpacked with struct code {code!r} (signedness)')
                sym = Sym(t.name or 'anon', t, not_none=True, field=t.name)
                s.reads.append((t.name, sym))
                s.trace.append((f'struct {code}', f'{t.name}:{t.ty}{t.n}'))
                out.append(sym)
                continue
            f0 = next((g for g in got if g[0] == 'f'), None)
            if f0 is not None:
                t = f0[2]
                raise Mismatch(f'struct code {code!r} ({w} bits) does not coincide with field {t.name}:{t.ty}{t.n}')
            out.append(Sym(f'struct[{idx}]', not_none=True))
        if segs and any((len(x[1]) if x[0] == 'k' else x[1]) for x in segs):
            raise RaiseEx('error', 'struct.unpack requires a buffer of the exact size')
        return ListV(out, tup=True)

    def field_value(s, t, mode):
        dom = None
        if t.name in s.discr:
            dom = s.discr[t.name]
            if dom is None:
                if t.n <= 3:
                    dom = list(range(1 << t.n))
                else:
                    dom = 'bits'
        if dom == 'bits':
            # a wide flags field of which the schema uses single bits: enumerate the used bits only
            used = sorted(getattr(s, 'used_bits', {}).get(t.name, range(min(t.n, 8))))
            v = 0
            for b in used:
                if s.oracle.choose(2, f'fld:{t.name}.{b}'):
                    v |= 1 << b
            if t.name:
                s.env[t.name] = v
            return K(v) if mode in ('uint', 'int') else bits_value(format(v, f'0{t.n}b'), mode)
        if dom is not None:
            v = dom[s.oracle.choose(len(dom), 'fld:' + str(t.name))]
            if t.name:
                s.env[t.name] = v
            if mode in ('bits', 'str', 'bytes'):
                return bits_value(format(v, f'0{t.n}b'), mode)
            if getattr(t, 'boolish', False) and mode == 'bool':
                return K(bool(v))
            return K(v)
        # the symbol of a field is determined by where the field sits in the stream: a second parse of an equal value sees equal symbols
        sym = Sym(t.name or 'anon', t, not_none=True, field=t.name, key=('fld', s.label, t.name, len(s.reads)))
        s.reads.append((t.name, sym))
        return sym

    def take(s, kinds, what):
        i = s.first('bits')
        if i is None:
            raise Mismatch(f'{what}: the schema has no more bits here ({s.label})')
        t = s.toks[i]
        while t.kind == 'TYPE':
            s.expand_type(i)
            i = s.first('bits')
            if i is None:
                raise Mismatch(f'{what}: the schema has no more bits here ({s.label})')
            t = s.toks[i]
        if t.kind not in kinds:
            raise Mismatch(f'{what} but the schema has {t} next')
        s.toks.pop(i)
        s.trace.append((what, repr(t)))
        return t

    def take_ref(s, what='load_ref'):
        i = s.first('ref')
        if i is None:
            raise Mismatch(f'{what}: the schema has no more references here ({s.label})')
        t = s.toks[i]
        if t.kind == 'ANY':
            return Tok('REF', inner=('id', 'Cell'), name='any', env={}, discr={})
        if t.kind != 'REF':
            raise Mismatch(f'{what} but the schema has {t} next (an inline structure precedes any further reference)')
        s.toks.pop(i)
        s.trace.append((what, repr(t)))
        return t

    def bit_bounds(s):
        """(min, max) number of data bits the schema leaves in this slice; max None = unbounded / unknown"""
        lo, hi = 0, 0
        env = dict(s.env)
        for t in s.toks:
            toks = [t]
            if t.kind == 'FIELD':
                save = s.env
                try:
                    s.env = env
                    toks = s.lower(t.te, t.name)
                except (Fail, Mismatch):
                    hi = None
                    continue
                finally:
                    s.env = save
            for x in toks:
                k = x.kind
                if k == 'ENV':
                    env = dict(x.env)
                elif k == 'TAG':
                    lo += len(x.bits)
                    hi = None if hi is None else hi + len(x.bits)
                elif k == 'PRIM' and isinstance(x.n, int):
                    lo += x.n
                    hi = None if hi is None else hi + x.n
                elif k in ('VARU', 'VARI'):
                    lo += x.l
                    hi = None if hi is None else hi + x.l + 8 * ((1 << x.l) - 1)
                elif k == 'ADDR':
                    lo += 2
                    hi = None
                elif k in ('MAYBE', 'EITHER', 'HASHMAPE', 'HASHMAPAUGE'):
                    lo += 1
                    hi = None if k in ('MAYBE', 'EITHER', 'HASHMAPAUGE') or hi is None else hi + 1
                elif k in ('REF', 'CONSTRAINT'):
                    pass
                else:
                    hi = None
        return lo, hi

    # ---- the Slice API
    def abs_attr(s, it, a, node):
        if a == 'remaining_bits':
            # what is left depends on which constructor comes next: decide that first (as a read would), then bound the rest
            for _ in range(8):
                i = s.first('bits')
                if i is None or s.toks[i].kind != 'TYPE':
                    break
                s.expand_type(i)
            lo, hi = s.bit_bounds()
            if hi is not None and lo == hi:
                return K(lo)
            r = Sym('slice.remaining_bits', key=('sliceattr', id(s), a, len(s.trace)), not_none=True)
            r.bounds = (lo, hi)
            return r
        if a in ('remaining_bits', 'remaining_refs', 'bits', 'refs', 'ref_offset'):
            return Sym(f'slice.{a}', key=('sliceattr', id(s), a, len(s.trace)))
        if a == 'type_':
            return K(-1)
        return Native(lambda it_, args, kw, n, _a=a: s.method(it_, _a, args, kw, n), 'slice.' + a)

    @staticmethod
    def need_k(v, what):
        if isinstance(v, K) and isinstance(v.v, int):
            return v.v
        raise Fail(f'non-constant {what}: {v!r}')

    def method(s, it, name, args, kw, n):
        pre = name.startswith('preload_')
        base = name[len('preload_'):] if pre else name[len('load_'):] if name.startswith('load_') else name
        if name in ('load_bit', 'preload_bit', 'load_bool', 'preload_bool'):
            v = s.read(1, 'uint', not pre)
            if base == 'bool' and isinstance(v, K):
                return K(bool(v.v))
            return v
        if base in ('uint', 'int') and (pre or name.startswith('load_')):
            w = args[0] if args else kw.get('length')
            return s.read(s.need_k(w, 'width'), base, not pre)
        if base == 'bits' and (pre or name.startswith('load_')):
            return s.read(s.need_k(args[0], 'width'), 'bits', not pre)
        if base == 'bytes' and (pre or name.startswith('load_')):
            return s.read(8 * s.need_k(args[0], 'width'), 'bytes', not pre)
        if name == 'skip_bits':
            s.read(s.need_k(args[0], 'width'), 'bits')
            return s
        if name in ('load_coins', 'preload_coins'):
            if pre:
                c = s.copy()
                return c.method(it, 'load_coins', args, kw, n)
            t = s.take({'VARU'}, 'load_coins')
            if t.l != 4:
                raise Mismatch(f'load_coins on {t.name}: VarUInteger with a {t.l}-bit length prefix')
            sym = Sym(t.name or 'coins', t, not_none=True, field=t.name, key=('fld', s.label, t.name, len(s.reads)))
            s.reads.append((t.name, sym))
            return sym
        if name in ('load_var_uint', 'load_var_int'):
            want = 'VARU' if name.endswith('uint') else 'VARI'
            t = s.take({'VARU', 'VARI'}, name)
            l = s.need_k(args[0], 'length bits')
            if t.kind != want or t.l != l:
                raise Mismatch(f'{name}({l}) on field {t.name}: schema has {"VarUInteger" if t.kind == "VARU" else "VarInteger"} with a {t.l}-bit length prefix')
            sym = Sym(t.name or 'var', t, not_none=True, field=t.name, key=('fld', s.label, t.name, len(s.reads)))
            s.reads.append((t.name, sym))
            return sym
        if name in ('load_address', 'preload_address'):
            if pre:
                return s.copy().method(it, 'load_address', args, kw, n)
            t = s.take({'ADDR'}, 'load_address')
            sym = Sym(t.name or 'addr', t, field=t.name, key=('fld', s.label, t.name, len(s.reads)))
            s.reads.append((t.name, sym))
            return sym
        if name == 'load_ref':
            t = s.take_ref()
            c_ = CellObj(it, s.db, t.inner, t.env, t.name, getattr(t, 'discr', None), s.depth_of)
            c_.path = getattr(s, 'path', ()) + (getattr(s, 'refs_taken', 0),)
            s.refs_taken = getattr(s, 'refs_taken', 0) + 1
            return c_
        if name == 'preload_ref':
            c = s.copy()
            t = c.take_ref('preload_ref')
            return CellObj(it, s.db, t.inner, t.env, t.name, getattr(t, 'discr', None), s.depth_of)
        if name in ('load_maybe_ref', 'preload_maybe_ref'):
            if pre:
                return s.copy().method(it, 'load_maybe_ref', args, kw, n)
            i = s.first('bits')
            t = s.toks[i] if i is not None else None
            while t is not None and t.kind == 'TYPE':
                s.expand_type(i)
                i = s.first('bits')
                t = s.toks[i] if i is not None else None
            if t is not None and t.kind == 'TAG' and getattr(t, 'orig', None) is not None:
                t = t.orig
            # a HashmapAugE read as an optional reference is layout-compatible as long as the caller then reads the root extra (left in the stream)
            if t is None or not (t.kind in ('HASHMAPE', 'HASHMAPAUGE') or (t.kind == 'MAYBE' and t.inner[0] == 'ref')):
                raise Mismatch(f'load_maybe_ref but the schema has {t} next')
            b = s.read(1, 'uint')
            if b.v:
                r = s.take_ref('load_maybe_ref')
                inner = r.inner
                return CellObj(it, s.db, inner, r.env, r.name, getattr(r, 'discr', None), s.depth_of)
            return K(None)
        if name in ('load_dict', 'preload_dict'):
            return s.dict_op(it, 'HASHMAPE', args, kw, pre)
        if name == 'load_hashmap':
            return s.dict_op(it, 'HASHMAP', args, kw, False)
        if name == 'load_hashmap_aug':
            return s.dict_op(it, 'HASHMAPAUG', args, kw, False)
        if name == 'load_hashmap_aug_e':
            return s.dict_op(it, 'HASHMAPAUGE', args, kw, False)
        if name == 'is_special':
            return K(False)
        if name == 'copy':
            return s.copy()
        if name == 'to_cell':
            return CellObj(it, s.db, ('id', 'Cell'), {}, 'rest')
        if name in ('begin_parse',):
            return s
        if name in ('load_snake_string', 'load_snake_bytes', 'load_string'):
            # the rest of the cell as raw data
            s.toks = [t for t in s.toks if False]
            return Sym(name)
        raise Fail(f'slice method {name}')

    def dict_op(s, it, kind, args, kw, pre):
        names = {'HASHMAPE': ['key_length', 'key_deserializer', 'value_deserializer'], 'HASHMAP': ['key_length', 'key_deserializer', 'value_deserializer'],
                 'HASHMAPAUG': ['key_length', 'x_deserializer', 'y_deserializer'], 'HASHMAPAUGE': ['key_length', 'x_deserializer', 'y_deserializer']}[kind]
        b = dict(zip(names, args))
        b.update(kw)
        n = s.need_k(b['key_length'], 'key length')
        i = s.first('bits')
        t = s.toks[i] if i is not None else None
        while t is not None and t.kind == 'TYPE':
            s.expand_type(i)
            i = s.first('bits')
            t = s.toks[i] if i is not None else None
        split = False
        if t is not None and t.kind == 'TAG' and getattr(t, 'orig', None) is not None and t.orig.kind == kind:
            t = t.orig
            split = True
        if t is None or t.kind != kind:
            raise Mismatch(f'{kind.lower()} read (key length {n}) but the schema has {t} next')
        if t.n != n:
            raise Mismatch(f'{kind.lower()} key length {n} but the schema says {t.n} for {t.name}')
        xdes = b.get('value_deserializer') or b.get('x_deserializer')
        ydes = b.get('y_deserializer')
        results = {}
        for des, te, what in ((xdes, t.x, 'value'), (ydes, t.y, 'extra')):
            if te is None:
                continue
            sub = AbsSlice(it, s.db, [Tok('FIELD', name=what, te=te)], getattr(t, 'env', None) or s.env, f'{s.label}/{t.name}.{what}')
            if des is None or (isinstance(des, K) and des.v is None):
                results[what] = sub         # without a deserialiser the caller gets the value slice itself
                continue
            results[what] = it.call(des, [sub], {})
            if not sub.only_any():
                raise Mismatch(f'{what} deserializer of dictionary {t.name} leaves {sub.remaining_desc()[:3]} unread')
        # the parsed dictionary: one representative entry (symbolic key, the value the deserialiser produced)
        key = Sym('key.' + str(t.name), ty='int', key=('dictkey', id(s), len(s.trace)), not_none=True)
        d = DictV()
        dk = it.dkey(key)
        d.d[dk] = results.get('value', Sym('value'))
        d.keyobj[dk] = key
        d.field = t.name
        aug = ListV([d, ListV([results['extra']] if 'extra' in results else [])], tup=True)
        if kind in ('HASHMAP', 'HASHMAPAUG'):
            s.toks.pop(i)
            return d if kind == 'HASHMAP' else aug
        if pre:
            c = s.copy()
            return c.dict_op(it, kind, args, kw, False) if False else d
        if not split:
            s.presence(i, t)
        bit = s.read(1, 'uint')
        if bit.v:
            s.take_ref(kind.lower())
            res = aug if kind == 'HASHMAPAUGE' else d
        elif kind == 'HASHMAPAUGE':
            res = ListV([DictV(), ListV([s.copy()])], tup=True)
        else:
            return K(None)
        if kind == 'HASHMAPAUGE' and ydes is not None and not (isinstance(ydes, K) and ydes.v is None):
            # Slice.load_hashmap_aug_e applies the extra deserialiser to the slice itself: the root extra:Y of ahme_empty / ahme_root
            # (this model is pinned to the code by C10.D4 'aug_e[...] consumes the root extra')
            it.call(ydes, [s], {})
        return res


# ---------------------------------------------------------------- class <-> constructor binding
def docstring_decls(cls):
    doc = ast.get_docstring(cls.node) or ''
    out = []
    for stmt in doc.split(';'):
        st = re.sub(r'//[^\n]*', '', stmt).strip()
        if '=' not in st:
            continue
        try:
            out += tlbp.P(tlbp.tokenize(st + ';')).decls()
        except Exception:
            pass
    return out


TLB_MODULES = ('tlb.block', 'tlb.account', 'tlb.transaction', 'tlb.config', 'tlb.utils', 'tlb.vm_stack', 'tlb.custom.wallet', 'tlb.custom.nft')


def build_classmap(prog):
    cm = {}
    for name, c in prog.classes.items():
        if c.module not in TLB_MODULES:
            continue
        decls = docstring_decls(c)
        if not decls:
            continue
        tname = decls[0]['type']
        cm[name] = {'type': tname, 'cons': [d for d in decls if d['type'] == tname], 'all': decls}
    return cm


def is_stub(fn):
    body = [b for b in fn.body if not (isinstance(b, ast.Expr) and isinstance(b.value, ast.Constant))]
    return not body or all(isinstance(b, ast.Pass) for b in body) or (len(body) == 1 and isinstance(body[0], ast.Expr) and isinstance(body[0].value, ast.Constant))


INLINE = {'BinTree'}      # generic containers whose result structure (leaf slices) the callers go on parsing: always analysed inline


def install_modular(it, db, classmap, root_class, leftovers=None):
    """X.deserialize(slice, ...) consumes one whole TYPE token when the schema has exactly X's type next (cuts recursion and
    keeps the analysis modular); otherwise the callee is inlined and checked against whatever the schema has there."""
    leftovers = leftovers or {}
    prev = getattr(it, 'summary_hook', None)
    # a deserialiser that looks at what is left in the slice (remaining_bits / remaining_refs / the raw containers) behaves differently
    # depending on what follows the value: it cannot be summarised as "consumes one value of its type", callers analyse it inline
    sensitive = getattr(it.prog, '_ctx_sensitive', None)
    if sensitive is None:
        sensitive = set()
        for cname in classmap:
            c = it.prog.classes.get(cname)
            oc, fn = it.prog.find_method(c, 'deserialize') if c is not None else (None, None)
            if fn is not None and any(isinstance(n, ast.Attribute) and n.attr in ('remaining_bits', 'remaining_refs', 'ref_offset') for n in ast.walk(fn)):
                sensitive.add(cname)
        it.prog._ctx_sensitive = sensitive

    def raw_of_slice(v, depth=0):
        if isinstance(v, Sym) and isinstance(v.key, tuple) and v.key[:1] == ('sliceattr',):
            return True
        return isinstance(v, Term) and depth < 4 and any(raw_of_slice(x, depth + 1) for x in v.a)

    def hook(f, args, kw):
        if f.cls is not None and f.cls.name == 'Cell' and f.name == '__init__' and any(raw_of_slice(a) for a in list(args[1:]) + list(kw.values())):
            # Cell(slice.bits.copy(), slice.refs[slice.ref_offset:], ...): a snapshot of what is left of the slice, built from its raw
            # containers - the same thing as slice.copy().to_cell(); it reads nothing, the cell stays opaque
            return K(None)
        if f.cls is not None and f.cls.name == 'Slice' and args and isinstance(args[0], AbsSlice):
            # Slice.load_x(slice_obj): the unbound spelling of slice_obj.load_x() - the typestate model answers, not the real method body
            return args[0].method(it, f.name, list(args[1:]), kw, None)
        if f.name == 'deserialize' and f.cls is not None and len(args) >= 2 and isinstance(args[1], AbsSlice) and isinstance(args[0], ClassRef):
            cls = args[0]
            info = classmap.get(cls.name)
            if info:
                sl = args[1]
                i = sl.first('bits')
                if i is not None:
                    t = sl.toks[i]
                    if t.kind == 'TYPE' and t.t == info['type'] and not (cls.name == root_class and it.depth == 0) and cls.name not in INLINE and cls.name not in sensitive:
                        # natural-number type arguments: what the code passes down must be what the schema says at this point
                        want = [a for a in t.args if isinstance(a, int)]
                        have = [a.v for a in args[2:] if isinstance(a, K) and isinstance(a.v, int) and not isinstance(a.v, bool)]
                        if want and have and want[:len(have)] != have[:len(want)]:
                            raise Mismatch(f'{cls.name}.deserialize is called with argument(s) {have} where the schema has {t.t} {want}')
                        # references are taken in stream order: a value that can own references must not be parsed while an earlier
                        # reference field of the schema is still pending (it would take that field's cell)
                        if may_have_refs(db, t.t):
                            pend = [x for x in sl.toks[:i] if x.kind == 'REF']
                            if pend:
                                raise Mismatch(f'{cls.name}.deserialize ({t.name or t.t}) is parsed while the earlier reference field '
                                               f'`{pend[0].name or "^[...]"}` is still unread: a reference owned by {t.t} would be taken from the wrong position')
                        sl.toks.pop(i)
                        sl.trace.append((f'{cls.name}.deserialize', repr(t)))
                        left = leftovers.get(cls.name)
                        if left:
                            sl.toks[i:i] = [x.clone() for x in left]
                        r = Inst(cls)
                        r.open = True
                        return r
        return prev(f, args, kw) if prev else None
    it.summary_hook = hook
    prev_ext = getattr(it, 'ext_hook', None)

    def ext_hook(dotted, args, kw, n):
        if dotted in ('struct.unpack', 'struct.unpack_from') and len(args) >= 2 and isinstance(args[0], K) and isinstance(args[1], PBits) \
                and getattr(args[1], 'segs', None) is not None:
            fmt = args[0].v if isinstance(args[0].v, str) else args[0].v.decode()
            return args[1].owner.struct_unpack(it, fmt, args[1])
        return prev_ext(dotted, args, kw, n) if prev_ext else None
    it.ext_hook = ext_hook
