"""Checker-side models of the library functions the package calls (the trusted base of E3).
bitarray / int / bytes / str / hashlib / base64 / math.  Nothing here imports pytoniq_core or bitarray."""
import ast
import math
import base64 as _b64
import binascii as _binascii
from .values import *


def bits_value(pat, view):
    """bit pattern -> K if fully known else PBits"""
    if '?' in pat:
        return PBits(pat, view)
    if view == 'str':
        return K(pat)
    if view == 'bytes':
        if len(pat) % 8:
            return PBits(pat, view)
        return K(bytes(int(pat[i:i + 8], 2) for i in range(0, len(pat), 8)))
    if view == 'uint':
        return K(int(pat, 2) if pat else 0)
    if view == 'int':
        if not pat:
            return K(0)
        v = int(pat, 2)
        if pat[0] == '1':
            v -= 1 << len(pat)
        return K(v)
    return PBits(pat, 'bits')


def _as_poly(v):
    from .interp import as_poly
    return as_poly(v)


def _int(v, what):
    if isinstance(v, K) and isinstance(v.v, int):
        return int(v.v)
    raise Fail(f'non-constant {what}: {v!r}')


# ------------------------------------------------------------------ bitarray
def native_base(it, cls):
    ext = it.prog.ext_bases(cls)
    if 'bitarray' in ext:
        return BA()
    return None


def native_init(it, inst, args, kw):
    pass


def to_ba(it, x, what='bits'):
    """convert an abstract value to a BA (for extend / constructor)"""
    if isinstance(x, BA):
        return x.copy()
    if isinstance(x, Inst) and isinstance(x.native, BA):
        return x.native.copy()
    if isinstance(x, K):
        if isinstance(x.v, str):
            if any(c not in '01' for c in x.v):
                raise RaiseEx('ValueError', 'expected 0/1 string')
            return BA([Seg(len(x.v), 'k', x.v)])
        if isinstance(x.v, (list, tuple)):
            return BA([Seg(len(x.v), 'k', ''.join('1' if b else '0' for b in x.v))])
        if isinstance(x.v, int) and not isinstance(x.v, bool):
            return BA([Seg(x.v, 'k', '0' * x.v)])     # bitarray(n): n uninitialised (zero) bits
    if isinstance(x, PBits):
        return BA([Seg(1, 'k', c) if c != '?' else Seg(1, '?', None) for c in x.pat])
    if isinstance(x, ListV):
        segs = []
        for e in x.items:
            if isinstance(e, K):
                segs.append(Seg(1, 'k', '1' if e.v else '0'))
            else:
                segs.append(Seg(1, '?', e))
        return BA(segs)
    if isinstance(x, Sym) and x.meta.get('ty') == 'bits' and x.meta.get('n') is not None:
        return BA([Seg(x.meta['n'], '?', x)])
    raise Fail(f'cannot model {what} from {x!r}')


def ba_frombytes(it, ba, b):
    if isinstance(b, K) and isinstance(b.v, (bytes, bytearray)):
        ba._push(Seg(8 * len(b.v), 'k', ''.join(format(x, '08b') for x in b.v)))
        return
    if isinstance(b, PBits) and b.view == 'bytes':
        for c in b.pat:
            ba._push(Seg(1, 'k', c) if c != '?' else Seg(1, '?', None))
        return
    n = bytes_len(it, b)
    if isinstance(n, K):
        ba._push(Seg(8 * n.v, 'b', b))
        return
    raise Fail(f'frombytes of bytes with unknown length {b!r}')


def bytes_len(it, b):
    if type(b).__name__ == 'Rope':
        return K(b.n)
    if isinstance(b, Term) and b.op == 'bslice' and isinstance(b.a[1], K) and isinstance(b.a[2], K):
        return K(b.a[2].v - b.a[1].v)
    if isinstance(b, Term) and b.op in ('aesctr', 'aesctr_garbage'):
        return bytes_len(it, b.a[2])
    if isinstance(b, Term) and b.op == 'reversed_bytes':
        return bytes_len(it, b.a[0])
    if isinstance(b, Term) and b.op == 'ed25519sig':
        return K(64)
    if isinstance(b, Term) and b.op in ('pub', 'sha512'):
        return K(32 if b.op == 'pub' else 64)
    if isinstance(b, K) and isinstance(b.v, (bytes, bytearray, str)):
        return K(len(b.v))
    if isinstance(b, Sym) and b.meta.get('n') is not None:
        return K(b.meta['n'])
    if isinstance(b, PBits) and b.view == 'bytes':
        return K(len(b.pat) // 8)
    if isinstance(b, PBits):
        return K(len(b.pat))
    if isinstance(b, Term):
        if b.op == 'to_bytes' and isinstance(b.a[1], K):
            return K(b.a[1].v)
        if b.op == 'sha256':
            return K(32)
        if b.op == 'cat':
            tot = 0
            for p in b.a:
                n = bytes_len(it, p)
                if not isinstance(n, K):
                    return None
                tot += n.v
            return K(tot)
        if b.op == 'tobytes' and isinstance(b.a[0], K):
            return K(b.a[0].v)
        if b.op == 'crc' and isinstance(b.a[-1], K):
            return K(b.a[-1].v)
    return None


def ba_tobytes(it, ba):
    if getattr(it, 'ROPES', False) and not ba.known() and len(ba) % 8 == 0:
        # byte-aligned segments of known bits / opaque byte strings -> a byte-layout rope
        from .rope import Rope
        parts, pos, ok = [], 0, True
        for s in ba.segs:
            if pos % 8 or s.n % 8:
                ok = False
                break
            if s.kind == 'k':
                parts.append((K(bytes(int(s.val[i:i + 8], 2) for i in range(0, s.n, 8))), s.n // 8))
            elif s.kind == 'b':
                parts.append((s.val, s.n // 8))
            else:
                ok = False
                break
            pos += s.n
        if ok:
            return Rope(parts).simplify()
    if ba.known():
        pat = ba.pattern()
        pat += '0' * (-len(pat) % 8)
        return K(bytes(int(pat[i:i + 8], 2) for i in range(0, len(pat), 8)))
    if len(ba.segs) == 1 and ba.segs[0].kind == 'b':
        return ba.segs[0].val
    nbytes = (len(ba) + 7) // 8
    return Term('tobytes', K(nbytes), K(ba.desc()), BAref(ba.copy()))


class BAref:
    """carries a BA snapshot inside a Term (repr by description)"""
    def __init__(self, ba):
        self.ba = ba

    def __repr__(self):
        return 'BA' + repr(self.ba.desc())


def ba2int(it, x, signed):
    if isinstance(x, Inst) and isinstance(x.native, BA):
        x = x.native
    if isinstance(x, PBits):
        x = to_ba(it, x)
    if not isinstance(x, BA):
        raise Fail(f'ba2int of {x!r}')
    if len(x) == 0:
        raise RaiseEx('ValueError', 'non-empty bitarray expected')
    if x.known():
        return bits_value(x.pattern(), 'int' if signed else 'uint')
    if len(x.segs) == 1:
        s = x.segs[0]
        if s.kind == 'u' and not signed:
            return s.val
        if s.kind == 'i' and signed:
            return s.val
    return Term('ba2int', K(x.desc()), K(bool(signed)), BAref(x.copy()))


def int2ba(it, value, length, signed):
    n = _int(length, 'int2ba length')
    if n <= 0:
        raise RaiseEx('ValueError', 'length must be > 0')
    if isinstance(value, K) and isinstance(value.v, int):
        v = int(value.v)
        if signed:
            if not -(1 << (n - 1)) <= v < (1 << (n - 1)):
                raise RaiseEx('OverflowError', 'signed integer not in range')
            v &= (1 << n) - 1
        else:
            if not 0 <= v < (1 << n):
                raise RaiseEx('OverflowError', 'unsigned integer not in range')
        return BA([Seg(n, 'k', format(v, f'0{n}b'))])
    return BA([Seg(n, 'i' if signed else 'u', value)])


def ba_methods(it, ba, a, inst):
    """attribute `a` of a bitarray model. `inst` is the Inst wrapping it (or None)"""
    def m_append(it, args, kw, node):
        v = args[0]
        if isinstance(v, K):
            if isinstance(v.v, str) or v.v is None or (isinstance(v.v, int) and v.v not in (0, 1)):
                raise RaiseEx('ValueError' if isinstance(v.v, int) else 'TypeError', 'bit must be 0 or 1')
            ba._push(Seg(1, 'k', '1' if v.v else '0'))
        else:
            ba._push(Seg(1, 'u', v))
        return K(None)

    def m_extend(it, args, kw, node):
        ba.extend(to_ba(it, args[0], 'extend argument'))
        return K(None)

    def m_fill(it, args, kw, node):
        pad = -len(ba) % 8
        ba._push(Seg(pad, 'k', '0' * pad))
        return K(pad)

    def m_tobytes(it, args, kw, node):
        return ba_tobytes(it, ba)

    def m_to01(it, args, kw, node):
        return bits_value(ba.pattern(), 'str')

    def m_frombytes(it, args, kw, node):
        ba_frombytes(it, ba, args[0])
        return K(None)

    def m_copy(it, args, kw, node):
        return ba.copy()

    def m_pop(it, args, kw, node):
        i = _int(args[0], 'pop index') if args else -1
        b = ba.bit(i)
        n = len(ba)
        if i < 0:
            i += n
        ba.delete(i, i + 1)
        return b

    def m_len(it, args, kw, node):
        return K(len(ba))

    def m_count(it, args, kw, node):
        if ba.known():
            return K(ba.pattern().count('1' if (not args or it.truth(args[0])) else '0'))
        return Term('count', BAref(ba.copy()))

    def m_delitem(it, args, kw, node):
        idx = args[0]
        if isinstance(idx, SliceV):
            idx = ('slice', idx.lo, idx.hi)
        native_delitem(it, ba, idx)
        return K(None)

    def m_init(it, args, kw, node):
        return K(None)

    def m_any(it, args, kw, node):
        if ba.known():
            return K('1' in ba.pattern())
        return Term('any', BAref(ba.copy()))

    table = {'append': m_append, 'extend': m_extend, 'fill': m_fill, 'tobytes': m_tobytes, 'to01': m_to01,
             'frombytes': m_frombytes, 'copy': m_copy, 'pop': m_pop, '__len__': m_len, 'count': m_count,
             '__delitem__': m_delitem, '__init__': m_init, 'any': m_any}
    if a in table:
        return Native(table[a], 'bitarray.' + a)
    if a == '__new__':
        def m_new(it, args, kw, node):
            cls = args[0] if args else None
            if isinstance(cls, Inst):
                cls = cls.cls
            r = it.new_inst(cls)
            if len(args) > 1:
                r.native = to_ba(it, args[1], 'constructor argument')
            return r
        return Native(m_new, 'bitarray.__new__')
    return None


def native_attr(it, nat, a, inst):
    if isinstance(nat, BA):
        return ba_methods(it, nat, a, inst)
    return None


def native_delitem(it, ba, idx):
    n = len(ba)
    if isinstance(idx, tuple):
        lo = idx[1].v if isinstance(idx[1], K) else None if idx[1] is None else _int(idx[1], 'del start')
        hi = idx[2].v if isinstance(idx[2], K) else None if idx[2] is None else _int(idx[2], 'del stop')
        lo = 0 if lo is None else lo
        hi = n if hi is None else hi
        if lo < 0:
            lo = max(0, lo + n)
        if hi < 0:
            hi = max(0, hi + n)
        lo, hi = min(lo, n), min(hi, n)
        if lo < hi:
            ba.delete(lo, hi)
        return
    i = _int(idx, 'del index')
    if i < 0:
        i += n
    if not 0 <= i < n:
        raise RaiseEx('IndexError', 'bitarray assignment index out of range')
    ba.delete(i, i + 1)


def inplace(it, op, cur, v):
    """x op= v for mutable models; None -> fall back on binop + rebind"""
    if isinstance(op, ast.Add):
        if isinstance(cur, ListV) and not cur.tup:
            items = it.iterate(v)
            if items is None:
                raise Fail('list += unknown')
            cur.items.extend(items)
            return cur
        if isinstance(cur, BA):
            cur.extend(to_ba(it, v))
            return cur
        if isinstance(cur, Inst) and isinstance(cur.native, BA):
            cur.native.extend(to_ba(it, v))
            it.__dict__.setdefault('raw_growth', []).append(cur)
            return cur
    if isinstance(op, ast.BitOr) and isinstance(cur, SetV) and isinstance(v, SetV):
        cur.items.update(v.items)
        return cur
    return None


def dataclass_init(it, cls, inst, args, kw):
    decs = set()
    for d in cls.node.decorator_list:
        decs.add(d.id if isinstance(d, ast.Name) else d.attr if isinstance(d, ast.Attribute) else
                 (d.func.id if isinstance(d, ast.Call) and isinstance(d.func, ast.Name) else ''))
    if 'dataclass' not in decs:
        return False
    fields = [n.target.id for n in cls.node.body if isinstance(n, ast.AnnAssign) and isinstance(n.target, ast.Name)]
    for f, v in zip(fields, args):
        inst.attrs[f] = v
    for k, v in kw.items():
        inst.attrs[k] = v
    return True


# ------------------------------------------------------------------ hashing
class Hasher:
    def __init__(self, algo, first=None):
        self.algo = algo
        self.log = [] if first is None else [first]

    def abs_attr(self, it, a, n):
        if a == 'update':
            def upd(it, args, kw, node):
                self.log.append(args[0])
                return K(None)
            return Native(upd, 'hash.update')
        if a == 'digest':
            return Native(lambda it, args, kw, node: digest_term(it, self.algo, self.log), 'hash.digest')
        if a == 'hexdigest':
            return Native(lambda it, args, kw, node: Term('hex', digest_term(it, self.algo, self.log)), 'hash.hexdigest')
        if a == 'copy':
            def cp(it, args, kw, node):
                h = Hasher(self.algo)
                h.log = list(self.log)
                return h
            return Native(cp, 'hash.copy')
        return None


def digest_term(it, algo, log):
    parts = []
    for x in log:
        if isinstance(x, Term) and x.op == 'cat':
            parts += list(x.a)
        elif isinstance(x, K) and isinstance(x.v, (bytes, bytearray)) and len(x.v) == 0:
            continue
        else:
            parts.append(x)
    out = []
    for p in parts:
        if out and isinstance(p, K) and isinstance(out[-1], K) and isinstance(p.v, bytes) and isinstance(out[-1].v, bytes):
            out[-1] = K(out[-1].v + p.v)
        else:
            out.append(p)
    if any(type(p).__name__ == 'Rope' for p in out):
        # canonical form when byte layouts are tracked: one rope for the whole hashed stream
        from .rope import Rope
        rs = [Rope.of(it, p) for p in out]
        if all(r is not None for r in rs):
            whole = Rope([pp for r in rs for pp in r.parts]).simplify()
            out = [whole]
    if getattr(it, 'CONCRETE_HASH', False) and all(isinstance(p, K) and isinstance(p.v, (bytes, bytearray)) for p in out):
        import hashlib
        return K(hashlib.new(algo, b''.join(bytes(p.v) for p in out)).digest())
    return Term(algo, *out)


# ------------------------------------------------------------------ external (library) calls
def ext_call(it, dotted, args, kw, n):
    hook = getattr(it, 'ext_hook', None)
    if hook is not None:
        r = hook(dotted, args, kw, n)
        if r is not None:
            return r
    last = dotted.split('.')[-1]
    if dotted in ('hashlib.sha256', 'hashlib.sha512', 'hashlib.sha1', 'hashlib.md5'):
        return Hasher(last, args[0] if args else None)
    if last == 'int2ba' and 'bitarray' in dotted:
        value = args[0]
        length = args[1] if len(args) > 1 else kw.get('length')
        signed = kw.get('signed', args[3] if len(args) > 3 else K(False))
        if length is None:
            raise Fail('int2ba without length')
        return int2ba(it, value, length, it.truth(signed))
    if last == 'ba2int' and 'bitarray' in dotted:
        signed = kw.get('signed', args[1] if len(args) > 1 else K(False))
        return ba2int(it, args[0], it.truth(signed))
    if dotted in ('bitarray.bitarray', 'bitarray'):
        if not args:
            return BA()
        return to_ba(it, args[0], 'bitarray() argument')
    if dotted == 'math.ceil':
        v = args[0]
        if isinstance(v, K):
            return K(math.ceil(v.v))
        if isinstance(v, Term) and v.op == '/':
            return Term('ceildiv', v.a[0], v.a[1])
        return Term('ceil', v)
    if dotted == 'math.floor':
        v = args[0]
        if isinstance(v, K):
            return K(math.floor(v.v))
        return Term('floor', v)
    if dotted in ('math.log2', 'math.pow', 'math.log'):
        if all(isinstance(a, K) for a in args):
            return K(getattr(math, last)(*[a.v for a in args]))
        return Term(last, *args)
    if dotted.startswith('base64.') and last in ('b64decode', 'urlsafe_b64decode', 'b64encode', 'urlsafe_b64encode'):
        a = args[0]
        if isinstance(a, K):
            try:
                return K(getattr(_b64, last)(a.v))
            except _binascii.Error:
                raise RaiseEx('Error', 'binascii.Error')
            except (ValueError, TypeError) as e:
                raise RaiseEx(type(e).__name__, '')
        return Term(last, a)
    if dotted == 'itertools.accumulate':
        items = it.iterate(args[0])
        if items is not None:
            out, tot = [], None
            for x in items:
                tot = x if tot is None else it.binop(ast.Add(), tot, x)
                out.append(tot)
            return ListV(out)
    if dotted == 'itertools.chain':
        lists = [it.iterate(a) for a in args]
        if all(l is not None for l in lists):
            return ListV([x for l in lists for x in l])
    if dotted == 'copy.copy' or dotted == 'copy.deepcopy':
        return args[0]
    if dotted in ('typing.cast',):
        return args[1]
    if dotted.startswith('typing.'):
        return Sym('typing')
    if dotted.startswith('logging.') or dotted.startswith('logger.'):
        return Sym('logging')
    if dotted.startswith('re.') and last in ('compile', 'match', 'fullmatch', 'search', 'findall', 'sub', 'split') \
            and all(isinstance(a, K) for a in args) and all(isinstance(x, K) for x in kw.values()):
        import re as _re
        try:
            r = getattr(_re, last)(*[a.v for a in args], **{k: x.v for k, x in kw.items()})
        except _re.error as e:
            raise RaiseEx('error', f're: {e}')
        return wrap_re(r)
    if dotted in ('collections.deque', 'deque'):
        items = it.iterate(args[0]) if args else []
        if items is None:
            raise Fail('deque over unknown iterable')
        d = ListV(list(items))
        d.is_deque = True
        return d
    if dotted == 'zlib.crc32':
        if isinstance(args[0], K):
            import zlib
            return K(zlib.crc32(args[0].v))
        return Term('zlib.crc32', args[0])
    return Term('ext:' + dotted, *args, *[Term('kw', K(k), v) for k, v in sorted(kw.items())])


class ReObj:
    """a compiled pattern or a match object of the standard `re` module, applied to constants only (constant folding)"""
    not_none = True

    def __init__(self, obj):
        self.obj = obj

    def abs_key(self):
        return ('re', repr(self.obj))

    def abs_truth(self, it):
        return True

    def abs_attr(self, it, a, node):
        target = getattr(self.obj, a, None)
        if target is None:
            return None
        if not callable(target):
            return wrap_re(target)

        def call(it_, args, kw, n, target=target):
            if not all(isinstance(x, K) for x in args) or not all(isinstance(x, K) for x in kw.values()):
                import re as _re
                if isinstance(self.obj, _re.Pattern) and a in ('fullmatch', 'match') and len(args) == 1 and not kw:
                    r = re_on_base64(it_, self.obj, a, args[0], n)
                    if r is not None:
                        return r
                raise Fail(f'regular expression applied to a symbolic value ({a})')
            try:
                return wrap_re(target(*[x.v for x in args], **{k: x.v for k, x in kw.items()}))
            except (IndexError, TypeError) as e:
                raise RaiseEx(type(e).__name__, str(e)[:60])
        return Native(call, 're.' + a)

    def abs_item(self, it, i, node):
        if isinstance(i, K):
            try:
                return wrap_re(self.obj[i.v])
            except (IndexError, TypeError) as e:
                raise RaiseEx(type(e).__name__, str(e)[:60])
        raise Fail('match[...] with a symbolic index')


_B64_STD = 'ABCDEFGHIJKLMNOPQRSTUVWXYZabcdefghijklmnopqrstuvwxyz0123456789+/'
_B64_URL = _B64_STD[:-2] + '-_'


def re_on_base64(it, pat, method, subject, node):
    """pattern.fullmatch / match on the base64 text of a byte layout (Rope): decided per position from the character classes of the
    pattern when the pattern is a sequence of fixed-width character classes or one repeated class.  A position whose three source
    bytes are opaque can hold any character of the alphabet, so a class that lacks part of the alphabet there leaves the match
    undecided (both outcomes exist for some input) and the path forks.  -> K(match-or-None surrogate) / None if not in this fragment."""
    import re as _re
    try:
        import re._parser as sre
        import re._constants as C
    except ImportError:      # python < 3.11
        import sre_parse as sre
        import sre_constants as C
    from .rope import Rope
    v = subject
    if isinstance(v, Term) and v.op == 'decode':
        v = v.a[0]
    if hasattr(v, 'payload') and hasattr(v, 'urlsafe'):       # a rule module's own base64-text abstraction
        alpha = _B64_URL if v.urlsafe else _B64_STD
        rope = Rope.of(it, v.payload)
    elif isinstance(v, Term) and v.op in ('b64encode', 'urlsafe_b64encode'):
        alpha = _B64_STD if v.op == 'b64encode' else _B64_URL
        rope = Rope.of(it, v.a[0])
    else:
        return None
    if rope is None:
        return None
    opaque = []
    for val, nb in rope.parts:
        opaque += [not isinstance(val, K)] * nb if not isinstance(val, K) else [False] * nb
        # only a plain unknown (Sym) is unconstrained; a Term (a checksum of the other bytes, ...) is unknown but not free
        if not isinstance(val, K) and not isinstance(val, Sym):
            opaque[-nb:] = [None] * nb
    nbytes = len(opaque)
    L = 4 * ((nbytes + 2) // 3)
    npad = (3 - nbytes % 3) % 3
    # per position: 'any' (every alphabet character occurs for some input), 'pad', or 'some' (an unknown subset of the alphabet)
    kind = []
    for p in range(L):
        g, j = divmod(p, 4)
        src = {0: (0,), 1: (0, 1), 2: (1, 2), 3: (2,)}[j]
        idx = [3 * g + k for k in src]
        if p >= L - npad:
            kind.append('pad')
        elif all(i < nbytes and opaque[i] is True for i in idx):
            kind.append('any')
        else:
            kind.append('some')
    # the pattern: a sequence of single-character classes with repeat counts
    try:
        tree = list(sre.parse(pat.pattern, pat.flags))
    except Exception:
        return None
    elems = []
    for op, av in tree:
        if op is C.AT:
            if av in (C.AT_BEGINNING, C.AT_BEGINNING_STRING, C.AT_END, C.AT_END_STRING):
                continue
            return None
        lo = hi = 1
        if op in (C.MAX_REPEAT, C.MIN_REPEAT):
            lo, hi, sub = av
            sub = list(sub)
            if len(sub) != 1:
                return None
            op, av = sub[0]
        if op not in (C.IN, C.LITERAL, C.ANY, C.NOT_LITERAL):
            return None
        one = _re.compile(_unparse_class(op, av, C), pat.flags & ~_re.VERBOSE)
        elems.append((one, lo, hi if hi is not C.MAXREPEAT else None))
    if not elems:
        return None
    variable = [e for e in elems if e[1] != e[2]]
    if variable and len(elems) > 1:
        return None
    if variable:
        one, lo, hi = elems[0]
        if L < lo or (method == 'fullmatch' and hi is not None and L > hi):
            return K(None)
        span = L if hi is None else min(L, hi)
        classes = [one] * span
    else:
        classes = [e[0] for e in elems for _ in range(e[1])]
        if len(classes) > L or (method == 'fullmatch' and len(classes) != L):
            return K(None)
    verdict = True
    for p, one in enumerate(classes):
        chars = '=' if kind[p] == 'pad' else alpha
        ok = [bool(one.fullmatch(c)) for c in chars]
        if all(ok):
            continue
        if not any(ok):
            return K(None)
        if kind[p] == 'any':
            verdict = None
        elif verdict is True:
            verdict = 'unknown'
    if verdict is True:
        return ReObj(_SymMatch(subject))
    if verdict is None:
        c = Cond(('re', pat.pattern, method, repr(it.vkey(subject))), True, f're {pat.pattern!r} matches the base64 text')
        return ReObj(_SymMatch(subject)) if it.truth(c, node) else K(None)
    return None


def _unparse_class(op, av, C):
    """a one-character pattern equivalent to the parsed class element"""
    def lit(c):
        ch = chr(c)
        return '\\' + ch if not ch.isalnum() else ch
    if op is C.ANY:
        return '.'
    if op is C.LITERAL:
        return lit(av)
    if op is C.NOT_LITERAL:
        return '[^' + lit(av) + ']'
    out = '['
    for k, v in av:
        if k is C.NEGATE:
            out += '^'
        elif k is C.LITERAL:
            out += lit(v)
        elif k is C.RANGE:
            out += lit(v[0]) + '-' + lit(v[1])
        elif k is C.CATEGORY:
            out += {C.CATEGORY_DIGIT: '\\d', C.CATEGORY_NOT_DIGIT: '\\D', C.CATEGORY_WORD: '\\w', C.CATEGORY_NOT_WORD: '\\W',
                    C.CATEGORY_SPACE: '\\s', C.CATEGORY_NOT_SPACE: '\\S'}[v]
        else:
            raise Fail(f'regex class element {k}')
    return out + ']'


class _SymMatch:
    """a successful match over the whole symbolic text: truthy; group(0) is the text"""
    def __init__(self, subject):
        self.subject = subject

    def __repr__(self):
        return f'<match over {vrepr(self.subject)[:30]}>'

    def group(self, *a):
        raise Fail('groups of a match over a symbolic text')


def wrap_re(r):
    import re as _re
    if isinstance(r, (_re.Pattern, _re.Match)):
        return ReObj(r)
    if isinstance(r, (list, tuple)) and any(isinstance(x, (list, tuple)) for x in r):
        return ListV([wrap_re(x) for x in r], tup=isinstance(r, tuple))
    if isinstance(r, list):
        return ListV([K(x) for x in r])
    return K(r)


# ------------------------------------------------------------------ attributes / methods of plain values
_K_METHODS = ('hex', 'to01', 'decode', 'encode', 'lower', 'upper', 'replace', 'startswith', 'endswith', 'get', 'keys',
              'values', 'items', 'bit_length', 'count', 'find', 'zfill', 'rjust', 'ljust', 'strip', 'split', 'index',
              'to_bytes', 'join', 'isdigit', 'rstrip', 'lstrip', 'format', 'rfind', 'title', 'capitalize')


def value_attr(it, v, a, n):
    if isinstance(v, BA):
        return ba_methods(it, v, a, None)
    if isinstance(v, K) and not hasattr(v.v, a):
        raise RaiseEx('AttributeError', f'{type(v.v).__name__} object has no attribute {a}', n)
    if isinstance(v, (K, PBits, ListV, DictV, SetV, Sym, Term, PInt, ExcV, Cond)):
        return Bound(v, Native(lambda it_, args, kw, node, _a=a: val_method(it_, args[0], _a, args[1:], kw, node), 'val.' + a))
    return None


def val_method(it, v, name, args, kw, node):
    if isinstance(v, PBits):
        if name == 'to01':
            return bits_value(v.pat, 'str')
        if name == 'tobytes':
            pat = v.pat + '0' * (-len(v.pat) % 8)
            return bits_value(pat, 'bytes')
        if name == 'hex':
            return Term('hex', v)
        if name == 'count' and v.known():
            return K(v.pat.count('1'))
        if name == 'replace' and v.view == 'str' and all(isinstance(a, K) for a in args):
            return v
        if name == 'decode':
            return Term('decode', v)
    if isinstance(v, (K, PInt)) and name == 'to_bytes':
        names = ['length', 'byteorder']
        b = dict(zip(names, args))
        b.update(kw)
        length, order, signed = b.get('length', K(1)), b.get('byteorder', K('big')), b.get('signed', K(False))
        if isinstance(v, K) and isinstance(v.v, int) and all(isinstance(x, K) for x in (length, order, signed)):
            try:
                return K(int(v.v).to_bytes(length.v, order.v, signed=bool(signed.v)))
            except OverflowError:
                raise RaiseEx('OverflowError', 'int too big to convert')
        return Term('to_bytes', v, length, order, signed)
    if isinstance(v, (Sym, Term)) and name == 'to_bytes':
        names = ['length', 'byteorder']
        b = dict(zip(names, args))
        b.update(kw)
        return Term('to_bytes', v, b.get('length', K(1)), b.get('byteorder', K('big')), b.get('signed', K(False)))
    if isinstance(v, PInt) and name == 'bit_length':
        return atom(f'bit_length({v.p})')
    if isinstance(v, K):
        if name in _K_METHODS and all(isinstance(a, K) for a in args) and all(isinstance(x, K) for x in kw.values()):
            try:
                r = getattr(v.v, name)(*[a.v for a in args], **{k: x.v for k, x in kw.items()})
            except (ValueError, OverflowError, UnicodeDecodeError, KeyError, IndexError) as e:
                raise RaiseEx(type(e).__name__, str(e)[:60])
            except (TypeError, AttributeError) as e:
                raise RaiseEx(type(e).__name__, str(e)[:60])
            if name in ('items', 'keys', 'values'):
                r = list(r)
            if name == 'split':
                return ListV([K(x) for x in r])
            return K(r)
        if name == 'join' and isinstance(v.v, (str, bytes)) and args:
            items = it.iterate(args[0])
            if items is not None and all(isinstance(x, K) for x in items):
                return K(v.v.join(x.v for x in items))
            return Term('join', v, args[0])
        if isinstance(v.v, (bytes, str)) and name in ('hex', 'decode', 'encode'):
            pass
    if isinstance(v, DictV):
        if name == 'get':
            k = it.dkey(args[0])
            if k in v.d:
                return v.d[k]
            dflt = args[1] if len(args) > 1 else K(None)
            if isinstance(args[0], K) and all(not isinstance(o, tuple) for o in v.d):
                return dflt
            if getattr(it, 'INJECTIVE_KEYS', False):
                return dflt         # distinct symbolic keys denote distinct values (collision-free hashing assumption of the caller)
            return Term('dict.get', v, args[0])
        if name == 'items':
            return ListV([ListV([v.keyobj.get(k, K(k)), val], tup=True) for k, val in v.d.items()])
        if name == 'keys':
            return ListV([v.keyobj.get(k, K(k)) for k in v.d])
        if name == 'values':
            return ListV(list(v.d.values()))
        if name == 'pop':
            k = it.dkey(args[0])
            if k in v.d:
                v.keyobj.pop(k, None)
                return v.d.pop(k)
            if len(args) > 1:
                return args[1]
            if isinstance(args[0], K):
                raise RaiseEx('KeyError', repr(args[0].v))
            return Term('dict.pop', v, args[0])
        if name == 'update':
            if args and isinstance(args[0], DictV):
                v.d.update(args[0].d)
                v.keyobj.update(args[0].keyobj)
            for k, x in kw.items():
                v.d[k] = x
            return K(None)
        if name == 'setdefault':
            k = it.dkey(args[0])
            if k not in v.d:
                v.d[k] = args[1] if len(args) > 1 else K(None)
                v.keyobj[k] = args[0]
            return v.d[k]
        if name == 'copy':
            d = DictV(dict(v.d))
            d.keyobj = dict(v.keyobj)
            return d
    if isinstance(v, ListV):
        if name == 'popleft':
            try:
                return v.items.pop(0)
            except IndexError:
                raise RaiseEx('IndexError', 'pop from an empty deque')
        if name == 'appendleft':
            v.items.insert(0, args[0])
            return K(None)
        if name == 'extendleft':
            items = it.iterate(args[0])
            if items is None:
                raise Fail('extendleft with unknown iterable')
            for x in items:
                v.items.insert(0, x)
            return K(None)
        if name == 'clear':
            v.items.clear()
            return K(None)
        if name == 'append':
            v.items.append(args[0])
            return K(None)
        if name == 'extend':
            items = it.iterate(args[0])
            if items is None:
                raise Fail('extend with unknown iterable')
            v.items.extend(items)
            return K(None)
        if name == 'pop':
            try:
                return v.items.pop(*[_int(a, 'pop index') for a in args])
            except IndexError:
                raise RaiseEx('IndexError', 'pop from empty list')
        if name == 'insert':
            v.items.insert(_int(args[0], 'insert index'), args[1])
            return K(None)
        if name == 'copy':
            return ListV(list(v.items), v.tup)
        if name == 'index':
            for i, x in enumerate(v.items):
                if it.eq3(x, args[0]) is True:
                    return K(i)
            raise RaiseEx('ValueError', 'not in list')
        if name == 'reverse':
            v.items.reverse()
            return K(None)
        if name == 'sort':
            if kw.get('key') is not None and not (isinstance(kw['key'], K) and kw['key'].v is None):
                r = _sort_with_key(it, v.items, kw['key'], kw.get('reverse'), node)
                if r is None:
                    raise Fail('sort with a symbolic key')
                v.items[:] = r
                return K(None)
            if all(isinstance(x, K) for x in v.items):
                rev = kw.get('reverse')
                v.items.sort(key=lambda x: x.v, reverse=bool(rev is not None and it.truth(rev)))
                return K(None)
            raise Fail('sort of symbolic list')
        if name == 'count':
            return K(sum(1 for x in v.items if it.eq3(x, args[0]) is True))
    if isinstance(v, SetV):
        if name == 'add':
            v.items[it.dkey(args[0])] = args[0]
            return K(None)
        if name == 'discard' or name == 'remove':
            v.items.pop(it.dkey(args[0]), None)
            return K(None)
    if isinstance(v, (Sym, Term)) and name in ('hex', 'decode', 'encode', 'lower', 'upper'):
        if isinstance(v, Term) and v.op == 'fromhex' and name == 'hex':
            return v.a[0]
        if isinstance(v, Term) and (v.op, name) in (('decode', 'encode'), ('encode', 'decode')) and len(v.a) == 1:
            return v.a[0]
        return Term(name, v)
    hook = getattr(it, 'method_hook', None)
    if hook is not None:
        r = hook(v, name, args, kw, node)
        if r is not None:
            return r
    return Term(f'.{name}', v, *args)


# ------------------------------------------------------------------ builtins
_PURE = {'bin': bin, 'str': str, 'int': int, 'len': len, 'bool': bool, 'hex': hex, 'range': range, 'bytes': bytes,
         'min': min, 'max': max, 'abs': abs, 'ord': ord, 'chr': chr, 'bytearray': bytearray, 'sum': sum, 'float': float,
         'divmod': divmod, 'round': round, 'pow': pow, 'tuple': tuple, 'oct': oct, 'repr': repr, 'format': format}
_TYPES = {'int': int, 'bool': bool, 'str': str, 'bytes': bytes, 'tuple': tuple, 'list': list, 'dict': dict,
          'bytearray': bytearray, 'float': float, 'set': set, 'slice': slice, 'object': object, 'frozenset': frozenset, 'range': range}


def builtin(it, name, args, kw, n):
    hook = getattr(it, 'builtin_hook', None)
    if hook is not None:
        r = hook(name, args, kw, n)
        if r is not None:
            return r
    if name == 'isinstance':
        return do_isinstance(it, args[0], args[1], n)
    if name == 'len':
        return do_len(it, args[0], n)
    if name == 'int.from_bytes' or name == 'int.from_bytes':
        b = dict(zip(['bytes', 'byteorder'], args))
        b.update(kw)
        src, order, signed = b['bytes'], b.get('byteorder', K('big')), b.get('signed', K(False))
        if isinstance(src, PBits) and src.view == 'bytes' and src.known():
            src = bits_value(src.pat, 'bytes')
        if all(isinstance(x, K) for x in (src, order, signed)):
            return K(int.from_bytes(src.v, order.v, signed=bool(signed.v)))
        if isinstance(src, Term) and src.op == 'to_bytes' and isinstance(order, K) and isinstance(signed, K) \
                and isinstance(src.a[2], K) and isinstance(src.a[3], K) and src.a[2].v == order.v and bool(src.a[3].v) == bool(signed.v):
            return src.a[0]          # from_bytes(to_bytes(v, n, order, signed), order, signed) == v  (to_bytes raises unless v fits)
        return Term('from_bytes', src, order, signed)
    if name == 'bytes.fromhex' or name == 'bytearray.fromhex':
        if isinstance(args[0], K):
            try:
                return K(bytes.fromhex(args[0].v))
            except (ValueError, TypeError) as e:
                raise RaiseEx(type(e).__name__, 'fromhex')
        if isinstance(args[0], Term) and args[0].op == 'hex':
            return args[0].a[0]
        return Term('fromhex', args[0])
    if name in ('list', 'tuple', 'sorted', 'reversed', 'set', 'frozenset') and args:
        items = it.iterate(args[0])
        if items is not None:
            if name == 'sorted':
                if kw.get('key') is not None and not (isinstance(kw['key'], K) and kw['key'].v is None):
                    r = _sort_with_key(it, items, kw['key'], kw.get('reverse'), n)
                    if r is not None:
                        return ListV(r)
                    return Term('sorted', ListV(items))
                if all(isinstance(x, K) for x in items):
                    rev = kw.get('reverse')
                    return ListV(sorted(items, key=lambda x: x.v, reverse=bool(rev is not None and it.truth(rev))))
                if len(items) <= 1:
                    return ListV(items)
                return Term('sorted', ListV(items))
            if name == 'reversed':
                return ListV(list(reversed(items)))
            if name in ('set', 'frozenset'):
                s = SetV()
                for x in items:
                    s.items[it.dkey(x)] = x
                return s
            return ListV(items, tup=(name == 'tuple'))
        return Term(name, args[0])
    if name in ('list', 'dict', 'set', 'tuple') and not args:
        if name == 'dict':
            d = DictV()
            for k, v in kw.items():
                d.d[k] = v
                d.keyobj[k] = K(k)
            return d
        return {'list': ListV([]), 'set': SetV(), 'tuple': ListV([], tup=True)}[name]
    if name == 'dict' and args and isinstance(args[0], DictV):
        d = DictV(dict(args[0].d))
        d.keyobj = dict(args[0].keyobj)
        return d
    if name == 'enumerate':
        items = it.iterate(args[0])
        if items is None:
            return Term('enumerate', args[0])
        start = _int(args[1], 'enumerate start') if len(args) > 1 else 0
        return ListV([ListV([K(i + start), x], tup=True) for i, x in enumerate(items)])
    if name == 'zip':
        lists = [it.iterate(a) for a in args]
        if any(l is None for l in lists):
            return Term('zip', *args)
        return ListV([ListV(list(t), tup=True) for t in zip(*lists)])
    if name == 'range':
        ps = [_as_poly(a) for a in args]
        if all(isinstance(a, K) for a in args):
            try:
                return K(range(*[a.v for a in args]))
            except (TypeError, ValueError) as e:
                raise RaiseEx(type(e).__name__, 'range')
        if all(p is not None or isinstance(a, (Sym, PInt)) for p, a in zip(ps, args)):
            return Term('range', *args)
        raise RaiseEx('TypeError', 'range of non-int') if any(isinstance(a, K) and not isinstance(a.v, int) for a in args) else Fail(f'range of {args}')
    if name in ('min', 'max') and len(args) >= 2 and any(isinstance(a, PInt) for a in args):
        ps = sorted(repr(_as_poly(a)) for a in args)
        return atom(f'{name}({", ".join(ps)})')
    if name in ('min', 'max') and len(args) == 1:
        items = it.iterate(args[0])
        if items is not None and all(isinstance(x, K) for x in items) and items:
            return K((min if name == 'min' else max)(x.v for x in items))
    if name == 'bool' and args:
        v = args[0]
        if isinstance(v, Cond):
            return v
        if isinstance(v, K):
            return K(bool(v.v))
        if isinstance(v, (Sym, Term, PInt)):
            if isinstance(v, Term) and v.op == 'bit':
                return v
            return Term('bool', v)
        return K(it.truth(v, n))
    if name == 'str' and args and isinstance(args[0], PBits):
        return bits_value(args[0].pat, 'str')
    if name == 'int' and args:
        v = args[0]
        if isinstance(v, PBits) and v.view == 'str' and len(args) > 1 and isinstance(args[1], K) and args[1].v == 2:
            if v.known():
                return K(int(v.pat, 2))
            return Term('int2', v)
        if isinstance(v, (PInt,)):
            return v
        if isinstance(v, K):
            try:
                return K(int(v.v, *[a.v for a in args[1:]]) if len(args) > 1 else int(v.v))
            except (ValueError, TypeError) as e:
                raise RaiseEx(type(e).__name__, 'int()')
        if isinstance(v, Term) and v.op == 'bit':
            return v
        return Term('int', *args)
    if name in _PURE and all(isinstance(a, K) for a in args) and all(isinstance(x, K) for x in kw.values()):
        try:
            return K(_PURE[name](*[a.v for a in args], **{k: x.v for k, x in kw.items()}))
        except (ValueError, OverflowError, IndexError) as e:
            raise RaiseEx(type(e).__name__, str(e)[:60])
        except TypeError as e:
            raise RaiseEx('TypeError', str(e)[:60])
    if name in ('bytes', 'bytearray') and args:
        v = args[0]
        if isinstance(v, (Sym, Term)):
            return v
        if isinstance(v, PInt):
            return Term('zeros', v)
    if name == 'bytearray' and not args:
        return K(b'')
    if name == 'setattr':
        o, k, v = args
        if isinstance(k, K):
            it.setattr(o, k.v, v, n)
            return K(None)
        raise Fail('setattr with unknown name')
    if name == 'getattr':
        o, k = args[:2]
        if isinstance(k, K):
            try:
                return it.getattr(o, k.v, n)
            except RaiseEx:
                if len(args) > 2:
                    return args[2]
                raise
        raise Fail('getattr with unknown name')
    if name == 'hasattr':
        o, k = args
        if isinstance(o, Inst) and isinstance(k, K):
            try:
                it.getattr(o, k.v, n)
                return K(True)
            except RaiseEx:
                return K(False)
        return Cond(('hasattr', repr(it.vkey(o)), repr(k)), True, 'hasattr')
    if name == 'type' and len(args) == 1:
        v = args[0]
        if isinstance(v, Inst):
            return v.cls
        if isinstance(v, K):
            return Builtin(type(v.v).__name__)
        return Term('type', v)
    if name == 'print':
        return K(None)
    if name == 'id':
        return K(id(args[0]))
    if name == 'hash' and args:
        v = args[0]
        if isinstance(v, Inst) and v.cls is not None:
            c, m = it.prog.find_method(v.cls, '__hash__')
            if m is not None:
                from .front import FuncRef
                return it.invoke(FuncRef(m, c.module, c), [v], {})
        return Term('hash', v)
    if name == 'any' or name == 'all':
        items = it.iterate(args[0])
        if items is None:
            return Term(name, args[0])
        for x in items:
            t = it.truth(x, n)
            if name == 'any' and t:
                return K(True)
            if name == 'all' and not t:
                return K(False)
        return K(name == 'all')
    if name == 'sum' and args:
        items = it.iterate(args[0])
        if items is not None:
            tot = K(0) if len(args) < 2 else args[1]
            for x in items:
                tot = it.binop(ast.Add(), tot, x)
            return tot
    if name == 'iter' or name == 'next':
        raise Fail(f'builtin {name}')
    if name in ('Exception', 'ValueError', 'TypeError', 'KeyError', 'IndexError', 'NotImplementedError', 'OverflowError',
                'AssertionError', 'RuntimeError', 'AttributeError'):
        return ExcV(name, tuple(args))
    if name in ('staticmethod', 'classmethod', 'property'):
        return args[0]
    if name == 'callable':
        from .front import FuncRef, ClassRef
        return K(isinstance(args[0], (FuncRef, ClassRef, Bound, Native, Builtin, Ext)))
    return Term('builtin:' + name, *args)


def _sort_with_key(it, items, keyf, reverse, node):
    """stable sort by a key function whose results are concrete (ints / tuples of constants); None if a key is symbolic"""
    keys = []
    for x in items:
        k = it.call(keyf, [x], {}, node)
        if isinstance(k, ListV) and all(isinstance(e, K) for e in k.items):
            k = K(tuple(e.v for e in k.items))
        if not isinstance(k, K):
            return None
        keys.append(k.v)
    rev = bool(reverse is not None and it.truth(reverse))
    try:
        order = sorted(range(len(items)), key=lambda i: keys[i], reverse=rev)
    except TypeError:
        raise RaiseEx('TypeError', 'unorderable sort keys')
    return [items[i] for i in order]


def do_len(it, v, n):
    if isinstance(v, K):
        try:
            return K(len(v.v))
        except TypeError:
            raise RaiseEx('TypeError', 'len()')
    if isinstance(v, (ListV,)):
        return K(len(v.items))
    if isinstance(v, DictV):
        return K(len(v.d))
    if isinstance(v, SetV):
        return K(len(v.items))
    if isinstance(v, BA):
        return K(len(v))
    if isinstance(v, PBits):
        return K(len(v.pat) // 8 if v.view == 'bytes' else len(v.pat))
    if isinstance(v, Inst):
        if v.cls is not None:
            c, m = it.prog.find_method(v.cls, '__len__')
            if m is not None:
                from .front import FuncRef
                return it.invoke(FuncRef(m, c.module, c), [v], {})
        if isinstance(v.native, BA):
            return K(len(v.native))
    hook = getattr(v, 'abs_len', None)
    if hook is not None:
        return hook(it)
    r = bytes_len(it, v)
    if r is not None:
        return r
    if isinstance(v, Sym):
        return atom(f'len({v.name})')
    if isinstance(v, Term):
        return atom(f'len({v!r})')
    raise Fail(f'len of {v!r}')


def do_isinstance(it, v, t, n):
    from .front import ClassRef
    ts = t.items if isinstance(t, ListV) else [t]
    res = False
    unk = False
    for ty in ts:
        r = _isinst1(it, v, ty)
        if r is True:
            return K(True)
        if r is None:
            unk = True
    if unk:
        names = ','.join(getattr(x, 'name', getattr(x, 'dotted', '?')) for x in ts)
        return Cond(('isinstance', repr(it.vkey(v)), names), True, f'isinstance({vrepr(v)[:30]}, {names})')
    return K(res)


def _isinst1(it, v, ty):
    from .front import ClassRef
    hook = getattr(v, 'abs_isinstance', None)
    if hook is not None:
        r = hook(it, ty)
        if r is not None:
            return r
    if isinstance(ty, ClassRef):
        if isinstance(v, Inst):
            return v.cls is not None and it.prog.is_subclass(v.cls, ty.name)
        if isinstance(v, (K, PInt, PBits, ListV, DictV, SetV, BA, ExcV)):
            return False
        if isinstance(v, Sym) and v.meta.get('ty') in ('bytes', 'str', 'int', 'bool', 'bits'):
            return False
        if isinstance(v, Sym) and v.meta.get('cls') is not None:
            return v.meta['cls'] == ty.name
        if isinstance(v, Term) and v.op in ('fstr', 'hex', 'decode', 'strfmt', 'cat', 'to_bytes', 'sha256', 'sha512', 'tobytes', 'fromhex', 'crc', 'bslice', 'from_bytes'):
            return False
        return None
    if isinstance(ty, Builtin):
        pyt = _TYPES.get(ty.name)
        if isinstance(v, K):
            if pyt is None:
                return None
            return isinstance(v.v, pyt)
        if isinstance(v, PInt):
            return ty.name == 'int'
        if isinstance(v, ListV):
            return ty.name == ('tuple' if v.tup else 'list')
        if isinstance(v, DictV):
            return ty.name == 'dict'
        if isinstance(v, (Inst, BA, SliceV)):
            return False
        if isinstance(v, PBits):
            return {'str': 'str', 'bytes': 'bytes', 'bits': None}.get(v.view) == ty.name
        if isinstance(v, Sym):
            mt = v.meta.get('ty')
            if mt in ('bytes', 'str', 'int', 'bool', 'dict', 'list'):
                if mt == 'bool' and ty.name == 'int':
                    return True
                return mt == ty.name
            if v.meta.get('cls') is not None:
                return False
        if isinstance(v, Term):
            if v.op in ('cat', 'to_bytes', 'sha256', 'tobytes', 'fromhex', 'slice') and ty.name == 'bytes':
                return True if v.op != 'slice' else None
            if v.op in ('fstr', 'hex', 'decode', 'strfmt'):
                return ty.name == 'str'
            if v.op in ('cat', 'to_bytes', 'sha256', 'sha512', 'tobytes', 'fromhex', 'crc', 'bslice'):
                return False
        return None
    if isinstance(ty, Ext):
        last = ty.dotted.split('.')[-1]
        if isinstance(v, Inst):
            return v.cls is not None and last in it.prog.ext_bases(v.cls)
        if isinstance(v, BA):
            return last == 'bitarray'
        if isinstance(v, (K, PInt, ListV, DictV, PBits)):
            return False
        return None
    return None
