"""C09 - dictionary (HashMap) serialise / parse round trip.

D1  key-domain guard: HashMap.set (every key form: int, bytes, bit string, address, hashed string, key_serializer) is
    interpreted on the complete class domain of the guard - sign x bit_length relative to the declared width (the guard can
    depend on the key only through comparisons and bit_length, a syntactic dependency check) - and must accept exactly 0 <= k < 2^w,
    storing the key under itself; every writer of HashMap.map is enumerated (who-may-write).
D2  round trip: serialize() followed by every reader (HashMap.parse, HashMap.from_cell, Slice.load_dict / preload_dict /
    load_hashmap, through store_dict) gives back exactly the stored pairs in ascending key order - all key sets of
    widths 1..3 (thorough: 4), all insertion orders of small sets, structured wide sets, all bundled value serialisers.
D3  length bookkeeping (structural): writer and reader derive the child key length as (length - len(label)) - 1 and branch on
    it being zero, compared as polynomials.
D4  empty map = no cell: serialize() is None, store_dict(None) writes a single 0 bit and no reference, load_dict/preload_dict
    on it return None and consume exactly that bit.
"""
import ast
import itertools
import sys
from ..core import AnalysisError
from ..front import Program, FuncRef
from ..interp import Interp
from ..values import *
from .. import bocrun
from .. import cellmodel as cm
from .C06 import segs_of
from .C10 import lam

MANIFEST = dict(
    technique='abstract interpretation of HashMap.set / serialize and every dictionary reader on the complete key-class domain (sign x bit_length x width) and on all key sets of small widths; who-may-write rule on HashMap.map; syntactic dependency check of the key guard',
    text='Decides that a key is accepted iff 0 <= key < 2^width for every key form (so no key can alias another), that parse(serialize(map)) returns '
         'exactly the stored pairs in ascending order for every key set of widths 1..3(4), all insertion orders of small sets and structured wide sets '
         'through every reader entry point and value serialiser, and that the empty map is "no cell" on both sides.'
         ' Custom key deserialisers receive the full-width key (leading zeros included) through every reader.'
         ' Values of zero width (unit values) come back as what the value deserialiser returns.',
    note='trusted: interpreter + bitarray model. Not decided: all key sets of all widths (finite families; the canonical shape for them is C10.D3).',
    design_ref='DESIGN.md section 4 C09')

VAL = lambda k, w: (k * 37 + 1) % 256 if w <= 8 else k % 256


def new_map(it, prog, width, ser='uint'):
    hm = it.construct(prog.cls('HashMap'), [K(width)], {})
    if ser == 'uint':
        cm.call_method(it, hm, 'with_uint_values', K(8))
    elif ser == 'int':
        cm.call_method(it, hm, 'with_int_values', K(9))
    elif ser == 'coins':
        cm.call_method(it, hm, 'with_coins_values')
    return hm


def map_keys(hm):
    m = hm.attrs['map']
    return [m.keyobj.get(k, K(k)) for k in m.d]


def guard_dependency(prog):
    """the statements that decide acceptance of an int key may use the key only in comparisons, bit_length() and as the
    dictionary key - directly or inside helpers of the package the key is handed to: returns the list of other uses (empty = the
    class-domain enumeration is complete)"""
    f = prog.method('HashMap', 'set_int_key')

    def uses(fn_node, pname, cls, module, depth):
        parents = {}
        for n in ast.walk(fn_node):
            for c in ast.iter_child_nodes(n):
                parents[c] = n
        bad = []
        for n in ast.walk(fn_node):
            if isinstance(n, ast.Name) and n.id == pname and isinstance(n.ctx, ast.Load):
                p = parents.get(n)
                if isinstance(p, ast.Compare):
                    continue
                if isinstance(p, ast.Attribute) and p.attr == 'bit_length':
                    continue
                if isinstance(p, ast.Subscript) and p.slice is n and isinstance(p.ctx, ast.Store):
                    continue
                if isinstance(p, ast.Dict) and any(k is n for k in p.keys):
                    continue
                if isinstance(p, ast.UnaryOp) and isinstance(p.op, ast.USub) and isinstance(parents.get(p), ast.Compare):
                    continue
                if isinstance(p, ast.Return) and depth > 0:
                    bad.append(f'returned by the helper: {ast.unparse(p)[:50]}')
                    continue
                if isinstance(p, ast.Call) and depth < 3 and any(a is n for a in p.args):
                    # handed to a helper of the package: the helper's parameter is subject to the same rule
                    callee, skip = None, 0
                    fn_ = p.func
                    if isinstance(fn_, ast.Attribute) and isinstance(fn_.value, ast.Name) and fn_.value.id in ('self', 'cls') and cls is not None:
                        oc, m = prog.find_method(cls, fn_.attr)
                        if m is not None:
                            callee = (m, oc, oc.module)
                            skip = 0 if 'staticmethod' in [getattr(d, 'id', getattr(d, 'attr', None)) for d in m.decorator_list] else 1
                    elif isinstance(fn_, ast.Name) and module in prog.modules and fn_.id in prog.modules[module].funcs:
                        g = prog.modules[module].funcs[fn_.id]
                        callee = (g.node, None, module)
                    if callee is not None:
                        idx = [i for i, a in enumerate(p.args) if a is n][0] + skip
                        params = callee[0].args.args
                        if idx < len(params):
                            bad += uses(callee[0], params[idx].arg, callee[1], callee[2], depth + 1)
                            continue
                bad.append(ast.unparse(p)[:60])
        return bad
    return uses(f.node, f.node.args.args[1].arg, f.cls, f.module, 0)


def map_writers(prog):
    """(function, statement) pairs that store into <something>.map[...] or rebind .map anywhere in the hashmap module"""
    out = []
    for f in prog.all_functions():
        if not f.module.startswith('boc.hashmap'):
            continue
        for n in ast.walk(f.node):
            tg = []
            if isinstance(n, ast.Assign):
                tg = n.targets
            elif isinstance(n, (ast.AugAssign, ast.AnnAssign)):
                tg = [n.target]
            for t in tg:
                if isinstance(t, ast.Subscript) and isinstance(t.value, ast.Attribute) and t.value.attr == 'map':
                    out.append((f, 'item', n))
                elif isinstance(t, ast.Attribute) and t.attr == 'map':
                    out.append((f, 'rebind', n))
            if isinstance(n, ast.Call) and isinstance(n.func, ast.Attribute) and n.func.attr in ('update', 'setdefault', '__setitem__') \
                    and isinstance(n.func.value, ast.Attribute) and n.func.value.attr == 'map':
                out.append((f, 'call', n))
    return out


def check(run):
    sys.setrecursionlimit(20000)
    prog = Program()
    thorough = run.tier == 'thorough'
    run.explanation = ('HashMap.set, serialize_dict and every dictionary reader interpreted by the checker on the complete key-class domain and on '
                       'all key sets of small widths; results compared with the stored mapping.')
    run.rule('D1', 'a key is stored iff 0 <= key < 2^width, under itself, for every key form; rejected keys raise and leave the map unchanged', 200)
    run.rule('D1w', 'only the guarded setter (and constructors taking a whole map) write HashMap.map; the guard depends on the key only through comparisons / bit_length', 3)
    run.rule('D2', 'parse(serialize(map)) == map with ascending keys, through every reader and value serialiser, independent of insertion order', 300)
    run.rule('D3', 'child key length is (length - len(label)) - 1 on both sides; leaf iff it is 0', 4)
    run.rule('D4', 'empty map <-> no cell: serialize() is None; store_dict(None) = one 0 bit, no reference; readers return None and consume that bit only', 5)
    run.trust('CPython ast', 'checker interpreter', 'model of bitarray / int2ba / ba2int')
    run.exhaustive = True
    HMset = prog.method('HashMap', 'set')
    w_set = prog.where(prog.method('HashMap', 'set_int_key'))

    # ------------------------------------------------------------------ D1w structural
    bad = guard_dependency(prog)
    run.check(not bad, 'D1w', 'HashMap.set_int_key[guard dependency]', f'key used outside comparisons/bit_length: {bad}' if bad else
              'the key reaches only comparisons, bit_length() and the dictionary store', w_set)
    writers = map_writers(prog)
    for f, kind, node in writers:
        q = f'{f.cls.name + "." if f.cls else ""}{f.name}'
        if kind == 'item':
            ok = q == 'HashMap.set_int_key'
            why = 'item store outside the guarded setter' if not ok else 'the guarded setter'
        elif kind == 'rebind':
            ok = q in ('HashMap.__init__', 'HashMap.from_cell')
            why = 'whole-map assignment (constructor / from_cell: keys come from a parsed tree of that width)' if ok else 'map rebound outside constructor/from_cell'
        else:
            ok = q == 'HashMap.set_int_key'
            why = 'the guarded setter' if ok else 'bulk update of the map bypasses the key guard'
        run.check(ok, 'D1w', f'{q}[{kind}]', f'{ast.unparse(node)[:70]}: {why}', prog.where(node, f.module))
    if not any(k in ('item', 'call') for _, k, _ in writers):
        raise AnalysisError('no store into HashMap.map found - anchor lost')

    # ------------------------------------------------------------------ D1 key domain, every key form
    widths = [1, 2, 3, 4, 7, 8, 9, 16, 31, 32, 33, 64, 255, 256, 257, 267, 1023]
    if thorough:
        widths = list(range(1, 300)) + [511, 512, 1000, 1022, 1023]
    nb = 0
    for w in widths:
        top = 1 << w
        cands = {0, 1, top - 1, top, top + 1, top >> 1, (top >> 1) - 1, 2 * top, 2 * top - 1, -1, -2, -(top >> 1), -(top >> 1) - 1, -top, -top + 1, -top - 1,
                 -(top - 1), -2 * top}
        for k in sorted(cands):
            it = Interp(prog)
            hm = new_map(it, prog, w)
            want = 0 <= k < top
            try:
                cm.call_method(it, hm, 'set', K(k), K(1))
                keys = map_keys(hm)
                got = True
                stored_ok = len(keys) == 1 and isinstance(keys[0], K) and keys[0].v == k
            except RaiseEx as e:
                got, stored_ok = False, len(map_keys(hm)) == 0
            run.evaluations += 1
            ok = got == want and stored_ok
            if ok:
                run.ok('D1', f'int[w={w},k={"2^w" if k == top else k if abs(k) < 70 else "~" + str(k.bit_length()) + "b" + ("-" if k < 0 else "")}]')
            else:
                nb += 1
                if nb <= 4:
                    run.fail('D1', 'HashMap.set_int_key', f'width {w}, key {k if abs(k) < 1 << 40 else hex(k)}: ' +
                             (f'{"accepted" if got else "rejected"}, must be {"accepted" if want else "rejected"}' if got != want else 'stored under a different key / map changed on rejection'),
                             w_set, witness=dict(width=w, key=str(k)))
    # round trip of an accepted boundary key shows it is not aliased: covered by D2 (keys 0 and 2^w-1 in the structured sets)
    # other key forms funnel into the same guard
    forms = []
    for w in (8, 16, 256):
        nbytes = w // 8
        forms += [
            (w, 'bytes', K(b'\xff' * nbytes), True, (1 << w) - 1),
            (w, 'bytes', K(b'\x00' * nbytes + b'\x01'), True, 1),            # longer but the value fits
            (w, 'bytes', K(b'\x01' + b'\x00' * nbytes), False, None),       # value 2^w
            (w, 'bitstr', K('1' * w), True, (1 << w) - 1),
            (w, 'bitstr', K('1' + '0' * w), False, None),
            (w, 'bitstr', K('0' * (w + 3) + '1'), True, 1),
        ]
    forms += [(256, 'hashed', K('name'), True, None), (255, 'hashed-too-wide', K('name'), None, None)]
    for w, form, key, want, kint in forms:
        it = Interp(prog)
        it.CONCRETE_HASH = True
        hm = new_map(it, prog, w)
        try:
            if form.startswith('hashed'):
                cm.call_method(it, hm, 'set', key, K(1), hash_key=K(True))
            else:
                cm.call_method(it, hm, 'set', key, K(1))
            keys = map_keys(hm)
            got = True
        except RaiseEx:
            keys, got = map_keys(hm), False
        run.evaluations += 1
        if form == 'hashed':
            import hashlib
            kint = int.from_bytes(hashlib.sha256(b'name').digest(), 'big')
        if form == 'hashed-too-wide':
            import hashlib
            kint = int.from_bytes(hashlib.sha256(b'name').digest(), 'big')
            want = kint < (1 << 255)
        ok = got == want and (not got and not keys or got and len(keys) == 1 and isinstance(keys[0], K) and keys[0].v == kint)
        run.check(ok, 'D1', f'HashMap.set[{form}]' if not ok else f'{form}[w={w},{vrepr(key)[:14]}]',
                  f'width {w}, {form} key {vrepr(key)[:24]}: {"accepted" if got else "rejected"} with map keys {[vrepr(x)[:20] for x in keys]}; expected {"accept as " + str(kint)[:20] if want else "reject"}', prog.where(HMset))
    # address keys (267 bits: addr_std$10 + no anycast + wc + hash)
    for wc, h in ((0, 0x11), (-1, (1 << 256) - 1)):
        it = Interp(prog)
        A = prog.cls('Address')
        addr = it.new_inst(A)
        addr.attrs.update(wc=K(wc), hash_part=K(h.to_bytes(32, 'big')), is_bounceable=K(True), is_test_only=K(False), is_user_friendly=K(False), is_url_safe=K(False), anycast=K(None))
        hm = new_map(it, prog, 267)
        try:
            cm.call_method(it, hm, 'set', addr, K(1))
            keys = map_keys(hm)
            want = (0b100 << 264) | ((wc & 0xFF) << 256) | h
            ok = len(keys) == 1 and isinstance(keys[0], K) and keys[0].v == want
            why = f'stored under {hex(keys[0].v)[:20] if keys and isinstance(keys[0], K) else keys}, expected the 267-bit addr_std image {hex(want)[:20]}'
        except RaiseEx as e:
            ok, why = False, f'raises {e}'
        run.check(ok, 'D1', 'HashMap.set[address]' if not ok else f'address[wc={wc}]', why, prog.where(HMset))
    # an address is a 267-bit key: a narrower dictionary must refuse it (not truncate it), a wider one stores the same 267-bit value
    for w, want in ((256, False), (266, False), (267, True), (300, True)):
        it = Interp(prog)
        addr = it.new_inst(prog.cls('Address'))
        addr.attrs.update(wc=K(0), hash_part=K(bytes(range(32))), is_bounceable=K(True), is_test_only=K(False), is_user_friendly=K(False), is_url_safe=K(False), anycast=K(None))
        hm = new_map(it, prog, w)
        try:
            cm.call_method(it, hm, 'set', addr, K(1))
            got = True
        except RaiseEx:
            got = False
        keys = map_keys(hm)
        image = (0b100 << 264) | int.from_bytes(bytes(range(32)), 'big')
        ok = got == want and (not got and not keys or got and len(keys) == 1 and isinstance(keys[0], K) and keys[0].v == image)
        run.check(ok, 'D1', 'HashMap.set[address, width]' if not ok else f'address[w={w}]', f'address key in a dictionary of width {w}: {"accepted" if got else "rejected"} with keys {[hex(k.v)[:14] if isinstance(k, K) else vrepr(k) for k in keys]}; '
                  f'must be {"stored as its 267-bit image" if want else "rejected (267 bits do not fit)"}', prog.where(HMset))
    # key_serializer route
    for ret, want in ((5, True), (256, False), (-1, False)):
        it = Interp(prog)
        hm = it.construct(prog.cls('HashMap'), [K(8)], {'key_serializer': lam(prog, f'lambda k: {ret}', 'boc.hashmap.hashmap')})
        try:
            cm.call_method(it, hm, 'set', K('anything'), K(1))
            got = True
        except RaiseEx:
            got = False
        keys = map_keys(hm)
        ok = got == want and (len(keys) == (1 if want else 0))
        run.check(ok, 'D1', 'HashMap.set[key_serializer]' if not ok else f'key_serializer->{ret}', f'serializer returning {ret} for width 8: {"accepted" if got else "rejected"}', prog.where(HMset))

    # ------------------------------------------------------------------ D2 round trips
    w_ser = prog.where(prog.func('serialize_dict'))
    families = []
    for width in ((1, 2, 3, 4) if thorough else (1, 2, 3)):
        allk = list(range(1 << width))
        for r in range(1, len(allk) + 1):
            for keys in itertools.combinations(allk, r):
                families.append((width, keys, None))
    structured = [
        (4, (0, 15)), (4, tuple(range(16))), (4, (5, 6, 7, 13)), (8, (0, 255)), (8, (254, 255)), (8, (16, 17, 18, 19)), (8, tuple(range(0, 256, 17))),
        (16, (0xFFFF,)), (16, (0,)), (16, (0x0F0F, 0x0F0E, 0xF0F0)), (32, (1, 2, 3, 1 << 31)), (64, ((1 << 64) - 1, (1 << 63))),
        (256, (0, 1)), (256, ((1 << 256) - 1,)), (267, (5 << 200, (5 << 200) + 1, 1)), (1023, (0,)), (1023, ((1 << 1023) - 1, 1 << 1022)),
        (9, (0b111111111, 0b111111110, 0)), (10, (1023, 0, 512, 511)),
    ]
    families += [(w, k, None) for w, k in structured]
    for width, keys in ((3, (1, 4, 6, 7)), (3, (0, 7, 3)), (8, (200, 3, 77, 76))):
        for perm in itertools.permutations(keys):
            if perm != tuple(sorted(keys)):
                families.append((width, keys, perm))
    readers = ('parse', 'from_cell', 'load_dict', 'preload_dict', 'load_hashmap')
    nb = 0
    jobs = []
    for idx, (width, keys, order) in enumerate(families):
        # cheap families use one reader each in turn; structured ones use all
        use = readers if ((thorough and width <= 3) or (width >= 4 and len(keys) <= 16 and not (thorough and width == 4)) or len(keys) <= 2 and order is None) else (readers[idx % len(readers)],)
        for rd in dict.fromkeys(use):
            jobs.append((width, keys, order, rd))
    import multiprocessing as mp
    nproc = min(16, mp.cpu_count())
    chunks = [(prog.pkg, jobs[i::nproc]) for i in range(nproc)]
    with mp.Pool(nproc) as pool:
        results = [r for part in pool.map(_d2_worker, chunks) for r in part]
    order_of = {j: i for i, j in enumerate(jobs)}
    results.sort(key=lambda r: order_of[r[0]])
    for (width, keys, order, rd), got in results:
        tag = f'w={width},keys={list(order or keys)[:6]}{"..." if len(keys) > 6 else ""}'
        want = [(k, VAL(k, width)) for k in sorted(keys)]
        run.evaluations += 1
        if got == 'FAIL':
            raise AnalysisError(f'round trip {tag} via {rd}: interpreter could not proceed')
        if got == want:
            run.ok('D2', f'{rd}[{tag}]', f'{len(want)} pair(s) back in ascending order' if len(keys) <= 2 else '')
        else:
            nb += 1
            if nb <= 4:
                run.fail('D2', f'HashMap round trip[{rd}]', f'{tag}: read back {str(got)[:120]}, stored {str(want)[:120]}', w_ser, witness=dict(width=width, keys=[str(k) for k in (order or keys)], reader=rd))
    # custom key deserialisers get the whole key: `width` bits, leading zeros included (the bit-string / bytes / signed key forms depend on it)
    for width, keys in ((1, (0, 1)), (3, (0, 1, 3, 6)), (8, (0, 3, 77, 200)), (16, (1, 255, 256, 40000))):
        for rd in ('parse', 'load_hashmap', 'load_dict', 'preload_dict'):
            it = Interp(prog)
            tag = f'w={width},keys={list(keys)},key_deserializer'
            try:
                hm = new_map(it, prog, width, 'uint')
                for k in keys:
                    cm.call_method(it, hm, 'set', K(k), K(VAL(k, width)))
                cell = cm.call_method(it, hm, 'serialize')
                kd, val = lam(prog, 'lambda bits: bits'), lam(prog, 'lambda v: v.load_uint(8)')
                if rd == 'parse':
                    res = it.invoke(prog.method('HashMap', 'parse'), [cm.call_method(it, cell, 'begin_parse'), K(width), kd, val], {})
                elif rd == 'load_hashmap':
                    res = cm.call_method(it, cm.call_method(it, cell, 'begin_parse'), 'load_hashmap', K(width), kd, val)
                else:
                    b = it.construct(prog.cls('Builder'), [], {})
                    cm.call_method(it, b, 'store_dict', cell)
                    res = cm.call_method(it, cm.call_method(it, cm.call_method(it, b, 'end_cell'), 'begin_parse'), rd, K(width), kd, val)

                def bits_of_key(k):
                    if isinstance(k, K) and isinstance(k.v, str):
                        return k.v
                    nat = k.native if isinstance(k, Inst) else k
                    return nat.pattern() if isinstance(nat, BA) else repr(k)
                got = [(bits_of_key(k), v.v if isinstance(v, K) else repr(v)) for k, v in zip(res.keyobj.values(), res.d.values())] if isinstance(res, DictV) else repr(res)
                want = [(format(k, f'0{width}b'), VAL(k, width)) for k in sorted(keys)]
                ok, why = got == want, f'keys handed to the deserialiser / values: {str(got)[:140]}; expected {str(want)[:140]}'
            except RaiseEx as e:
                ok, why = False, f'raises {e}'
            except Fail as e:
                raise AnalysisError(f'round trip {tag} via {rd}: {e}')
            run.check(ok, 'D2', f'HashMap round trip[{rd}, custom key deserialiser]' if not ok else f'{rd}[{tag}]', f'{tag}: {why}', w_ser, witness=dict(width=width, keys=list(keys), reader=rd))
            run.evaluations += 1
    # value serialisers
    for ser, vals, rdsrc in (('int', {1: -256, 2: 255, 6: -1}, 'lambda v: v.load_int(9)'),
                             ('coins', {0: 0, 3: 1, 7: (1 << 120) - 1}, 'lambda v: v.load_coins()'),
                             ('cell', {2: 'c0', 5: 'c1'}, None)):
        it = Interp(prog)
        try:
            hm = new_map(it, prog, 3, ser)
            cells = {}
            for k, v in vals.items():
                if ser == 'cell':
                    c = cm.new_cell(it, cm.tvm_bits(it, BA([Seg(5 + k, 'k', format(k, f'0{5 + k}b'))])), [cm.leaf(it, 0, v)])
                    cells[k] = c
                    cm.call_method(it, hm, 'set', K(k), c)
                else:
                    cm.call_method(it, hm, 'set', K(k), K(v))
            cell = cm.call_method(it, hm, 'serialize')
            if ser == 'cell':
                res = it.invoke(prog.method('HashMap', 'parse'), [cm.call_method(it, cell, 'begin_parse'), K(3)], {})
                got = []
                for k, v in zip(res.keyobj.values(), res.d.values()):
                    ck = bocrun.ckey(it, v)
                    got.append((k.v, ck[0], len(ck[2])))
                want = [(k, format(k, f'0{5 + k}b'), 1) for k in sorted(vals)]
            else:
                res = it.invoke(prog.method('HashMap', 'parse'), [cm.call_method(it, cell, 'begin_parse'), K(3), K(None), lam(prog, rdsrc)], {})
                got = [(k.v, v.v if isinstance(v, K) else repr(v)) for k, v in zip(res.keyobj.values(), res.d.values())]
                want = sorted(vals.items())
        except RaiseEx as e:
            got, want = f'raises {e}', sorted(vals.items())
        run.check(got == want, 'D2', f'HashMap round trip[{ser} values]' if got != want else f'values[{ser}]', f'{ser} values: read back {str(got)[:100]}, stored {str(want)[:100]}', w_ser)

    # values of zero width (`Hashmap n True` sets, unit values): the leaf holds nothing after its label, the value deserialiser still
    # decides what the value is
    for rd in ('parse', 'load_dict'):
        it = Interp(prog)
        keys_ = [0, 3, 5, 6]
        try:
            hm = it.construct(prog.cls('HashMap'), [K(3)], {'value_serializer': lam(prog, 'lambda src, dest: dest', 'boc.hashmap.hashmap')})
            for k_ in keys_:
                cm.call_method(it, hm, 'set', K(k_), K(True))
            cell = cm.call_method(it, hm, 'serialize')
            unit = lam(prog, 'lambda v: True')
            if rd == 'parse':
                res = it.invoke(prog.method('HashMap', 'parse'), [cm.call_method(it, cell, 'begin_parse'), K(3), K(None), unit], {})
            else:
                b_ = it.construct(prog.cls('Builder'), [], {})
                cm.call_method(it, b_, 'store_dict', cell)
                res = cm.call_method(it, cm.call_method(it, cm.call_method(it, b_, 'end_cell'), 'begin_parse'), 'load_dict', K(3), K(None), unit)
            got = [(k.v, v.v if isinstance(v, K) else repr(v)) for k, v in zip(res.keyobj.values(), res.d.values())] if isinstance(res, DictV) else repr(res)
        except RaiseEx as e:
            got = f'raises {e}'
        want = [(k_, True) for k_ in keys_]
        run.check(got == want, 'D2', f'HashMap round trip[values of zero width, {rd}]' if got != want else f'values[zero width,{rd}]',
                  f'unit values (nothing stored after the label), read with `lambda v: True` through {rd}: {str(got)[:100]}, stored {want}', w_ser)
        run.evaluations += 1

    # ------------------------------------------------------------------ D5 histories and positions
    run.rule('D5', 'serialize() reflects the map as it is now (after any setter, after a change of value serialiser); a dictionary stored behind other references / other dictionaries is the one read back', 7)
    rd8 = 'lambda v: v.load_uint(8)'
    rd16 = 'lambda v: v.load_uint(16)'

    def parsed_pairs(it, cell, rdsrc):
        res = it.invoke(prog.method('HashMap', 'parse'), [cm.call_method(it, cell, 'begin_parse'), K(4), K(None), lam(prog, rdsrc)], {})
        return [(k.v, v.v if isinstance(v, K) else repr(v)) for k, v in zip(res.keyobj.values(), res.d.values())]
    for mut in ('set', 'set_int_key'):
        for what, (k2, v2) in (('new key', (9, 90)), ('overwritten value', (3, 33))):
            it = Interp(prog)
            hm = new_map(it, prog, 4)
            for k, v in ((3, 30), (12, 120)):
                cm.call_method(it, hm, 'set', K(k), K(v))
            try:
                first = parsed_pairs(it, cm.call_method(it, hm, 'serialize'), rd8)
                cm.call_method(it, hm, mut, K(k2), K(v2))
                got = parsed_pairs(it, cm.call_method(it, hm, 'serialize'), rd8)
            except RaiseEx as e:
                first, got = None, f'raises {e}'
            want = sorted({3: 30, 12: 120, k2: v2}.items())
            run.evaluations += 1
            run.check(got == want, 'D5', 'HashMap.serialize[after a change]' if got != want else f'serialize; {mut}({what}); serialize',
                      f'serialize(), {mut}({k2}, {v2}) [{what}], serialize(): the second cell holds {str(got)[:90]}, the map is {want}', prog.where(prog.method('HashMap', 'serialize')))
    it = Interp(prog)
    hm = new_map(it, prog, 4)
    cm.call_method(it, hm, 'set', K(5), K(200))
    try:
        cm.call_method(it, hm, 'serialize')
        cm.call_method(it, hm, 'with_uint_values', K(16))
        got = parsed_pairs(it, cm.call_method(it, hm, 'serialize'), rd16)
    except RaiseEx as e:
        got = f'raises {e}'
    run.check(got == [(5, 200)], 'D5', 'HashMap.serialize[after a change]' if got != [(5, 200)] else 'serialize; with_uint_values(16); serialize',
              f'after switching the value serialiser to 16 bits the cell reads back as {str(got)[:80]} with a 16-bit reader (stored {{5: 200}})', prog.where(prog.method('HashMap', 'serialize')))
    # a dictionary that is not the first reference of its cell
    for rd in ('load_dict', 'preload_dict'):
        it = Interp(prog)
        A_, B_ = new_map(it, prog, 4), new_map(it, prog, 4)
        cm.call_method(it, A_, 'set', K(1), K(11))
        cm.call_method(it, B_, 'set', K(2), K(22))
        cm.call_method(it, B_, 'set', K(7), K(77))
        b = it.construct(prog.cls('Builder'), [], {})
        plain = cm.new_cell(it, cm.tvm_bits(it, BA([Seg(3, 'k', '101')])), [])
        cm.call_method(it, b, 'store_ref', plain)
        cm.call_method(it, b, 'store_dict', cm.call_method(it, A_, 'serialize'))
        cm.call_method(it, b, 'store_dict', cm.call_method(it, B_, 'serialize'))
        s_ = cm.call_method(it, cm.call_method(it, b, 'end_cell'), 'begin_parse')
        val = lam(prog, rd8)
        try:
            cm.call_method(it, s_, 'load_ref')
            r1 = cm.call_method(it, s_, rd, K(4), K(None), val)
            if rd == 'preload_dict':
                cm.call_method(it, s_, 'load_dict', K(4), K(None), val)
            r2 = cm.call_method(it, s_, rd, K(4), K(None), val)
            got = [[(k.v, v.v if isinstance(v, K) else repr(v)) for k, v in zip(r.keyobj.values(), r.d.values())] if isinstance(r, DictV) else repr(r) for r in (r1, r2)]
        except RaiseEx as e:
            got = f'raises {e}'
        want = [[(1, 11)], [(2, 22), (7, 77)]]
        run.evaluations += 1
        run.check(got == want, 'D5', f'Slice.{rd}[dictionary behind other references]' if got != want else f'{rd}: second and third reference of a cell',
                  f'cell = ^plain, dict A, dict B; after load_ref: {rd} gives {str(got)[:120]}, stored {want}', prog.where(prog.method('Slice', rd)))

    # ------------------------------------------------------------------ D3 length bookkeeping (symbolic key length)
    check_lengths(run, prog)

    # ------------------------------------------------------------------ D4 empty map
    it = Interp(prog)
    hm = new_map(it, prog, 8)
    r = cm.call_method(it, hm, 'serialize')
    run.check(isinstance(r, K) and r.v is None, 'D4', 'HashMap.serialize[empty]', f'empty map serialises to {vrepr(r)[:30]} (must be None)', prog.where(prog.method('HashMap', 'serialize')))
    it = Interp(prog)
    hm = it.construct(prog.cls('HashMap'), [K(8)], {})       # no value serialiser configured
    r = cm.call_method(it, hm, 'serialize')
    run.check(isinstance(r, K) and r.v is None, 'D4', 'HashMap.serialize[empty, default serialiser]', f'empty map serialises to {vrepr(r)[:30]} (must be None)', prog.where(prog.method('HashMap', 'serialize')))
    for rd in ('load_dict', 'preload_dict'):
        it = Interp(prog)
        b = it.construct(prog.cls('Builder'), [], {})
        cm.call_method(it, b, 'store_dict', K(None))
        cm.call_method(it, b, 'store_uint', K(5), K(3))
        segs = ''.join(s.val for s in segs_of(b))
        nrefs = len(it.getattr(b, 'refs').items)
        run.check(segs == '0101' and nrefs == 0, 'D4', 'Builder.store_dict[None]' if not (segs == '0101' and nrefs == 0) else f'store_dict(None)/{rd}', f'store_dict(None) wrote {segs[:-3]!r} and {nrefs} reference(s) (must be "0", none)', prog.where(prog.method('Builder', 'store_dict')))
        s = cm.call_method(it, cm.call_method(it, b, 'end_cell'), 'begin_parse')
        try:
            r = cm.call_method(it, s, rd, K(8))
            left = it.getattr(s, 'remaining_bits')
            want_left = 3 if rd == 'load_dict' else 4
            ok = isinstance(r, K) and r.v is None and isinstance(left, K) and left.v == want_left
            why = f'returned {vrepr(r)[:30]}, {vrepr(left)} bits left (expected None, {want_left})'
        except RaiseEx as e:
            ok, why = False, f'raises {e}'
        run.check(ok, 'D4', f'Slice.{rd}[empty]', why, prog.where(prog.method('Slice', rd)))


def _d2_worker(arg):
    pkg, jobs = arg
    sys.setrecursionlimit(20000)
    prog = Program(pkg)
    out = []
    for width, keys, order, rd in jobs:
        it = Interp(prog)
        try:
            hm = new_map(it, prog, width)
            for k in (order or keys):
                cm.call_method(it, hm, 'set', K(k), K(VAL(k, width)))
            cell = cm.call_method(it, hm, 'serialize')
            got = read_back(it, prog, cell, width, rd)
        except RaiseEx as e:
            got = f'raises {e}'
        except Fail as e:
            got = 'FAIL'
        out.append(((width, keys, order, rd), got))
    return out


def read_back(it, prog, cell, width, rd):
    val = lam(prog, 'lambda v: v.load_uint(8)')
    if rd == 'parse':
        res = it.invoke(prog.method('HashMap', 'parse'), [cm.call_method(it, cell, 'begin_parse'), K(width), K(None), val], {})
    elif rd == 'load_hashmap':
        res = cm.call_method(it, cm.call_method(it, cell, 'begin_parse'), 'load_hashmap', K(width), K(None), val)
    elif rd == 'from_cell':
        hm2 = it.call(it.getattr(prog.cls('HashMap'), 'from_cell'), [cell, K(width)], {})
        m = hm2.attrs['map']
        out = []
        for k, v in zip(m.keyobj.values(), m.d.values()):
            r = cm.call_method(it, v, 'load_uint', K(8))
            left = it.getattr(v, 'remaining_bits')
            out.append((k.v if isinstance(k, K) else repr(k), r.v if isinstance(r, K) and isinstance(left, K) and left.v == 0 else f'{vrepr(r)}+{vrepr(left)}'))
        sz = hm2.attrs.get('size')
        if not (isinstance(sz, K) and sz.v == width):
            return f'from_cell produced a map of width {vrepr(sz)}'
        return out
    else:
        b = it.construct(prog.cls('Builder'), [], {})
        cm.call_method(it, b, 'store_dict', cell)
        s = cm.call_method(it, cm.call_method(it, b, 'end_cell'), 'begin_parse')
        res = cm.call_method(it, s, rd, K(width), K(None), val)
        left, lrefs = it.getattr(s, 'remaining_bits'), it.getattr(s, 'remaining_refs')
        want = (0, 0) if rd == 'load_dict' else (1, 1)
        if not (isinstance(left, K) and isinstance(lrefs, K) and (left.v, lrefs.v) == want):
            return f'{rd} left {vrepr(left)} bits / {vrepr(lrefs)} refs, expected {want}'
    if not isinstance(res, DictV):
        return repr(res)
    return [(k.v if isinstance(k, K) else repr(k), v.v if isinstance(v, K) else repr(v)) for k, v in zip(res.keyobj.values(), res.d.values())]


def check_lengths(run, prog):
    """D3: interpret the reader's edge step with a symbolic key length and a concrete short label; and the writer's
    write_edge with a symbolic key size: the child length must be (len - n) - 1"""
    from ..interp import as_poly
    parse = prog.func('parse', module='boc.hashmap.parse')
    wp = prog.where(parse)
    seen = []

    def child_slice(v):
        """a Slice over one of the two child cells of the fixture (recognised by the cells' own data, whatever function receives it)"""
        if not (isinstance(v, Inst) and v.cls is not None and v.cls.name == 'Slice'):
            return False
        bits = v.attrs.get('bits')
        nat = bits.native if isinstance(bits, Inst) else bits
        return isinstance(nat, BA) and any(isinstance(sg.val, Sym) and isinstance(sg.val.key, tuple) and sg.val.key[:1] == ('databits',) and sg.val.key[1] in ('l', 'r')
                                           for sg in nat.segs)

    class Probe(Interp):
        def invoke(self, f, args, kw):
            # the descent into a child: whichever function of the parser module is handed the child's slice together with a key length
            if self.depth >= 1 and f.module == 'boc.hashmap.parse' and any(child_slice(a) for a in args):
                lens = [a for a in list(args) + list(kw.values()) if isinstance(a, PInt) or (isinstance(a, K) and isinstance(a.v, int) and not isinstance(a.v, bool))]
                if lens:
                    seen.append(lens[0])
                    return K(None)
            return super().invoke(f, args, kw)
    for aug in (False, True):
        for lab in ('', '1', '010'):
            seen.clear()
            it = Probe(prog)
            enc = '0' + '1' * len(lab) + '0' + lab          # hml_short
            leafs = [cm.leaf(it, 3, 'l'), cm.leaf(it, 3, 'r')]
            cell = cm.new_cell(it, cm.tvm_bits(it, BA([Seg(len(enc) + 4, 'k', enc + '1010')])), leafs)
            s = cm.call_method(it, cell, 'begin_parse')
            L = atom('L')
            # L is a key length > len(lab): decide comparisons on it
            it.decided[('eq0', repr(Poly.var('L') - Poly.const(len(lab))))] = False
            try:
                if aug:
                    it.invoke(prog.func('parse_aug', module='boc.hashmap.parse'), [s, L, DictV(), ListV([]), BA(), lam(prog, 'lambda s: s'), lam(prog, 'lambda s: s.load_uint(4)')], {})
                else:
                    it.invoke(parse, [s, L, DictV(), BA()], {})
            except RaiseEx as e:
                run.fail('D3', f'parse{"_aug" if aug else ""}[symbolic length]', f'label {lab!r}: {type(e).__name__} {e}', wp)
                continue
            except Fail as e:
                # the reader does not descend by handing the child's slice to a function together with the remaining key length (an explicit
                # work stack, ...): nothing to observe at call boundaries; the key lengths it uses are decided by the round trips of D2 and by
                # C10.D4 on every small width (where every step changes a field width)
                run.info(f'parse{"_aug" if aug else ""}[label {lab!r}]: symbolic key length not observable at call boundaries ({str(e)[:60]}) - decided by D2 / C10.D4')
                run.ok('D3', f'reader{"_aug" if aug else ""}[label {lab!r}] (not observable)')
                continue
            want = Poly.var('L') - Poly.const(len(lab) + 1)
            if not seen:
                run.info(f'parse{"_aug" if aug else ""}[label {lab!r}]: no descent observed at call boundaries - decided by D2 / C10.D4')
                run.ok('D3', f'reader{"_aug" if aug else ""}[label {lab!r}] (not observable)')
                continue
            ok = len(seen) == 2 and all(as_poly(x) == want for x in seen)
            run.check(ok, 'D3', f'reader{"_aug" if aug else ""}[label {lab!r}]' if ok else f'parse{"_aug" if aug else ""}[child length]',
                      f'children parsed with key lengths {[vrepr(x) for x in seen]}, expected 2 x (L - {len(lab) + 1})', wp)
    # writer side: the tree builder strips label + 1 bit per level: checked on the complete small-width families by D2/C10.D3;
    # here the symbolic statement for write_edge: key_size passed down == key_size - len(label) - 1
    we = prog.func('write_edge', required=False) or prog.func('serialize_edge', required=False)
    if we is None:
        raise AnalysisError('anchor write_edge not found')
    seen2 = []

    class ProbeW(Interp):
        def invoke(self, f, args, kw):
            if f.name == we.name and self.depth >= 1:
                seen2.append([a for a in args if isinstance(a, (PInt, K)) and (isinstance(a, PInt) or isinstance(a.v, int))])
                return K(None)
            return super().invoke(f, args, kw)
    for lab in ('', '1', '0110'):
        seen2.clear()
        it = ProbeW(prog)
        leaf = DictV({'label': K('1'), 'node': DictV({'type': K('leaf'), 'value': K(1)})})
        node = DictV({'type': K('fork'), 'left': leaf, 'right': leaf})
        edge = DictV({'label': K(lab), 'node': node})
        for d in (leaf, node, edge, leaf.d['node']):
            d.keyobj = {k: K(k) for k in d.d}
        bt = prog.func('build_tree', required=False)
        if bt is not None:
            # the tree in whatever form the code itself builds it (tagged dictionaries, records ...): two keys that share exactly `lab`
            src_ = DictV()
            for tail_bit in '01':
                kint = int(lab + tail_bit + '1' * (19 - len(lab)), 2)
                src_.d[kint] = K(1)
                src_.keyobj[kint] = K(kint)
            try:
                edge = super(ProbeW, it).invoke(bt, [src_, K(20)], {})
            except (RaiseEx, Fail) as e:
                raise AnalysisError(f'write_edge probe: build_tree on a two-key map: {e}')
        b = it.construct(prog.cls('Builder'), [], {})
        S = atom('S')
        # S is large: decisions about bit_length(S) are irrelevant to the child size; fix the label kind computations by summarising detect_label_type
        params = [a.arg for a in we.node.args.args]
        try:
            args = []
            for p in params:
                if 'size' in p or 'len' in p:
                    args.append(K(20))
                elif p in ('to', 'builder', 'dest'):
                    args.append(b)
                elif 'ser' in p:
                    args.append(lam(prog, 'lambda src, dest: dest.store_uint(src, 8)', 'boc.hashmap.utils'))
                else:
                    args.append(edge)
            it.invoke(we, args, {})
        except (RaiseEx, Fail) as e:
            run.fail('D3', 'write_edge[child length]', f'label {lab!r}: {type(e).__name__} {e}', prog.where(we))
            continue
        sizes = [x[0].v for x in seen2 if x and isinstance(x[0], K)]
        if not seen2:
            # the writer does not descend by calling itself (an explicit work stack, ...): nothing to observe at call boundaries; the key
            # sizes it hands down are decided by the round trips of D2 and the canonical trees of C10.D3 (every small width, where every step changes a field width)
            run.info(f'write_edge[label {lab!r}]: no recursive descent to observe - child key sizes are decided by D2 / C10.D3')
            run.ok('D3', f'writer[label {lab!r}] (not recursive)')
            continue
        ok = sizes == [20 - len(lab) - 1] * 2
        run.check(ok, 'D3', f'writer[label {lab!r}]' if ok else 'write_edge[child length]', f'children written with key size {sizes}, expected 2 x {20 - len(lab) - 1}', prog.where(we))
