"""Helpers shared by the cell / builder / slice rules: abstract inputs for the interpreter and the specification side
(tvm.pdf 3.1.4-3.1.7, DataCell.cpp) transcribed independently of the code under analysis."""
from .values import *
from .interp import Interp, Oracle
from .front import FuncRef
from . import models


def data_bits(n, name='data'):
    """n unknown data bits"""
    return BA([Seg(n, '?', Sym(name, ty='bits', n=n, key=('databits', name, n)))] if n else [])


def tvm_bits(it, ba):
    """wrap a BA in an instance of the package's TvmBitarray (without running its __new__)"""
    cls = it.prog.cls('TvmBitarray')
    inst = Inst(cls, native=ba)
    inst.attrs['_size'] = K(1023)
    return inst


def plain_bits(ba):
    return ba


def new_cell(it, bits, refs, type_=-1):
    """interpret the real constructor Cell(bits, refs, type_)"""
    return it.construct(it.prog.cls('Cell'), [bits, ListV(list(refs)), K(type_)], {})


def leaf(it, n=0, name='leaf'):
    return new_cell(it, tvm_bits(it, data_bits(n, name)), [])


def forge_ordinary_child(it, i, depth=None, hash_=None):
    """an ordinary level-0 cell built by the real constructor, then given an opaque hash and a chosen depth"""
    c = leaf(it, 0, f'child{i}')
    h = hash_ if hash_ is not None else Sym(f'H{i}', ty='bytes', n=32, key=('childhash', i))
    c.attrs['_hashes'] = ListV([h])
    c.attrs['_hash'] = h
    d = depth if depth is not None else atom(f'd{i}')
    c.attrs['_depths'] = ListV([d if not isinstance(d, int) else K(d)])
    return reforge(it, c)


def reforge(it, c):
    """after a fixture has replaced the hashes / depths / level mask a constructor-built cell caches, the statements of Cell.__init__ that
    follow the hash computation are executed again on it, so that whatever else the constructor derives from them (descriptor bytes, the
    top hash, per-level tables a maintainer may add) is consistent with the forged values - the fixture does not depend on how the class
    caches what it derives"""
    import ast as _ast
    from .interp import Frame
    cls = it.prog.cls('Cell')
    owner, fn = it.prog.find_method(cls, '__init__')
    if fn is None:
        return c

    def touches(st):
        for x in _ast.walk(st):
            if isinstance(x, _ast.Attribute) and isinstance(x.value, _ast.Name) and x.value.id == 'self':
                if x.attr == 'calculate_hashes' or (x.attr in ('_hashes', '_depths') and isinstance(x.ctx, _ast.Store)):
                    return True
        return False
    idx = max([i for i, st in enumerate(fn.body) if touches(st)], default=None)
    if idx is None:
        return c
    fr = Frame(owner.module, None, FuncRef(fn, owner.module, owner), owner)
    names = [a.arg for a in fn.args.args]
    fr.vars[names[0]] = c
    guess = {'bits': 'bits', 'refs': 'refs', 'cell_type': 'type_', 'type_': 'type_'}
    for nm in names[1:]:
        if guess.get(nm) in c.attrs:
            fr.vars[nm] = c.attrs[guess[nm]]
    try:
        for st in fn.body[idx + 1:]:
            it.stmt(st, fr)
    except (Fail, ReturnEx):
        pass
    return c


def call_method(it, obj, name, *args, **kw):
    return it.call(it.getattr(obj, name), list(args), dict(kw))


# ---------------------------------------------------------------- specification side
def spec_d1(r, exotic, mask):
    return r + 8 * (1 if exotic else 0) + 32 * mask


def spec_d2(b):
    return b // 8 + (b + 7) // 8


def spec_padding(b):
    """bits appended to b data bits before hashing / serialisation"""
    return '' if b % 8 == 0 else '1' + '0' * (7 - b % 8)


def flatten_bytes(parts):
    """list of abstract byte-string pieces -> list of ('k', int byte) / ('t', term)"""
    out = []
    for p in parts:
        if isinstance(p, K) and isinstance(p.v, (bytes, bytearray)):
            out += [('k', x) for x in p.v]
        elif isinstance(p, Term) and p.op == 'cat':
            out += flatten_bytes(list(p.a))
        elif type(p).__name__ == 'Rope':
            out += flatten_bytes([v for v, _ in p.parts])       # one buffer assembled from the same pieces
        else:
            out.append(('t', p))
    return out


def data_term_ok(t, b, name=None):
    """is `t` the byte string of b unknown data bits followed by the completion tag?"""
    if b == 0:
        return False
    if not (isinstance(t, Term) and t.op == 'tobytes'):
        return False
    ba = t.a[2].ba
    want = '?' * b + spec_padding(b)
    if ba.pattern() != want:
        return False
    # the unknown part must be the cell's own data, in order, unsliced
    segs = [s for s in ba.segs if s.kind != 'k']
    return len(segs) == 1 and segs[0].n == b
