"""C11 - Merkle proof checks: what must be compared with what, on every path.

The three checkers in proof/check_proof.py are abstractly interpreted on cells built by the package's own constructor
(interpreted too) whose hashes are opaque 32-byte symbols.  An equality between two different symbols is an undecided
condition, so every way through a checker is enumerated; the verdict is read off each path:

  * an ACCEPTING path must have decided *all* the equalities the specification demands, each between the right two
    quantities (stored virtual hash of the Merkle-proof cell, level-0 hash of its child, expected hash; the CLAIMED account
    state is compared through its own representation hash - a pruned branch that merely carries the hash has a different one);
  * every other path must raise, and nothing may be returned before the comparisons.

D1 check_proof   D2 check_block_header_proof (incl. state hash from reference path [2][1])   D3 check_account_proof
(PROOF cells = derived from Cell.from_boc(proof), CLAIM cell = caller supplied)   D4 check_shard_proof early exits.
Completeness (valid proofs accepted) is covered as far as: the all-equal path of every scenario is accepting.
"""
import ast
from ..core import AnalysisError
from ..front import Program, FuncRef
from ..interp import Interp, run_paths
from ..values import *
from ..rope import Rope, install
from .. import cellmodel as cm
from .. import bocrun

MANIFEST = dict(
    technique='abstract interpretation of check_proof / check_block_header_proof / check_account_proof on constructor-built cells with symbolic hashes; path enumeration: set of decided hash equalities on every accepting path vs specification, all other paths raise; provenance (proof-derived vs claimed) of compared hashes',
    text='Decides for every cell-type case and every outcome of every hash comparison that a proof is accepted only on paths that established: cell is a Merkle proof, its stored hash '
         '= expected, its child\'s level-0 hash = expected (generic check); root level-0 hash = block hash and the returned state hash is that of reference [2][1] (header check); '
         'two roots, header check passed, state root level-0 hash = state hash from the header, proved account cell level-0 hash = REPRESENTATION hash of the claimed state (account check). '
         'The all-equal path of every scenario accepts. Concrete pruned trees (completeness for all prunings) rest on C02.'
         ' Completeness ingredients: level-mask union of ordinary cells and level selection of get_hash/get_depth for every mask and level.'
         ' A claimed state that is an ordinary cell above a pruned part (level 1, not exotic: equal level-0 hash, different representation hash) is rejected like the pruned branch is.'
         ' Claimed states without data bits (the empty cell, a bare reference holder) are compared like any other.',
    note='trusted: interpreter, rope model, SHA-256 terms distinct unless identical. ShardStateUnsplit.deserialize is summarised (its conformance is C16). Not decided: completeness for arbitrary concrete prunings.',
    design_ref='DESIGN.md section 4 C11')

ORD, PRUNED, LIB, PROOF, UPDATE = -1, 1, 2, 3, 4


def sym32(name):
    return Sym(name, ty='bytes', n=32, key=('h', name))


def bits_of_bytes(b):
    return ''.join(format(x, '08b') for x in b)


def ordinary(it, name, refs=(), h=None):
    """ordinary cell built by the real constructor, then given an opaque representation hash"""
    c = cm.new_cell(it, cm.tvm_bits(it, BA([Seg(8, 'k', '10100101')])), list(refs))
    hh = h if h is not None else sym32('H_' + name)
    n = len(cm.cached(it, c, '_hashes').items)          # one hash per significant level (more than one above pruned branches)
    c.attrs['_hashes'] = ListV([hh] + [sym32(f'H_{name}@{k}') for k in range(1, n)])
    c.attrs['_hash'] = cm.cached(it, c, '_hashes').items[-1]
    cm.reforge(it, c)
    cm.shadow_lookups(it, c)
    c.l0 = hh
    c.tag = name
    return c


def pruned(it, name, stored):
    """pruned branch (level mask 1) carrying `stored` as the level-0 hash of the sub-tree it stands for"""
    ba = BA([Seg(16, 'k', bits_of_bytes(bytes([1, 1]))), Seg(256, 'b', stored), Seg(16, 'k', format(7, '016b'))])
    c = cm.new_cell(it, cm.tvm_bits(it, ba), [], PRUNED)
    c.tag = name
    return c


def depth0(it, c):
    d = cm.call_method(it, c, 'get_depth', K(0))
    if not (isinstance(d, K) and isinstance(d.v, int)):
        raise AnalysisError(f'fixture: level-0 depth of {getattr(c, "tag", "?")} is {vrepr(d)}')
    return d.v


def merkle_proof(it, name, stored, child):
    # a well-formed proof cell stores the level-0 depth of the attached tree next to its hash (a parser may check that as well)
    ba = BA([Seg(8, 'k', format(3, '08b')), Seg(256, 'b', stored), Seg(16, 'k', format(depth0(it, child), '016b'))])
    c = cm.new_cell(it, cm.tvm_bits(it, ba), [child], PROOF)
    c.tag = name
    return c


def merkle_update(it, name, old, new, stored_new=None):
    ba = BA([Seg(8, 'k', format(4, '08b')), Seg(256, 'b', sym32('U_old')), Seg(256, 'b', stored_new if stored_new is not None else sym32('U_new')),
             Seg(32, 'k', format(depth0(it, old), '016b') + format(depth0(it, new), '016b'))])
    c = cm.new_cell(it, cm.tvm_bits(it, ba), [old, new], UPDATE)
    c.tag = name
    return c


def library(it, name):
    ba = BA([Seg(8, 'k', format(2, '08b')), Seg(256, 'b', sym32('LIBH'))])
    return cm.new_cell(it, cm.tvm_bits(it, ba), [], LIB)


def eq_decided(it, x, y):
    """was  x == y  decided on this path?  -> True / False / None ; identical terms count as decided-equal"""
    kx, ky = repr(it.vkey(x)), repr(it.vkey(y))
    if kx == ky:
        return True
    a, b = sorted([kx, ky])
    return it.decided.get(('eq', a, b))


def mk(prog):
    it = install(Interp(prog))
    it.INJECTIVE_KEYS = True
    return it


def check(run):
    prog = Program()
    run.explanation = 'proof checkers interpreted on constructor-built cells with symbolic hashes; each accepting path must have decided every required equality between the right quantities.'
    run.rule('D1', 'check_proof accepts only a Merkle-proof cell whose stored hash and whose child\'s level-0 hash both equal the expected hash; everything else raises', 12)
    run.rule('D2', 'check_block_header_proof accepts only when the root level-0 hash equals the block hash; the state hash it returns is committed by that hash (occurs in its term)', 8)
    run.rule('D3', 'check_account_proof: two roots; header proof; state root hash = header state hash; proved account level-0 hash = representation hash of the CLAIMED state', 8)
    run.rule('D4', 'check_shard_proof returns early only for identical block ids; wrong workchain / root count / block info / state hash raise', 4)
    run.rule('D0', 'completeness ingredients: what the checks compare is the specified hash - an ordinary cell above pruned sub-trees carries the union of its children\'s level masks in d1, and get_hash(l) / get_depth(l) of a cell with level mask m select stored entry popcount(m & (2^l - 1))', 60)
    run.trust('CPython ast', 'checker interpreter', 'sa/rope.py', 'distinct SHA-256 terms denote distinct digests')
    run.exhaustive = True
    from .C02 import ordinary_mask_union, mk_child
    wcell = prog.where(prog.method('Cell', '__init__'))
    ordinary_mask_union(run, prog, 'D0', wcell)
    for m in range(8):
        it0 = Interp(prog)
        kid = mk_child(it0, 0, m)
        for l in range(4):
            want = bin(m & ((1 << l) - 1)).count('1')
            try:
                h = cm.call_method(it0, kid, 'get_hash', K(l))
                d = cm.call_method(it0, kid, 'get_depth', K(l))
                good = h is cm.cached(None, kid, '_hashes').items[want] and d is cm.cached(None, kid, '_depths').items[want]
                why = f'get_hash -> {vrepr(h)[:20]}, get_depth -> {vrepr(d)[:12]}; specification: stored entry {want}'
            except RaiseEx as e:
                good, why = False, f'raises {e}'
            run.check(good, 'D0', 'Cell.get_hash/get_depth[level selection]' if not good else f'level-select[mask={m:03b},l={l}]', f'cell with level mask {m:03b}, level {l}: {why}', wcell)
            run.evaluations += 1
    f_cp = prog.func('check_proof')
    f_hdr = prog.func('check_block_header_proof')
    f_acc = prog.func('check_account_proof')
    f_shard = prog.func('check_shard_proof')
    w1, w2, w3 = prog.where(f_cp), prog.where(f_hdr), prog.where(f_acc)

    # ------------------------------------------------------------------ D1 generic check
    E = sym32('E')
    shapes = {
        'proof over ordinary child': lambda it: (lambda ch: (merkle_proof(it, 'mp', sym32('D'), ch), sym32('D'), ch.l0))(ordinary(it, 'child')),
        'proof over pruned child': lambda it: (lambda ch: (merkle_proof(it, 'mp', sym32('D'), ch), sym32('D'), sym32('S')))(pruned(it, 'pchild', sym32('S'))),
        'proof with matching stored hash': lambda it: (lambda ch: (merkle_proof(it, 'mp', E, ch), E, ch.l0))(ordinary(it, 'child')),
        'proof fully matching': lambda it: (lambda ch: (merkle_proof(it, 'mp', E, ch), E, E))(ordinary(it, 'child', h=E)),
    }
    for name, build in shapes.items():
        npaths = nacc = 0

        def one(orc, build=build):
            it = mk(prog)
            it.oracle = orc
            cell, stored, child_l0 = build(it)
            n0 = len(it.pathcond)
            try:
                r = it.invoke(f_cp, [cell, E], {})
                return ('accept', r, it, stored, child_l0)
            except RaiseEx as e:
                return ('raise', e, it, stored, child_l0)
        for (kind, res, it, stored, child_l0), desc in run_paths(one, 64):
            npaths += 1
            run.evaluations += 1
            if kind == 'accept':
                nacc += 1
                a, b = eq_decided(it, stored, E), eq_decided(it, child_l0, E)
                ok = a is True and b is True
                run.check(ok, 'D1', 'check_proof[accepting path]' if not ok else f'{name}|accept', f'{name}: accepted with stored-hash==expected {a}, child level-0 hash==expected {b} (path {desc or "-"})', w1)
            else:
                ok = res.kind == 'ProofError'
                run.check(ok, 'D1', 'check_proof[rejecting path]' if not ok else f'{name}|reject[{desc[:40]}]', f'{name}: raises {res.kind} on path {desc}', w1)
        run.check(nacc >= 1, 'D1', 'check_proof[completeness]' if nacc < 1 else f'{name}|all-equal path accepts', f'{name}: {nacc} accepting path(s) of {npaths}', w1)
    for tname, mkcell in (('ordinary', lambda it: ordinary(it, 'o', [ordinary(it, 'k', h=E)], h=E)), ('pruned branch', lambda it: pruned(it, 'p', E)),
                          ('library', lambda it: library(it, 'l')), ('merkle update', lambda it: merkle_update(it, 'u', ordinary(it, 'a', h=E), ordinary(it, 'b', h=E)))):
        def one(orc, mkcell=mkcell):
            it = mk(prog)
            it.oracle = orc
            try:
                it.invoke(f_cp, [mkcell(it), E], {})
                return 'accept'
            except RaiseEx as e:
                return e.kind
        outs = [o for o, _ in run_paths(one, 64)]
        run.evaluations += len(outs)
        ok = all(o == 'ProofError' for o in outs)
        run.check(ok, 'D1', 'check_proof[cell type]' if not ok else f'not a Merkle proof: {tname}', f'{tname} cell carrying the expected hash everywhere: outcomes {sorted(set(outs))}', w1)

    # ------------------------------------------------------------------ D2 header check
    # cells are NOT forged here: their hashes are the constructor's own SHA-256 terms, so "the returned state hash is committed by the checked
    # block hash" is decidable as: the returned value occurs inside the term of the root's level-0 hash (or was decided equal to something that does)
    B = sym32('B')

    def pruned_n(it, mask, stored, name):
        k = bin(mask).count('1')
        ba = BA([Seg(16, 'k', bits_of_bytes(bytes([1, mask])))] + [Seg(256, 'b', h) for h in stored] + [Seg(16, 'k', format(3 + i, '016b')) for i in range(k)])
        return cm.new_cell(it, cm.tvm_bits(it, ba), [], PRUNED)

    def upd_cell(it, old, new, stored_new):
        ba = BA([Seg(8, 'k', format(4, '08b')), Seg(256, 'b', sym32('UOLD')), Seg(256, 'b', stored_new), Seg(32, 'k', format(0, '032b'))])
        return cm.new_cell(it, cm.tvm_bits(it, ba), [old, new], UPDATE)

    def occurs(it, needle, hay, depth=0):
        if depth > 60:
            return False
        if repr(it.vkey(needle)) == repr(it.vkey(hay)):
            return True
        if isinstance(hay, Term):
            return any(occurs(it, needle, a, depth + 1) for a in hay.a)
        if isinstance(hay, Rope):
            return any(occurs(it, needle, v, depth + 1) for v, _ in hay.parts)
        if isinstance(hay, ListV):
            return any(occurs(it, needle, v, depth + 1) for v in hay.items)
        return False
    header_cases = {
        'consistent update (new child pruned, mask 1)': lambda it: (lambda S: upd_cell(it, pruned_n(it, 1, [sym32('SO')], 'old'), pruned_n(it, 1, [S], 'new'), S))(sym32('NEWSTATE')),
        'forged new child (pruned, mask 3: level-1 hash as committed, level-0 hash arbitrary)': lambda it: upd_cell(it, pruned_n(it, 1, [sym32('SO')], 'old'), pruned_n(it, 3, [sym32('ARBITRARY'), sym32('S1')], 'new'), sym32('NEWSTATE')),
        'forged new child (ordinary cell)': lambda it: upd_cell(it, pruned_n(it, 1, [sym32('SO')], 'old'), cm.new_cell(it, cm.tvm_bits(it, BA([Seg(8, 'k', '11111111')])), []), sym32('NEWSTATE')),
    }
    for cname, mkupd in header_cases.items():
        for store in (False, True):
            nacc = 0

            def one(orc, mkupd=mkupd, store=store):
                it = mk(prog)
                it.oracle = orc
                upd = mkupd(it)
                leafc = lambda n: cm.new_cell(it, cm.tvm_bits(it, BA([Seg(8, 'k', format(n, '08b'))])), [])
                root = cm.new_cell(it, cm.tvm_bits(it, BA([Seg(32, 'k', format(0x11ef55aa, '032b'))])), [leafc(1), leafc(2), upd, leafc(3)])
                l0 = cm.call_method(it, root, 'get_hash', K(0))
                try:
                    r = it.invoke(f_hdr, [root, B, K(store)], {})
                    return ('accept', r, it, l0)
                except RaiseEx as e:
                    return ('raise', e, it, l0)
            for (kind, res, it, l0), desc in run_paths(one, 64):
                run.evaluations += 1
                tag = f'{cname}, store_state_hash={store}'
                if kind == 'accept':
                    nacc += 1
                    a = eq_decided(it, l0, B)
                    if not store:
                        ok = a is True and isinstance(res, K) and res.v is None
                        why = f'root level-0 hash == block hash decided {a}; returned {vrepr(res)[:30]}'
                    else:
                        bound = res is not None and not isinstance(res, K) and occurs(it, res, l0)
                        is_new = res is not None and eq_decided(it, res, sym32('NEWSTATE')) is True     # the committed NEW state hash, not any committed hash
                        ok = a is True and bound and is_new
                        why = f'root level-0 hash == block hash decided {a}; returned state hash {vrepr(res)[:30]} ' + ('is committed by that hash (occurs in its term)' if bound else
                                                                                                                  'is NOT committed by the checked block hash: a prover can choose it freely') + \
                            ('' if is_new or not bound else '; but it is not the new-state hash stored in the Merkle update cell')
                    run.check(ok, 'D2', 'check_block_header_proof[returned state hash not bound by the block hash]' if (store and a is True and not ok) else
                              ('check_block_header_proof[accepting path]' if not ok else f'{tag}|accept[{desc[:24]}]'), f'{tag}: {why} (path {desc[:80]})', w2)
                else:
                    ok = res.kind == 'ProofError'
                    run.check(ok, 'D2', 'check_block_header_proof[rejecting path]' if not ok else f'{tag}|reject[{desc[:30]}]', f'{tag}: raises {res.kind}', w2)
            if cname.startswith('consistent'):
                run.check(nacc >= 1, 'D2', 'check_block_header_proof[completeness]' if nacc < 1 else f'{tag}|consistent proof accepted', f'{tag}: {nacc} accepting path(s)', w2)

    # ------------------------------------------------------------------ D3 account proof
    from ..dictspec import encode_label
    K1 = bytes(range(32))
    K2 = K1[:-1] + bytes([K1[-1] ^ 1])
    K3 = bytes([0x80]) + K1[1:]
    K4 = K1[:16] + bytes([K1[16] ^ 0x10]) + K1[17:]            # leaves the path of K1 inside the long edge label
    K5 = bytes([0x80]) + K1[1:-1] + bytes([K1[-1] ^ 4])          # leaves the path of K3 inside its leaf label
    EXTRA = '00000' + '0000' + '0'                               # depth_balance$_ split_depth:(#<= 30) balance:(grams 0, no extra currencies)

    def kbits(b):
        return ''.join(format(x, '08b') for x in b)

    def const_cell(it, bits, refs=()):
        return cm.new_cell(it, cm.tvm_bits(it, BA([Seg(len(bits), 'k', bits)])), list(refs))

    def real_state(it, A, proved_kind='pruned', prune=None):
        if proved_kind == 'pruned':
            acc1 = pruned(it, 'account-K1', A)
        else:
            # the account's state cell itself is part of the proof: account_none$0 as content, A as its (opaque) hash
            acc1 = const_cell(it, '0')
            acc1.attrs['_hashes'] = ListV([A])
            acc1.attrs['_hash'] = A
            cm.reforge(it, acc1)
            cm.shadow_lookups(it, acc1)
        acc2 = const_cell(it, '0')                               # account_none$0
        acc3 = const_cell(it, '0')
        lth = {1: format(0x11, '08b') * 32, 2: format(0x22, '08b') * 32, 3: format(0x33, '08b') * 32}

        def leaf(label, m, n_, acc):
            return const_cell(it, encode_label(label, m) + EXTRA + lth[n_] + format(100 + n_, '064b'), [acc])
        k1, k2, k3 = kbits(K1), kbits(K2), kbits(K3)
        l1, l2 = leaf('', 0, 1, acc1), leaf('', 0, 2, acc2)
        if prune == 'leaf of K1':
            l1 = pruned(it, 'pruned-leaf-K1', sym32('PRUNED_LEAF'))
        left = const_cell(it, encode_label(k1[1:255], 255) + EXTRA, [l1, l2] if k1[255] == '0' else [l2, l1])
        if prune == 'edge above K1':
            left = pruned(it, 'pruned-edge', sym32('PRUNED_EDGE'))
        right = leaf(k3[1:], 255, 3, acc3)
        root = const_cell(it, encode_label('', 256) + EXTRA, [left, right])
        if prune == 'dictionary root':
            root = pruned(it, 'pruned-dict-root', sym32('PRUNED_ROOT'))
        accounts = const_cell(it, '1' + EXTRA, [root])           # ahme_root$1 root:^(HashmapAug 256 ...) extra
        if prune == 'accounts cell':
            accounts = pruned(it, 'pruned-accounts', sym32('PRUNED_ACCOUNTS'))
        head = format(0x9023afe2, '032b') + format(-239 & 0xffffffff, '032b') + '00' + format(0, '06b') + format(0, '032b') + format(1 << 63, '064b') + \
            format(77, '032b') + format(0, '032b') + format(1700000000, '032b') + format(5000, '064b') + format(70, '032b') + '0' + '0'
        state = const_cell(it, head, [pruned(it, 'out-msg-queue', sym32('OMQ')), accounts, pruned(it, 'state-tail', sym32('TAIL'))])
        return state, dict(acc1=acc1, acc2=acc2, acc3=acc3, leaf1=l1, leaf2=l2, leaf3=right)

    for claim_kind in ('ordinary', 'ordinary-without-data-bits', 'ordinary-without-data-bits-over-a-reference', 'pruned-carrying-the-hash', 'ordinary-above-a-pruned-part'):
        for proved_kind in ('ordinary', 'pruned'):
            for nroots in (2, 1, 3):
                outcomes = []

                def one(orc, claim_kind=claim_kind, proved_kind=proved_kind, nroots=nroots):
                    it = mk(prog)
                    it.oracle = orc
                    # PROOF side
                    ST = sym32('STATE_FROM_HEADER')
                    new = pruned(it, 'new', ST)
                    upd = merkle_update(it, 'upd', ordinary(it, 'old'), new, ST)
                    blk_root = ordinary(it, 'blkroot', [ordinary(it, 'info'), ordinary(it, 'vflow'), upd, ordinary(it, 'extra')])
                    p0 = merkle_proof(it, 'p0', sym32('D0'), blk_root)
                    A = sym32('ACCOUNT_L0')
                    state_root, parts = real_state(it, A, proved_kind)
                    state_root.l0 = cm.call_method(it, state_root, 'get_hash', K(0))
                    p1 = merkle_proof(it, 'p1', sym32('D1'), state_root)
                    roots = [p0, p1, ordinary(it, 'x')][:nroots]
                    # CLAIM side
                    if claim_kind == 'ordinary':
                        # not forged: its hash is the constructor's own SHA-256 term, so any route to the representation hash is recognised
                        claim = cm.new_cell(it, cm.tvm_bits(it, BA([Seg(24, 'k', format(0xC1A133, '024b'))])), [])
                        claim_l0 = cm.cached(it, claim, '_hash')
                    elif claim_kind.startswith('ordinary-without-data-bits'):
                        # a cell is a claim whatever it holds: the empty cell (what an absent state decodes to), or a cell that merely refers to
                        # something - a container-like object may be falsy, it is still compared
                        kids_ = [cm.new_cell(it, cm.tvm_bits(it, BA([Seg(8, 'k', '10100101')])), [])] if claim_kind.endswith('reference') else []
                        claim = cm.new_cell(it, cm.tvm_bits(it, BA([])), kids_)
                        claim_l0 = cm.cached(it, claim, '_hash')
                    elif claim_kind == 'ordinary-above-a-pruned-part':
                        # the account cell with one of its sub-trees replaced by a pruned branch: an ORDINARY cell of level 1 - not exotic - whose
                        # level-0 hash is that of the complete account, while its own (representation) hash is not the committed one
                        claim = cm.new_cell(it, cm.tvm_bits(it, BA([Seg(24, 'k', format(0xC1A133, '024b'))])), [pruned(it, 'claim-part', sym32('CARRIED_PART'))])
                        claim_l0 = cm.call_method(it, claim, 'get_hash', K(0))
                    else:
                        claim_l0 = sym32('CARRIED')
                        claim = pruned(it, 'claim', claim_l0)
                    claim_repr = cm.cached(it, claim, '_hash')
                    try:
                        # the explicitly recomputed representation hash: equal to the cached one for level-0 cells (C01.D5); for a cell of level > 0 it
                        # is another digest of the cell's OWN content - either is "its own hash", neither is the level-0 (virtual) hash
                        claim_repr2 = cm.call_method(it, claim, 'calculate_representation_hash')
                    except (RaiseEx, Fail):
                        claim_repr2 = None
                    addr = Inst(prog.cls('Address'))
                    addr.attrs.update(wc=K(0), hash_part=K(K1))

                    def summary(f, args, kw):
                        if f.name == 'from_boc' and f.cls is not None and f.cls.name == 'Cell':
                            return ListV(list(roots))
                        return None
                    it.summary_hook = summary
                    blk = Inst(prog.cls('BlockIdExt'))
                    blk.attrs.update(root_hash=sym32('BLOCKHASH'), file_hash=sym32('FH'), workchain=K(0), shard=K(1 << 63), seqno=K(9))
                    info = dict(it=it, blk_l0=blk_root.l0, BH=sym32('BLOCKHASH'), state_l0=state_root.l0, ST=ST, A=A,
                                claim_repr=claim_repr, claim_repr2=claim_repr2, claim_l0=claim_l0, acc1=parts['acc1'])
                    try:
                        r = it.invoke(f_acc, [K(b'proof-bytes'), blk, addr, claim, K(True)], {})
                        return ('accept', r, info)
                    except RaiseEx as e:
                        return ('raise', e, info)
                for (kind, res, info), desc in run_paths(one, 256):
                    run.evaluations += 1
                    it = info['it']
                    tag = f'claim={claim_kind},proved account cell={proved_kind},roots={nroots}'
                    if kind == 'accept':
                        c1 = eq_decided(it, info['blk_l0'], info['BH'])
                        c2 = eq_decided(it, info['state_l0'], info['ST'])
                        c3 = eq_decided(it, info['A'], info['claim_repr'])
                        if c3 is not True and info.get('claim_repr2') is not None and eq_decided(it, info['A'], info['claim_repr2']) is True \
                                and eq_decided(it, info['A'], info['claim_l0']) is not True:
                            c3 = True
                        cell0 = None
                        if isinstance(res, Inst) and isinstance(res.attrs.get('cell'), Inst):
                            try:
                                cell0 = it.getitem(res.attrs['cell'], K(0), None)
                            except RaiseEx:
                                cell0 = None
                        ok = nroots == 2 and c1 is True and c2 is True and c3 is True and cell0 is info['acc1']
                        if ok:
                            run.ok('D3', f'{tag}|accept', 'block hash, state hash and account hash (claimed side by its representation hash) all decided equal')
                        else:
                            alt = eq_decided(it, info['A'], info['claim_l0'])
                            construct = 'check_account_proof[claimed state compared by virtual hash]' if (c3 is not True and alt is True and claim_kind != 'ordinary') else 'check_account_proof[accepting path]'
                            run.fail('D3', construct, f'{tag}: accepted with header-hash==block-hash {c1}, state-root-hash==header-state-hash {c2}, proved-account-level-0-hash==REPRESENTATION-hash-of-claim {c3}' +
                                     (f' (the path compared the hash CARRIED by the claimed pruned branch instead: {alt})' if alt is True and c3 is not True else '') + f' [path {desc}]', w3)
                    else:
                        ok = res.kind == 'ProofError'
                        run.check(ok, 'D3', 'check_account_proof[rejecting path]' if not ok else f'{tag}|reject[{desc[:40]}]', f'{tag}: raises {res.kind} {str(res.what)[:60]}', w3)
    # history: the same proof bytes presented again for ANOTHER block in the same process - every accepting path of the second call
    # must have compared the proof's block hash with the second block id (a result remembered per proof would skip that)
    def twice(orc):
        it = mk(prog)
        it.oracle = orc
        ST = sym32('STATE_FROM_HEADER')
        new = pruned(it, 'new', ST)
        upd = merkle_update(it, 'upd', ordinary(it, 'old'), new, ST)
        blk_root = ordinary(it, 'blkroot', [ordinary(it, 'info'), ordinary(it, 'vflow'), upd, ordinary(it, 'extra')])
        p0 = merkle_proof(it, 'p0', sym32('D0'), blk_root)
        A = sym32('ACCOUNT_L0')
        state_root, parts = real_state(it, A)
        p1 = merkle_proof(it, 'p1', sym32('D1'), state_root)
        roots = [p0, p1]
        claim = cm.new_cell(it, cm.tvm_bits(it, BA([Seg(24, 'k', format(0xC1A133, '024b'))])), [])
        addr = Inst(prog.cls('Address'))
        addr.attrs.update(wc=K(0), hash_part=K(K1))

        def summary(f, args, kw):
            if f.name == 'from_boc' and f.cls is not None and f.cls.name == 'Cell':
                return ListV(list(roots))
            return None
        it.summary_hook = summary
        outs = []
        for tag_ in ('FIRST', 'SECOND'):
            blk = Inst(prog.cls('BlockIdExt'))
            BH = sym32('BLOCKHASH_' + tag_)
            blk.attrs.update(root_hash=BH, file_hash=sym32('FH_' + tag_), workchain=K(0), shard=K(1 << 63), seqno=K(9 if tag_ == 'FIRST' else 10))
            try:
                it.invoke(f_acc, [K(b'proof-bytes'), blk, addr, claim, K(True)], {})
                outs.append(('accept', eq_decided(it, blk_root.l0, BH)))
            except RaiseEx as e:
                outs.append(('raise', e.kind))
                if tag_ == 'FIRST':
                    break
        return outs
    nsecond = 0
    for outs, desc in run_paths(twice, 512):
        run.evaluations += 1
        if len(outs) == 2 and outs[0][0] == 'accept':
            nsecond += 1
            kind, c1 = outs[1]
            ok = kind == 'raise' or c1 is True
            run.check(ok, 'D3', 'check_account_proof[same proof, another block]' if not ok else f'history|second call {kind}[{desc[-40:]}]',
                      f'after an accepted call the same proof bytes are presented for another block id: {"accepted" if kind == "accept" else "rejected"}' +
                      ('' if ok else f' although the proof block hash was compared with the new block id: {c1}') + f' [path {desc[:80]}]', w3)
    if not nsecond:
        raise AnalysisError('C11 history scenario: no path accepts the first call')
    # the queried account is not among the leaves the proof shows (e.g. its dictionary branch was pruned): nothing may be accepted,
    # whatever is claimed - an accepting path there has compared the claim with no committed hash at all
    for claim_kind, prune_at in [(c_, p_) for c_ in ('empty cell', 'None', 'ordinary') for p_ in ('accounts cell', 'dictionary root', 'edge above K1', 'leaf of K1')]:
        def one(orc, claim_kind=claim_kind, prune_at=prune_at):
            it = mk(prog)
            it.oracle = orc
            it.MAX_STEPS = 4_000_000
            ST = sym32('STATE_FROM_HEADER')
            upd = merkle_update(it, 'upd', ordinary(it, 'old'), pruned(it, 'new', ST), ST)
            blk_root = ordinary(it, 'blkroot', [ordinary(it, 'info'), ordinary(it, 'vflow'), upd, ordinary(it, 'extra')])
            p0 = merkle_proof(it, 'p0', sym32('D0'), blk_root)
            state_root, _parts = real_state(it, sym32('ACCOUNT_L0'), 'pruned', prune_at)
            p1 = merkle_proof(it, 'p1', sym32('D1'), state_root)

            def summary(f, args, kw):
                if f.name == 'from_boc' and f.cls is not None and f.cls.name == 'Cell':
                    return ListV([p0, p1])
                return None
            it.summary_hook = summary
            addr = Inst(prog.cls('Address'))
            addr.attrs.update(wc=K(0), hash_part=K(K1))
            blk = Inst(prog.cls('BlockIdExt'))
            blk.attrs.update(root_hash=sym32('BLOCKHASH'), file_hash=sym32('FH'), workchain=K(0), shard=K(1 << 63), seqno=K(9))
            claim = {'empty cell': lambda: it.call(it.getattr(prog.cls('Cell'), 'empty'), [], {}), 'None': lambda: K(None),
                     'ordinary': lambda: cm.new_cell(it, cm.tvm_bits(it, BA([Seg(8, 'k', '11110000')])), [])}[claim_kind]()
            try:
                it.invoke(f_acc, [K(b'proof-bytes'), blk, addr, claim, K(False)], {})
                return 'accept'
            except RaiseEx as e:
                return e.kind
        outs = [o for o, _ in run_paths(one, 256)]
        run.evaluations += len(outs)
        ok = 'accept' not in outs
        run.check(ok, 'D3', 'check_account_proof[account not shown by the proof]' if not ok else f'account behind a pruned {prune_at}, claim={claim_kind}',
                  f'the proof prunes the {prune_at} on the way to the account, claimed state {claim_kind}: outcomes {sorted(set(outs))} (no path may accept)', w3)
    # ---- the same questions on a REAL state tree: a ShardStateUnsplit cell per block.tlb whose ShardAccounts dictionary (HashmapAugE 256) holds three
    # accounts - K1 (the account of interest, its state pruned to the hash A), K2 = K1 with the last key bit flipped (a sibling leaf under a 254-bit
    # edge label) and K3 on the other side of the root fork.  Nothing of the state parser is stubbed here, so however the account is looked up
    # (whole-dictionary parse, walk along the key path, ...) the questions stay the same: an accepting path has compared the right hashes, and an
    # address that is not a key of the dictionary is never accepted - in particular one that merely shares the path of K1 up to a label bit.
    def real_case(addr_bytes, claim_of):
        def one(orc):
            it = mk(prog)
            it.oracle = orc
            it.MAX_STEPS = 4_000_000
            ST = sym32('STATE_FROM_HEADER')
            upd = merkle_update(it, 'upd', ordinary(it, 'old'), pruned(it, 'new', ST), ST)
            blk_root = ordinary(it, 'blkroot', [ordinary(it, 'info'), ordinary(it, 'vflow'), upd, ordinary(it, 'extra')])
            p0 = merkle_proof(it, 'p0', sym32('D0'), blk_root)
            A = sym32('ACCOUNT_L0')
            state, parts = real_state(it, A)
            p1 = merkle_proof(it, 'p1', sym32('D1'), state)

            def summary(f, args, kw):
                if f.name == 'from_boc' and f.cls is not None and f.cls.name == 'Cell':
                    return ListV([p0, p1])
                return None
            it.summary_hook = summary
            claim = cm.new_cell(it, cm.tvm_bits(it, BA([Seg(24, 'k', format(0xC1A133, '024b'))])), []) if claim_of != 'acc2' else parts['acc2']
            addr = Inst(prog.cls('Address'))
            addr.attrs.update(wc=K(0), hash_part=K(addr_bytes))
            blk = Inst(prog.cls('BlockIdExt'))
            blk.attrs.update(root_hash=sym32('BLOCKHASH'), file_hash=sym32('FH'), workchain=K(0), shard=K(1 << 63), seqno=K(9))
            info = dict(it=it, blk_l0=blk_root.l0, BH=sym32('BLOCKHASH'), state_l0=cm.call_method(it, state, 'get_hash', K(0)), ST=ST, A=A, claim_repr=cm.cached(it, claim, '_hash'), parts=parts)
            try:
                r = it.invoke(f_acc, [K(b'proof-bytes'), blk, addr, claim, K(True)], {})
                return ('accept', r, info)
            except RaiseEx as e:
                return ('raise', e, info)
        return list(run_paths(one, 512))
    for name, addr_b, claim_of, who in (('K1 (in the dictionary, state pruned to A)', K1, 'fresh', 'leaf1'), ('K2 (sibling leaf of K1)', K2, 'acc2', 'leaf2')):
        naccept = 0
        for (kind, res, info), desc in real_case(addr_b, claim_of):
            run.evaluations += 1
            it = info['it']
            if kind != 'accept':
                continue
            naccept += 1
            c1, c2 = eq_decided(it, info['blk_l0'], info['BH']), eq_decided(it, info['state_l0'], info['ST'])
            own = info['A'] if who == 'leaf1' else info['parts']['acc2'].attrs['_hash']
            c3 = eq_decided(it, own, info['claim_repr'])
            cell0 = None
            if isinstance(res, Inst) and isinstance(res.attrs.get('cell'), Inst):
                try:
                    cell0 = it.getitem(res.attrs['cell'], K(0), None)
                except RaiseEx:
                    cell0 = None
            right_leaf = cell0 is info['parts']['acc1' if who == 'leaf1' else 'acc2']
            ok = c1 is True and c2 is True and c3 is True and right_leaf
            run.check(ok, 'D3', 'check_account_proof[real state tree, accepting path]' if not ok else f'real tree|{name}|accept[{desc[-30:]}]',
                      f'address {name}: accepted with header-hash==block-hash {c1}, state-root-hash==header-state-hash {c2}, hash of THIS account\'s state in the proof == representation hash of the claim {c3}, '
                      f'returned descriptor is this account\'s leaf: {right_leaf} [path {desc[-80:]}]', w3)
        if not naccept:
            run.fail('D3', 'check_account_proof[real state tree, completeness]', f'address {name}: no path accepts a genuine proof of this account over a real ShardStateUnsplit tree', w3)
    for name, addr_b in (('K4 = K1 with one bit of the long edge label flipped (not a key)', K4), ('K5 = K3 with one bit of its leaf label flipped (not a key)', K5),
                         ('an address on no edge at all', bytes([0x40]) + K1[1:])):
        outs = real_case(addr_b, 'fresh')
        run.evaluations += len(outs)
        acc = [desc for (kind, res, info), desc in outs if kind == 'accept']
        run.check(not acc, 'D3', 'check_account_proof[real state tree, address that is not a key]' if acc else f'real tree|{name[:20]}|never accepted',
                  f'address {name}: ' + (f'ACCEPTED on path {acc[0][-80:]} - the proof shows a different account' if acc else f'{len(outs)} path(s), none accepts'), w3)
    # the cell that stands for the account's state in the proof: ShardAccount.cell[0] must be the account:^Account reference of the leaf even when the
    # leaf's augmentation (DepthBalanceInfo with extra currencies) has already consumed a reference of the same cell
    for consumed in (0, 1):
        it = mk(prog)
        extra_dict = cm.new_cell(it, cm.tvm_bits(it, BA([Seg(6, 'k', '101010')])), [])
        account_cell = cm.new_cell(it, cm.tvm_bits(it, BA([Seg(9, 'k', '111000111')])), [])
        bits = BA([Seg(10, 'k', '0010100001' if consumed else '0010100000')] + [Seg(256, 'b', sym32('LTH')), Seg(64, 'k', format(77, '064b'))])
        leafc = cm.new_cell(it, cm.tvm_bits(it, bits), ([extra_dict] if consumed else []) + [account_cell])
        sl = cm.call_method(it, leafc, 'begin_parse')
        cm.call_method(it, sl, 'skip_bits', K(10))
        if consumed:
            cm.call_method(it, sl, 'load_ref')

        def summary(f, args, kw):
            if f.name == 'deserialize' and f.cls is not None and f.cls.name == 'Account':
                return Sym('account-object')
            return None
        it.summary_hook = summary
        try:
            sa = it.call(it.getattr(prog.cls('ShardAccount'), 'deserialize'), [sl], {})
            cell = sa.attrs.get('cell')
            first = it.getattr(cell, 'refs').items[0] if isinstance(cell, Inst) and it.getattr(cell, 'refs').items else None
            ok = first is not None and bocrun.ckey(it, first) == bocrun.ckey(it, account_cell)
            why = f'leaf whose extra consumed {consumed} reference(s): ShardAccount.cell[0] is ' + ('the account cell' if ok else f'{bocrun.ckey(it, first)[0] if first is not None else None} (the account cell is {bocrun.ckey(it, account_cell)[0]})')
        except RaiseEx as e:
            ok, why = False, f'raises {e}'
        run.check(ok, 'D3', 'ShardAccount.deserialize[cell kept for the proof check]' if not ok else f'ShardAccount.cell after {consumed} consumed reference(s)', why, prog.where(prog.method('ShardAccount', 'deserialize')))
        run.evaluations += 1
    # ------------------------------------------------------------------ D4 shard proof front part (until block parsing)
    def blkid(it, wc, seqno, rh):
        b = Inst(prog.cls('BlockIdExt'))
        b.attrs.update(workchain=K(wc), shard=K(1 << 63), seqno=K(seqno), root_hash=rh, file_hash=sym32('FH'))
        return b
    for case in ('same block', 'not masterchain', 'one root', 'three roots'):
        it = mk(prog)
        mc = blkid(it, -1 if case != 'not masterchain' else 0, 10, sym32('MC'))
        sh = mc if case == 'same block' else blkid(it, 0, 99, sym32('SH'))
        n = {'one root': 1, 'three roots': 3}.get(case, 2)

        def summary(f, args, kw, n=n, it=it):
            if f.name == 'from_boc':
                return ListV([ordinary(it, f'r{i}') for i in range(n)])
            return None
        it.summary_hook = summary
        try:
            r = it.invoke(f_shard, [K(b'x'), mc, sh], {})
            out = 'return'
        except RaiseEx as e:
            out = e.kind
        except Fail as e:
            out = 'beyond'
        want = 'return' if case == 'same block' else 'ProofError'
        run.check(out == want, 'D4', f'check_shard_proof[{case}]' if out != want else f'shard[{case}]', f'{case}: {out} (expected {want})', prog.where(f_shard))
        run.evaluations += 1
