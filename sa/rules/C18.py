"""C18 - CRC-16/XMODEM and CRC-32C equal their bitwise definitions (level: proof).

The two functions are evaluated by a dedicated *GF(2)-affine* abstract interpreter: every integer is a vector of bits, every
bit an affine form (xor of input bits and the constant 1) over the symbolic state bits s0..s(W-1) and byte bits b0..b7.
Only operations that preserve affinity are representable (xor, shifts and masks by constants, lookup in a table that has
been shown GF(2)-linear); anything else is an ANALYSIS-ERROR, never a guess. The resulting per-byte transition map is
compared, as a matrix, with the map of the bitwise definition -> equal for all 2^(W+8) (state, byte) pairs; with the
initial value, the loop shape (every byte, in order, no early exit) and the output conversion this is the property for
all byte strings by induction on the length.
"""
import ast
from ..core import AnalysisError
from ..front import Program

LEVEL = 'proof'
MANIFEST = dict(
    technique='GF(2)-affine abstract interpretation of the CRC loops (bit-vector of affine forms), table generation from the polynomial, matrix equality with the bitwise definition, induction on length',
    text='Proof-level: every obligation (tables, linearity, per-byte transition as a GF(2) matrix, state range, initial value, output '
         'conversion, loop shape) is closed by an exhaustive or algebraic argument, so crc16/crc32c equal CRC-16/XMODEM and CRC-32C on all '
         'byte strings. Any construct outside the affine sub-language is an analysis error, never a guess.',
    note='trusted: CPython ast, the checker\'s GF(2) bit-vector evaluator, the transcription of the two bitwise CRC definitions',
    design_ref='DESIGN.md section 4 C18')
ONE = '1'


# ---------------------------------------------------------------- bitwise definitions (the oracle)
def step16(c, b):
    c ^= b << 8
    for _ in range(8):
        c = ((c << 1) ^ 0x1021) & 0xFFFF if c & 0x8000 else (c << 1) & 0xFFFF
    return c


def step32c(c, b):
    c ^= b
    for _ in range(8):
        c = (c >> 1) ^ 0x82F63B78 if c & 1 else c >> 1
    return c


def table_from(step, w):
    return [step(0, i) for i in range(256)] if w == 32 else [step(0, i) for i in range(256)]


SPEC = {
    'crc16': dict(w=16, step=step16, init=0, xorout=0, nbytes=2, table=[step16(0, i) for i in range(256)]),
    'crc32c': dict(w=32, step=step32c, init=0xFFFFFFFF, xorout=0xFFFFFFFF, nbytes=4,
                   table=[step32c(0, i) for i in range(256)]),
}


# ---------------------------------------------------------------- affine bit-vector domain
class Vec:
    """integer >= 0 as {bit position: frozenset(symbols)}; missing position = constant 0"""
    def __init__(self, bits=None):
        self.bits = {k: v for k, v in (bits or {}).items() if v}

    @staticmethod
    def const(c):
        if c < 0:
            raise AnalysisError('negative constant in CRC arithmetic')
        return Vec({i: frozenset([ONE]) for i in range(c.bit_length()) if c >> i & 1})

    @staticmethod
    def sym(prefix, w):
        return Vec({i: frozenset([f'{prefix}{i}']) for i in range(w)})

    def is_const(self):
        return all(v == frozenset([ONE]) for v in self.bits.values())

    def cval(self):
        return sum(1 << k for k in self.bits)

    def xor(self, o):
        r = dict(self.bits)
        for k, v in o.bits.items():
            r[k] = r.get(k, frozenset()) ^ v
        return Vec(r)

    def shl(self, n):
        return Vec({k + n: v for k, v in self.bits.items()})

    def shr(self, n):
        return Vec({k - n: v for k, v in self.bits.items() if k >= n})

    def mask(self, m):
        return Vec({k: v for k, v in self.bits.items() if m >> k & 1})

    def width(self):
        return max(self.bits) + 1 if self.bits else 0

    def __eq__(self, o):
        return isinstance(o, Vec) and self.bits == o.bits

    def eval(self, env):
        tot = 0
        for k, f in self.bits.items():
            b = 0
            for s in f:
                b ^= 1 if s == ONE else env[s]
            tot |= b << k
        return tot


def lookup(table, idx):
    """T[idx] for a GF(2)-linear table T and an affine index: xor_i idx_i * T[1<<i] (+ T[const part])"""
    if idx.width() > 8:
        raise AnalysisError('table index may exceed 255')
    out = Vec()
    for i, form in idx.bits.items():
        col = table[1 << i]
        out = out.xor(Vec({k: form for k in range(col.bit_length()) if col >> k & 1}))
    return out


class Aff:
    """evaluates the straight-line integer code of one function in the affine domain"""
    def __init__(self, consts):
        self.env = dict(consts)

    def ev(self, n):
        if isinstance(n, ast.Constant):
            if isinstance(n.value, bool) or not isinstance(n.value, (int, str)):
                raise AnalysisError(f'constant {n.value!r}')
            return Vec.const(n.value) if isinstance(n.value, int) else n.value
        if isinstance(n, ast.Name):
            if n.id not in self.env:
                raise AnalysisError(f'unbound name {n.id}')
            return self.env[n.id]
        if isinstance(n, ast.BinOp):
            a, b = self.ev(n.left), self.ev(n.right)
            if not isinstance(a, Vec) or not isinstance(b, Vec):
                raise AnalysisError('non-integer operand')
            if isinstance(n.op, ast.BitXor):
                return a.xor(b)
            if isinstance(n.op, ast.LShift) and b.is_const():
                return a.shl(b.cval())
            if isinstance(n.op, ast.RShift) and b.is_const():
                return a.shr(b.cval())
            if isinstance(n.op, ast.BitAnd) and (a.is_const() or b.is_const()):
                return (a.mask(b.cval()) if b.is_const() else b.mask(a.cval()))
            if isinstance(n.op, ast.Mod) and b.is_const() and b.cval() & (b.cval() - 1) == 0 and b.cval() > 0:
                return a.mask(b.cval() - 1)
            if isinstance(n.op, ast.Mult) and b.is_const() and b.cval() & (b.cval() - 1) == 0 and b.cval() > 0:
                return a.shl(b.cval().bit_length() - 1)
            if isinstance(n.op, ast.FloorDiv) and b.is_const() and b.cval() & (b.cval() - 1) == 0 and b.cval() > 0:
                return a.shr(b.cval().bit_length() - 1)
            if isinstance(n.op, ast.BitOr) and not (set(a.bits) & set(b.bits)):
                return a.xor(b)        # disjoint supports: or == xor
            if a.is_const() and b.is_const():
                import operator as o
                f = {ast.Add: o.add, ast.Sub: o.sub, ast.Mult: o.mul, ast.BitOr: o.or_, ast.BitAnd: o.and_}.get(type(n.op))
                if f:
                    return Vec.const(f(a.cval(), b.cval()))
            raise AnalysisError(f'operation {type(n.op).__name__} is not GF(2)-affine on symbolic operands')
        if isinstance(n, ast.Subscript):
            t = self.ev(n.value)
            if isinstance(t, list):
                i = self.ev(n.slice)
                if not isinstance(i, Vec):
                    raise AnalysisError('table index')
                if i.is_const():
                    return Vec.const(t[i.cval()])
                return lookup(t, i)
            raise AnalysisError('subscript of non-table')
        if isinstance(n, ast.UnaryOp) and isinstance(n.op, ast.Invert):
            raise AnalysisError('~ yields negative ints')
        raise AnalysisError(f'expression {type(n).__name__} outside the affine sub-language')


def fold_const(prog, module, expr, env=None):
    """constant folding of an input-independent expression with the general evaluator -> list of ints / Vec.const / None"""
    from ..interp import Interp, Frame
    from ..values import K, ListV, Fail, RaiseEx
    it = Interp(prog)
    fr = Frame(module)
    for k, v in (env or {}).items():
        if isinstance(v, list):
            fr.vars[k] = ListV([K(x) for x in v])
        elif isinstance(v, Vec) and v.is_const():
            fr.vars[k] = K(v.cval())
    try:
        r = it.ev(expr, fr)
    except (Fail, RaiseEx):
        return None
    if isinstance(r, K) and isinstance(r.v, int) and not isinstance(r.v, bool):
        return Vec.const(r.v) if r.v >= 0 else None
    if isinstance(r, K) and isinstance(r.v, (list, tuple)) and all(isinstance(x, int) for x in r.v):
        return list(r.v)
    if isinstance(r, ListV) and all(isinstance(x, K) and isinstance(x.v, int) for x in r.items):
        return [x.v for x in r.items]
    return None


def wrapper_branch(st, fname, data):
    """`if <type test on data>: return fname(<data or bytes(data)>, ...)` with no else"""
    if st.orelse or len(st.body) != 1 or not isinstance(st.body[0], ast.Return):
        return False
    call = st.body[0].value
    if not (isinstance(call, ast.Call) and isinstance(call.func, ast.Name) and call.func.id == fname and call.args):
        return False
    names = {n.id for n in ast.walk(st.test) if isinstance(n, ast.Name)}
    if not names <= {data, 'isinstance', 'type', 'bytes', 'bytearray', 'memoryview'}:
        return False
    a0 = call.args[0]
    same_data = (isinstance(a0, ast.Name) and a0.id == data) or \
        (isinstance(a0, ast.Call) and isinstance(a0.func, ast.Name) and a0.func.id in ('bytes', 'bytearray') and len(a0.args) == 1 and isinstance(a0.args[0], ast.Name) and a0.args[0].id == data)
    return same_data


def int_list(node):
    if isinstance(node, (ast.List, ast.Tuple)) and all(isinstance(e, ast.Constant) and isinstance(e.value, int) for e in node.elts):
        return [e.value for e in node.elts]
    return None


def check_fn(run, prog, fname):
    spec = SPEC[fname]
    W = spec['w']
    f = prog.func(fname, module='crypto.crc')
    fn = f.node
    where = prog.where(f)
    mod = prog.modules['crypto.crc']
    params = [a.arg for a in fn.args.args]
    if not params:
        raise AnalysisError(f'{fname} has no parameters')
    data = params[0]
    defaults = dict(zip(params[len(params) - len(fn.args.defaults):], fn.args.defaults))
    # environment: module-level and function-level literal tables / int constants
    consts = {}
    for name, expr in mod.consts.items():
        il = int_list(expr)
        if il is not None:
            consts[name] = il
        elif isinstance(expr, ast.Constant) and isinstance(expr.value, int):
            consts[name] = Vec.const(expr.value)
    # names bound at module level to a *computed* constant (a table built by a helper at import time, a comprehension, ...):
    # constant-folded by the checker's general evaluator - pure integer code on constants only, no input involved
    for name, expr in mod.consts.items():
        if name not in consts and not isinstance(expr, (ast.Constant, ast.Lambda)):
            v = fold_const(prog, 'crypto.crc', expr)
            if v is not None:
                consts[name] = v
    aff = Aff(consts)
    aff.fold = lambda expr: fold_const(prog, 'crypto.crc', expr, aff.env)
    loop = None
    pre, post = [], []
    for st in fn.body:
        if isinstance(st, ast.Expr) and isinstance(st.value, ast.Constant):
            continue
        if isinstance(st, ast.For) and loop is None:
            loop = st
        elif loop is None:
            pre.append(st)
        else:
            post.append(st)
    if loop is None:
        raise AnalysisError(f'{fname}: no loop over the input found')
    # ---- O4 loop shape
    shape_ok = isinstance(loop.iter, ast.Name) and loop.iter.id == data and isinstance(loop.target, ast.Name) \
        and not loop.orelse and not any(isinstance(x, (ast.Break, ast.Continue, ast.Return, ast.Raise, ast.If, ast.While, ast.For, ast.Try))
                                        for s in loop.body for x in ast.walk(s))
    run.check(shape_ok, 'O4', f'{fname}.loop', 'for <byte> in <data>: straight-line body, no early exit', where)
    if not shape_ok:
        return
    byte = loop.target.id
    # ---- prelude: tables and initial value
    for st in pre:
        if isinstance(st, ast.Assign) and len(st.targets) == 1 and isinstance(st.targets[0], ast.Name):
            il = int_list(st.value)
            if il is not None:
                aff.env[st.targets[0].id] = il
            else:
                try:
                    aff.env[st.targets[0].id] = aff.ev(st.value)
                except AnalysisError:
                    v = aff.fold(st.value)
                    if v is None:
                        raise
                    aff.env[st.targets[0].id] = v
        elif isinstance(st, ast.AnnAssign) and isinstance(st.target, ast.Name) and st.value is not None:
            il = int_list(st.value)
            aff.env[st.target.id] = il if il is not None else aff.ev(st.value)
        elif isinstance(st, ast.If) and wrapper_branch(st, fname, data):
            # a type-normalising wrapper branch: `if not isinstance(data, bytes): return f(bytes(data), ...)`.  It computes the same function iff
            # every other parameter is forwarded unchanged (then the claim follows from the main path by one unfolding)
            call = st.body[0].value
            missing = []
            for i, pname in enumerate(params[1:], start=1):
                passed = call.args[i] if i < len(call.args) else next((k.value for k in call.keywords if k.arg == pname), None)
                if not (isinstance(passed, ast.Name) and passed.id == pname):
                    missing.append(pname)
            run.check(not missing, 'O3b', f'{fname}.output' if missing else f'{fname}.wrapper-branch',
                      f'the branch `{ast.unparse(st.test)[:50]}` re-enters {fname} ' + (f'without forwarding {missing}: the result ignores the requested {", ".join(missing)}' if missing else 'forwarding every parameter'), where)
        else:
            raise AnalysisError(f'{fname}: unsupported statement before the loop: {ast.unparse(st)[:60]}')
    # ---- O1 tables
    tables = {k: v for k, v in aff.env.items() if isinstance(v, list)}
    used = {n.id for s in loop.body for n in ast.walk(s) if isinstance(n, ast.Name)} & set(tables)
    for t in sorted(used):
        T = tables[t]
        ok = T == spec['table']
        bad = [i for i in range(min(len(T), 256)) if T[i] != spec['table'][i]][:3]
        run.check(ok, 'O1', f'{fname}.table', f'{len(T)} entries equal the table generated from the polynomial'
                  if ok else f'table `{t}` differs from the generated table at indices {bad} (len {len(T)})', where)
        lin = len(T) == 256 and T[0] == 0 and all(
            T[a] == _xor([T[1 << i] for i in range(8) if a >> i & 1]) for a in range(256))
        run.check(lin, 'O1b', f'{fname}.table-linear', 'T[a^b] = T[a]^T[b] on all 256 entries (premise of the affine lookup)', where)
        if not lin:
            return
    if not used:
        run.info(f'{fname}: table-free implementation')
    # ---- state variables: assigned in the loop and bound before it
    assigned = []
    for s in loop.body:
        tg = s.targets[0] if isinstance(s, ast.Assign) and len(s.targets) == 1 else s.target if isinstance(s, ast.AugAssign) else None
        if not isinstance(tg, ast.Name):
            raise AnalysisError(f'{fname}: unsupported loop statement {ast.unparse(s)[:60]}')
        if tg.id not in assigned:
            assigned.append(tg.id)
    state = [v for v in assigned if v in aff.env and isinstance(aff.env[v], Vec)]
    if len(state) != 1:
        raise AnalysisError(f'{fname}: expected one loop-carried state variable, found {state}')
    sv = state[0]
    init = aff.env[sv]
    run.check(init.is_const() and init.cval() == spec['init'], 'O3', f'{fname}.init',
              f'initial value {init.cval() if init.is_const() else "?"} (spec {spec["init"]:#x})', where)
    # ---- O2 transition map
    aff.env[sv] = Vec.sym('s', W)
    aff.env[byte] = Vec.sym('b', 8)
    for s in loop.body:
        if isinstance(s, ast.Assign):
            aff.env[s.targets[0].id] = aff.ev(s.value)
        else:
            cur = aff.env[s.target.id]
            aff.env[s.target.id] = aff.ev(ast.BinOp(left=ast.Name(id=s.target.id), op=s.op, right=s.value))
    new = aff.env[sv]
    run.check(new.width() <= W, 'O2b', f'{fname}.state-range', f'state stays within {W} bits (width {new.width()})', where)
    # spec map: columns from the bitwise definition on the basis of (state, byte) and the zero vector
    step = spec['step']
    specv = {}
    zero = step(0, 0)
    for k in range(W):
        f_ = set()
        if zero >> k & 1:
            f_.add(ONE)
        for i in range(W):
            if (step(1 << i, 0) ^ zero) >> k & 1:
                f_.add(f's{i}')
        for i in range(8):
            if (step(0, 1 << i) ^ zero) >> k & 1:
                f_.add(f'b{i}')
        if f_:
            specv[k] = frozenset(f_)
    same = new.bits == specv
    diff = sorted(k for k in set(new.bits) | set(specv) if new.bits.get(k) != specv.get(k))[:4]
    run.check(same, 'O2', f'{fname}.step', f'per-byte transition equals the bitwise definition as a {W}x{W + 8} GF(2) matrix'
              if same else f'transition differs from the bitwise definition in output bits {diff}', where)
    run.evaluations += (W + 9) + 256
    # the bitwise definition itself must be affine for the basis argument: checked on a spread of points
    pts = [(0x1234 & ((1 << W) - 1), 0x5A), ((1 << W) - 1, 0xFF), (0x8001, 0x01), (0xDEADBEEF & ((1 << W) - 1), 0x80)]
    ok = all(Vec(specv).eval({**{f's{i}': s >> i & 1 for i in range(W)}, **{f'b{i}': b >> i & 1 for i in range(8)}}) == step(s, b)
             for s, b in pts)
    if not ok:
        raise AnalysisError('oracle self-check failed')
    # ---- O3 output conversion
    ret = [s for s in post if isinstance(s, ast.Return)]
    if len(post) != 1 or not ret:
        # allow simple assignments before return
        for s in post[:-1]:
            if isinstance(s, ast.Assign) and isinstance(s.targets[0], ast.Name):
                aff.env[s.targets[0].id] = aff.ev(s.value)
            elif isinstance(s, ast.AugAssign) and isinstance(s.target, ast.Name):
                aff.env[s.target.id] = aff.ev(ast.BinOp(left=ast.Name(id=s.target.id), op=s.op, right=s.value))
            else:
                raise AnalysisError(f'{fname}: unsupported statement after the loop')
        if not post or not isinstance(post[-1], ast.Return):
            raise AnalysisError(f'{fname}: no return after the loop')
    r = post[-1].value
    aff.env[sv] = Vec.sym('s', W)
    okc = False
    detail = ast.unparse(r)[:80]
    if isinstance(r, ast.Call) and isinstance(r.func, ast.Attribute) and r.func.attr == 'to_bytes':
        val = aff.ev(r.func.value)
        want = Vec.sym('s', W).xor(Vec.const(spec['xorout']))
        args = list(r.args)
        kws = {k.arg: k.value for k in r.keywords}
        length = args[0] if args else kws.get('length')
        order = args[1] if len(args) > 1 else kws.get('byteorder')
        signed = kws.get('signed')
        len_ok = isinstance(length, ast.Constant) and length.value == spec['nbytes']
        if fname == 'crc16':
            ord_ok = isinstance(order, ast.Constant) and order.value == 'big'
        else:
            # the requested byte order must reach to_bytes unchanged
            ord_ok = isinstance(order, ast.Name) and order.id in params[1:] and order.id not in assigned \
                and not any(isinstance(s, (ast.Assign, ast.AugAssign)) and order.id in {n.id for n in ast.walk(s) if isinstance(n, ast.Name) and isinstance(n.ctx, ast.Store)} for s in fn.body)
        sg_ok = signed is None or (isinstance(signed, ast.Constant) and not signed.value)
        okc = val == want and len_ok and ord_ok and sg_ok
        detail = f'value==state^{spec["xorout"]:#x}:{val == want} length:{len_ok} byteorder:{ord_ok} unsigned:{sg_ok}'
    run.check(okc, 'O3b', f'{fname}.output', detail, where)
    return dict(sv=sv, byte=byte, loop=loop, aff=aff, W=W, spec=spec, new=new)


def _xor(xs):
    r = 0
    for x in xs:
        r ^= x
    return r


def _worker16(arg):
    lo, hi, const, cs, cb = arg
    # extracted affine map through per-byte column tables (exact: the map is affine)
    mhi = [_xor([cs[8 + i] for i in range(8) if a >> i & 1]) for a in range(256)]
    mlo = [_xor([cs[i] for i in range(8) if a >> i & 1]) for a in range(256)]
    mb = [_xor([cb[i] for i in range(8) if a >> i & 1]) for a in range(256)]
    bad = 0
    first = None
    for s in range(lo, hi):
        base = const ^ mhi[s >> 8] ^ mlo[s & 255]
        for b in range(256):
            c = s ^ (b << 8)
            for _ in range(8):
                c = ((c << 1) ^ 0x1021) & 0xFFFF if c & 0x8000 else (c << 1) & 0xFFFF
            if base ^ mb[b] != c:
                bad += 1
                if first is None:
                    first = (s, b)
    return bad, first


def exhaustive16(run, ctx, where):
    """thorough: the extracted transition map of crc16 against the bitwise definition on all 2^24 (state, byte) pairs"""
    import multiprocessing as mp
    new = ctx['new']
    env0 = {f's{i}': 0 for i in range(16)}
    env0.update({f'b{i}': 0 for i in range(8)})
    const = new.eval(env0)
    cs = [new.eval({**env0, f's{i}': 1}) ^ const for i in range(16)]
    cb = [new.eval({**env0, f'b{i}': 1}) ^ const for i in range(8)]
    jobs = [(lo, lo + 4096, const, cs, cb) for lo in range(0, 1 << 16, 4096)]
    with mp.Pool(min(16, mp.cpu_count())) as pool:
        res = pool.map(_worker16, jobs)
    bad = sum(r[0] for r in res)
    first = next((r[1] for r in res if r[1]), None)
    run.evaluations += 1 << 24
    run.check(bad == 0, 'O2x', 'crc16.exhaustive', f'{1 << 24} (state, byte) pairs: extracted transition == bitwise definition'
              if not bad else f'{bad} pairs differ, first {first}', where)


def check(run):
    prog = Program()
    run.explanation = ('GF(2)-affine abstract interpretation of crc16/crc32c: literal tables == tables generated from the '
                       'polynomials and GF(2)-linear; the per-byte transition, as a matrix over the state and byte bits, '
                       'equals the bitwise definition (hence for all 2^(W+8) pairs); initial value, output xor, width, byte '
                       'order and loop shape match; induction on the input length gives all byte strings.')
    run.rule('O1', 'literal lookup table == table generated from the polynomial (0x1021 MSB-first / 0x82F63B78 reflected)', 0)
    run.rule('O1b', 'lookup table is GF(2)-linear', 0)
    run.rule('O2', 'per-byte state transition == bitwise definition, as GF(2)-affine maps', 2)
    run.rule('O2b', 'state stays within its width (table index in range)', 2)
    run.rule('O3', 'initial value', 2)
    run.rule('O3b', 'output: final xor, result width, byte order / byteorder parameter reaches to_bytes', 2)
    run.rule('O4', 'loop visits every input byte in order without early exit', 2)
    run.trust('CPython ast parser', "the checker's GF(2) bit-vector evaluator (xor/shift/mask/linear lookup)",
              'transcription of CRC-16/XMODEM and CRC-32C bitwise definitions in sa/rules/C18.py')
    run.exhaustive = True
    ctxs = {}
    for fname in ('crc16', 'crc32c'):
        ctxs[fname] = check_fn(run, prog, fname)
    if run.tier == 'thorough':
        run.rule('O2x', 'CRC-16: exhaustive 2^24 cross-check of the oracle identity', 1)
        exhaustive16(run, ctxs['crc16'], 'pytoniq_core/crypto/crc.py')
