"""C06 - typed Builder stores and Slice loads are mutually inverse and bit-exact.

Builder.store_x, Cell construction, Slice.load_x / preload_x are abstractly interpreted end to end: the stored value is an
opaque symbol (or a concrete representative of each byte-length class for variable integers), widths are enumerated
completely; the bit container is modelled as a list of typed segments, so "what was written" (width, signedness, order)
and "what comes back" (the very same symbol) are both observable.
"""
import ast
from ..core import AnalysisError
from ..front import Program
from ..interp import Interp
from ..values import *
from .. import cellmodel as cm

MANIFEST = dict(
    technique='abstract interpretation of Builder.store_* -> end_cell -> begin_parse -> Slice.load_*/preload_* with symbolic values over all widths 1..257; typed-segment model of the bit container; var-int length classes enumerated completely',
    text='Decides, for every width and every primitive, that the bits written are the TL-B encoding (width, signedness, order, minimal '
         'var-int length prefix, address layouts incl. anycast), that load returns the stored symbol and consumes exactly its bits, '
         'that preload returns what load returns without consuming, for maybe-refs/dicts/snake chains as well. Values are symbolic; '
         'the conversion int<->bits itself is the modelled library contract (bitarray.util.int2ba/ba2int).'
         ' Default-length string reads, snake strings with and without the prefix byte and preload_ref(k) at every cursor position are covered.'
         ' Snake strings whose text begins with, ends with or consists of U+0000 round-trip.',
    note='trusted: interpreter, model of bitarray/int2ba/ba2int. Not decided: UTF-8 handling, library behaviour.',
    design_ref='DESIGN.md section 4 C06')


class guard:
    """a scenario: an exception of the interpreted program is a violation of `rule`; an unsupported construct after a
    violation was already recorded in this scenario is ignored (the verdict is already decided)"""
    def __init__(self, run, rule, construct, where, what=''):
        self.run, self.rule, self.construct, self.where, self.what = run, rule, construct, where, what
        self.n0 = 0

    def __enter__(self):
        self.n0 = sum(1 for o in self.run.obl if not o['ok'])
        return self

    def __exit__(self, et, ev, tb):
        if et is None:
            return False
        if issubclass(et, RaiseEx):
            self.run.fail(self.rule, self.construct, f'{self.what}: raises {ev}', self.where)
            return True
        if issubclass(et, Fail) and sum(1 for o in self.run.obl if not o['ok']) > self.n0:
            return True
        return False


def builder(it):
    return it.construct(it.prog.cls('Builder'), [], {})


def call(it, obj, name, *args, **kw):
    return cm.call_method(it, obj, name, *args, **kw)


def segs_of(b):
    bits = b.attrs['_bits'] if '_bits' in b.attrs else b.attrs['bits']
    return bits.native.segs if isinstance(bits, Inst) else bits.segs


def to_slice(it, b):
    c = call(it, b, 'end_cell')
    return call(it, c, 'begin_parse')


def rem(it, s):
    r = it.getattr(s, 'remaining_bits')
    return r.v if isinstance(r, K) else None


def same(it, a, b):
    if a is b:
        return True
    if isinstance(a, K) and isinstance(b, K):
        return a.v == b.v and type(a.v) is type(b.v) or (isinstance(a.v, (int, bool)) and isinstance(b.v, (int, bool)) and int(a.v) == int(b.v))
    return False


def field_is(seg, n, v, signed):
    """is `seg` the n-bit big-endian field holding v?  For a value known to lie in [0, 2^(n-1)) the signed and the unsigned image are
    the same bits, so either kind of segment is that field"""
    if seg.n != n or seg.val is not v:
        return False
    if seg.kind == ('i' if signed else 'u'):
        return True
    r = getattr(v, 'bounds', None)
    return seg.kind in ('i', 'u') and r is not None and 0 <= r[0] and r[1] < (1 << (n - 1))


def check_fixed(run, prog, n, signed, pre, post, where):
    """store_(u)int(v, n) between `pre` and `post` unknown bits"""
    if not signed:
        return _check_fixed(run, prog, n, signed, pre, post, where, 0, (1 << n) - 1, '')
    # a signed field: once for any negative value that fits, once for any non-negative one (a reader that tests the sign bit and
    # subtracts 2^n is then followed without a case split inside the interpretation)
    _check_fixed(run, prog, n, signed, pre, post, where, -(1 << (n - 1)), -1, ',v<0')
    _check_fixed(run, prog, n, signed, pre, post, where, 0, (1 << (n - 1)) - 1, ',v>=0')


def _check_fixed(run, prog, n, signed, pre, post, where, lo, hi, half):
    it = Interp(prog)
    # the value is any integer that fits the field: its range is the scenario's premise
    # (a range of one value - the halves of a 1-bit signed field - is that constant)
    v = Sym('v', ty='int', not_none=True, key=('v',), lo=lo, hi=hi) if lo != hi else K(lo)
    b = builder(it)
    kind = 'int' if signed else 'uint'
    cons = f'Builder.store_{kind}/Slice.load_{kind}'
    if pre:
        call(it, b, 'store_bits', cm.data_bits(pre, 'pre'))
    try:
        call(it, b, f'store_{kind}', v, K(n))
    except RaiseEx as e:
        run.fail('D1', f'Builder.store_{kind}', f'store_{kind}(v, {n}) raises {e} for every v in [{lo}, {hi}] - values that fit the field', where)
        return
    if post:
        call(it, b, 'store_bits', cm.data_bits(post, 'post'))
    segs = [s for s in segs_of(b) if not (s.kind == '?')]
    if isinstance(v, K):
        image = format(v.v & ((1 << n) - 1), f'0{n}b')
        ok = ''.join(s_.val for s_ in segs if s_.kind == 'k') == image and all(s_.kind == 'k' for s_ in segs)
    else:
        ok = len(segs) == 1 and field_is(segs[0], n, v, signed)
    if not ok:
        run.fail('D1', f'Builder.store_{kind}', f'store_{kind}(v, {n}) wrote {segs_of(b)} - expected one {n}-bit {"signed" if signed else "unsigned"} big-endian field holding v unmodified', where)
        return
    with guard(run, 'D1', cons, where, f'n={n}'):
        s = to_slice(it, b)
        if pre:
            call(it, s, 'load_bits', K(pre))
        p = call(it, s, f'preload_{kind}', K(n))
        r0 = rem(it, s)
        l = call(it, s, f'load_{kind}', K(n))
        r1 = rem(it, s)
        good = same(it, p, v) and same(it, l, v) and r0 == n + post and r1 == post
        run.check(good, 'D1', cons if not good else f'{kind}[{n},pre={pre},post={post}{half}]',
                  f'n={n}: preload -> {vrepr(p)[:40]}, load -> {vrepr(l)[:40]}, remaining {r0}->{r1} (expected v, v, {n + post}->{post})', where)
        run.evaluations += 1


def var_len_spec(v, signed):
    if v == 0:
        return 0
    L = 0
    while True:
        L += 1
        if signed:
            if -(1 << (8 * L - 1)) <= v < (1 << (8 * L - 1)):
                return L
        elif v < (1 << (8 * L)):
            return L


def check_var(run, prog, v, bl, signed, where):
    it = Interp(prog)
    kind = 'var_int' if signed else 'var_uint'
    cons = f'Builder.store_{kind}'
    L = var_len_spec(v, signed)
    if L >= (1 << bl):
        return
    b = builder(it)
    try:
        call(it, b, f'store_{kind}', K(v), K(bl))
    except RaiseEx as e:
        run.fail('D3', cons, f'store_{kind}({v:#x}, {bl}) raises {e}; the value fits {L} byte(s)', where, witness=dict(value=v, bit_length=bl))
        return
    pat = ''.join(s.val if s.kind == 'k' else '?' * s.n for s in segs_of(b))
    if signed:
        body = format(v & ((1 << (8 * L)) - 1), f'0{8 * L}b') if L else ''
    else:
        body = format(v, f'0{8 * L}b') if L else ''
    want = format(L, f'0{bl}b') + body
    if pat != want:
        got_len = int(pat[:bl], 2) if len(pat) >= bl and '?' not in pat[:bl] else None
        run.fail('D3', cons, f'store_{kind}({v:#x}, {bl}) wrote length prefix {got_len} and {len(pat) - bl} value bits; TL-B minimal encoding: prefix {L}, {8 * L} bits', where,
                 witness=dict(value=v, bit_length=bl))
        return
    with guard(run, 'D3', f'Slice.load_{kind}', where, f'v={v:#x}'):
        s = to_slice(it, b)
        p = call(it, s, f'preload_{kind}', K(bl))
        r0 = rem(it, s)
        l = call(it, s, f'load_{kind}', K(bl))
        r1 = rem(it, s)
        good = isinstance(p, K) and p.v == v and isinstance(l, K) and l.v == v and r0 == len(want) and r1 == 0
        run.check(good, 'D3', f'Slice.load_{kind}' if not good else f'{kind}[{bl},L={L},v={"-" if v < 0 else ""}{abs(v):#x}]'[:80],
                  f'v={v:#x}: preload {vrepr(p)[:30]}, load {vrepr(l)[:30]}, remaining {r0}->{r1}', where)
        run.evaluations += 1


def check(run):
    prog = Program()
    wb = prog.where(prog.method('Builder', 'store_uint'))
    ws = prog.where(prog.method('Slice', 'load_uint'))
    thorough = run.tier == 'thorough'
    run.explanation = ('store -> end_cell -> begin_parse -> preload/load interpreted abstractly for every primitive; typed segments make '
                       'width/sign/order of what is written observable, symbols make "returns the same value" decidable.')
    run.rule('D1', 'store_uint/store_int write exactly one n-bit unsigned/two\'s-complement field with the value unmodified; load/preload return it; load consumes n bits, preload none', 500)
    run.rule('D3', 'variable-length integers and coins: minimal byte-length prefix then value (all byte-length classes incl. top-bit-set values); inverse reads', 200)
    run.rule('D4', 'addresses: addr_none$00, addr_extern$01 len:(## 9), addr_std$10 anycast:(Maybe Anycast) workchain_id:int8 address:bits256 - writer, reader and peek agree', 8)
    run.rule('D5', 'bits/bytes/strings/snake chains/optional refs/optional dicts round trip and leave nothing unread', 30)
    run.trust('CPython ast', 'checker interpreter', 'model of bitarray, int2ba/ba2int (big-endian two\'s complement, range-checked)')
    run.exhaustive = True

    # ---- D1 fixed-width integers, every width 1..257, three alignments
    for n in range(1, 258):
        for signed in (False, True):
            aligns = [(0, 0), (3, 5)] if (n % 8 in (0, 1, 7) or n > 250 or thorough) else [(0, 0)]
            for pre, post in aligns:
                if pre + n + post <= 1023:
                    check_fixed(run, prog, n, signed, pre, post, wb)
    # concrete range behaviour through the same path (int2ba contract reached with the right signed flag)
    it = Interp(prog)
    for n in (1, 8, 32, 256):
        for kind, lo, hi in (('uint', 0, (1 << n) - 1), ('int', -(1 << (n - 1)), (1 << (n - 1)) - 1)):
            for v, fits in ((lo, True), (hi, True), (lo - 1, False), (hi + 1, False)):
                b = builder(it)
                try:
                    call(it, b, f'store_{kind}', K(v), K(n))
                    got = True
                    s = to_slice(it, b)
                    back = call(it, s, f'load_{kind}', K(n))
                    got = isinstance(back, K) and back.v == v
                except RaiseEx:
                    got = False
                run.check(got == fits, 'D1', f'Builder.store_{kind}' if got != fits else f'range:{kind}{n}:{"in" if fits else "out"}:{v < 0}',
                          f'store_{kind}({v}, {n}) {"accepted and read back" if got else "rejected"}; must be {"accepted" if fits else "rejected"}', wb)

    # ---- D3 var ints: every byte-length class x boundary values
    for bl, signed in ((4, False), (5, False), (4, True), (5, True), (3, False), (3, True)):
        maxL = (1 << bl) - 1
        vals = {0}
        for L in range(1, maxL + 1):
            if not thorough and L > 3 and L not in (7, 8, 15, 16, maxL - 1, maxL) and bl > 3:
                continue
            if signed:
                vals |= {(1 << (8 * L - 1)) - 1, -(1 << (8 * L - 1)), 1 << (8 * L - 8) if L > 1 else 1, -(1 << (8 * L - 8)) - 1 if L > 1 else -1,
                         (1 << (8 * L - 1)) - 5, -(1 << (8 * L - 1)) + 3}
                if L < maxL:
                    vals |= {1 << (8 * L - 1), -(1 << (8 * L - 1)) - 1}
            else:
                vals |= {1 << (8 * L - 8), (1 << (8 * L)) - 1, (1 << (8 * L - 1)), (1 << (8 * L - 1)) - 1}
        for v in sorted(vals):
            check_var(run, prog, v, bl, signed, wb)
    # coins
    for v in (0, 1, 255, 256, 10 ** 9, (1 << 120) - 1):
        with guard(run, 'D3', 'Builder.store_coins/Slice.load_coins', wb, f'coins {v}'):
            it = Interp(prog)
            b = builder(it)
            call(it, b, 'store_coins', K(v))
            L = var_len_spec(v, False)
            pat = ''.join(s.val for s in segs_of(b))
            want = format(L, '04b') + (format(v, f'0{8 * L}b') if L else '')
            s = to_slice(it, b)
            p = call(it, s, 'preload_coins')
            l = call(it, s, 'load_coins')
            good = pat == want and isinstance(l, K) and l.v == v and isinstance(p, K) and p.v == v and rem(it, s) == 0
            run.check(good, 'D3', 'Builder.store_coins/Slice.load_coins' if not good else f'coins[{v:#x}]', f'coins {v}: wrote {pat[:12]}.. read {vrepr(l)}', wb)

    # ---- D5 bits / bytes / strings
    it = Interp(prog)
    for nbytes in (0, 1, 32, 127):
        with guard(run, 'D5', 'Builder.store_bytes/Slice.load_bytes', wb, f'{nbytes} bytes'):
            raw = Sym(f'raw{nbytes}', ty='bytes', n=nbytes, key=('raw', nbytes))
            b = builder(it)
            call(it, b, 'store_bits', cm.data_bits(3, 'x'))
            call(it, b, 'store_bytes', raw)
            s = to_slice(it, b)
            call(it, s, 'load_bits', K(3))
            p = call(it, s, 'preload_bytes', K(nbytes))
            l = call(it, s, 'load_bytes', K(nbytes))
            good = (nbytes == 0 or (p is raw and l is raw)) and rem(it, s) == 0
            run.check(good, 'D5', 'Builder.store_bytes/Slice.load_bytes' if not good else f'bytes[{nbytes}]', f'{nbytes} bytes: preload {vrepr(p)[:30]} load {vrepr(l)[:30]} remaining {rem(it, s)}', wb)
    for text in ('', 'a', 'hello world', 'x' * 127):
        with guard(run, 'D5', 'Builder.store_string/Slice.load_string', wb, 'string'):
            b = builder(it)
            call(it, b, 'store_string', K(text))
            s = to_slice(it, b)
            p = call(it, s, 'preload_string', K(len(text.encode())))
            l = call(it, s, 'load_string', K(len(text.encode())))
            good = isinstance(l, K) and l.v == text and isinstance(p, K) and p.v == text and rem(it, s) == 0
            run.check(good, 'D5', 'Builder.store_string/Slice.load_string' if not good else f'string[{len(text)}]', f'read back {vrepr(l)[:30]}', wb)
        with guard(run, 'D5', 'Builder.store_string/Slice.load_string', wb, 'string, default length'):
            # the default length means "the rest of the slice": after a leading field, the peek and the read return the text and the read leaves nothing
            text = text[:126]          # one byte of the cell goes to the leading field
            b = builder(it)
            call(it, b, 'store_uint', K(5), K(8))
            call(it, b, 'store_string', K(text))
            s = to_slice(it, b)
            call(it, s, 'load_uint', K(8))
            p = call(it, s, 'preload_string')
            before = rem(it, s)
            l = call(it, s, 'load_string')
            good = isinstance(l, K) and l.v == text and isinstance(p, K) and p.v == text and before == 8 * len(text.encode()) and rem(it, s) == 0
            run.check(good, 'D5', 'Slice.load_string[default length]' if not good else f'string-default[{len(text)}]',
                      f'load_string() after a uint8: peek {vrepr(p)[:24]}, read {vrepr(l)[:24]}, bits left {rem(it, s)} (must be 0)', wb)
    for nb in (1, 2, 9, 1023):
        with guard(run, 'D5', 'Builder.store_bits/Slice.load_bits', wb, f'{nb} bits'):
            d = cm.data_bits(nb, 'payload')
            b = builder(it)
            call(it, b, 'store_bits', d)
            s = to_slice(it, b)
            p = call(it, s, 'preload_bits', K(nb))
            l = call(it, s, 'load_bits', K(nb))
            pn = p.native if isinstance(p, Inst) else p
            ln = l.native if isinstance(l, Inst) else l
            good = isinstance(ln, BA) and ln.desc() == d.desc() and pn.desc() == d.desc() and rem(it, s) == 0
            run.check(good, 'D5', 'Builder.store_bits/Slice.load_bits' if not good else f'bits[{nb}]', f'{nb} bits back: {ln!r}'[:80], wb)
    # single bit / bool
    for meth_s, meth_l, meth_p in (('store_bit', 'load_bit', 'preload_bit'), ('store_bool', 'load_bool', 'preload_bool'), ('store_bit_int', 'load_bit', 'preload_bit')):
        for bit in (0, 1):
            with guard(run, 'D5', f'Builder.{meth_s}/Slice.{meth_l}', wb, f'bit {bit}'):
                b = builder(it)
                call(it, b, meth_s, K(bool(bit)) if 'bool' in meth_s else K(bit))
                s = to_slice(it, b)
                p = call(it, s, meth_p)
                l = call(it, s, meth_l)
                good = isinstance(l, K) and int(l.v) == bit and isinstance(p, K) and int(p.v) == bit and rem(it, s) == 0
                run.check(good, 'D5', f'Builder.{meth_s}/Slice.{meth_l}' if not good else f'{meth_s}[{bit}]', f'{bit} -> {vrepr(l)}', wb)
    # snake bytes: all chunk boundaries at several fill levels
    for fill in (0, 8, 13, 1000, 1015, 1016, 1023):      # from 1016 bits on the head cell has no room for a byte: the whole string lives in the chain
        for ln_ in (0, 1, 126, 127, 128, 129, 254, 255, 300) if not thorough else list(range(0, 400, 7)) + [127, 128, 254, 255]:
            it = Interp(prog)
            payload = bytes((i * 7 + 3) % 256 for i in range(ln_))
            b = builder(it)
            if fill:
                call(it, b, 'store_bits', cm.data_bits(fill, 'fill'))
            try:
                call(it, b, 'store_snake_bytes', K(payload))
                s = to_slice(it, b)
                if fill:
                    call(it, s, 'load_bits', K(fill))
                if fill % 8 == 0 or True:
                    # reader requires whole bytes in every cell of the chain
                    rb = rem(it, s)
                    if rb is not None and rb % 8 == 0:
                        l = call(it, s, 'load_snake_bytes')
                        good = isinstance(l, K) and l.v == payload and rem(it, s) == 0 and it.getattr(s, 'remaining_refs').v == 0
                    else:
                        good = True
                run.check(good, 'D5', 'Builder.store_snake_bytes/Slice.load_snake_bytes' if not good else f'snake[fill={fill},len={ln_}]',
                          f'{ln_} bytes after {fill} bits: read back {len(l.v) if isinstance(l, K) and isinstance(l.v, bytes) else vrepr(l)[:30]} bytes', wb)
            except RaiseEx as e:
                run.fail('D5', 'Builder.store_snake_bytes/Slice.load_snake_bytes', f'{ln_} bytes after {fill} bits: {e}', wb)
            run.evaluations += 1
    # optional references / dictionaries
    for meth_s, meth_l, meth_p in (('store_maybe_ref', 'load_maybe_ref', 'preload_maybe_ref'), ('store_dict', 'load_maybe_ref', 'preload_maybe_ref')):
        it = Interp(prog)
        kid = cm.leaf(it, 5, 'kid')
        for val in (None, kid):
            with guard(run, 'D5', f'Builder.{meth_s}/Slice.{meth_l}', wb, 'optional reference'):
                b = builder(it)
                call(it, b, meth_s, K(None) if val is None else val)
                call(it, b, 'store_uint', K(5), K(3))
                segs = segs_of(b)
                nrefs = len(it.getattr(b, 'refs').items)
                s = to_slice(it, b)
                p = call(it, s, meth_p)
                l = call(it, s, meth_l)
                tail = call(it, s, 'load_uint', K(3))
                rr = it.getattr(s, 'remaining_refs')
                good = segs and segs[0].kind == 'k' and segs[0].val[0] == ('0' if val is None else '1') and nrefs == (0 if val is None else 1) \
                    and ((val is None and isinstance(l, K) and l.v is None and isinstance(p, K) and p.v is None) or (val is not None and l is kid and p is kid)) \
                    and isinstance(tail, K) and tail.v == 5 and isinstance(rr, K) and rr.v == 0
                run.check(good, 'D5', f'Builder.{meth_s}/Slice.{meth_l}' if not good else f'{meth_s}[{"none" if val is None else "cell"}]',
                          f'{"absent" if val is None else "present"}: presence bit {segs[0].val[0] if segs and segs[0].kind == "k" else "?"}, refs {nrefs}, load -> {vrepr(l)[:20]}', wb)
    # the same pairs on a partly consumed slice (bit cursor and reference cursor both advanced): peek must still equal read
    for nskip in (1, 2, 3):
        it = Interp(prog)
        kids = [cm.leaf(it, 3 + i, f'k{i}') for i in range(4)]
        with guard(run, 'D5', 'Slice.preload_maybe_ref/preload_ref[advanced cursor]', ws, 'peek after consumed references'):
            b = builder(it)
            call(it, b, 'store_uint', K(9), K(7))
            for k in kids[:nskip]:
                call(it, b, 'store_ref', k)
            call(it, b, 'store_maybe_ref', kids[3])
            s = to_slice(it, b)
            call(it, s, 'load_uint', K(7))
            for _ in range(nskip):
                call(it, s, 'load_ref')
            p = call(it, s, 'preload_maybe_ref')
            pr = call(it, s, 'preload_ref')
            l = call(it, s, 'load_maybe_ref')
            good = p is kids[3] and l is kids[3] and pr is kids[3] and rem(it, s) == 0
            run.check(good, 'D5', 'Slice.preload_maybe_ref/preload_ref[advanced cursor]' if not good else f'peek-after-{nskip}-refs',
                      f'after {nskip} consumed reference(s): preload_maybe_ref -> {vrepr(p)[:20]}, preload_ref -> {vrepr(pr)[:20]}, load_maybe_ref -> {vrepr(l)[:20]} (all must be the stored cell)', wb)
    # preload_ref(k): the k-th reference not yet consumed, for every cursor position; nothing is consumed
    for nskip in (0, 1, 2):
        it = Interp(prog)
        kids = [cm.leaf(it, 3 + i, f'k{i}') for i in range(4)]
        with guard(run, 'D5', 'Slice.preload_ref[offset]', ws, 'peek at a later reference'):
            b = builder(it)
            for k in kids:
                call(it, b, 'store_ref', k)
            s = to_slice(it, b)
            for _ in range(nskip):
                call(it, s, 'load_ref')
            got = [call(it, s, 'preload_ref', K(off)) for off in range(4 - nskip)]
            nxt = call(it, s, 'load_ref')
            good = all(g is kids[nskip + off] for off, g in enumerate(got)) and nxt is kids[nskip]
            run.check(good, 'D5', 'Slice.preload_ref[offset]' if not good else f'preload_ref-offset[after {nskip}]',
                      f'after {nskip} consumed reference(s): preload_ref(0..{3 - nskip}) -> {[vrepr(g)[:12] for g in got]}, then load_ref -> {vrepr(nxt)[:12]}', wb)
    # snake strings with and without the zero prefix byte
    # (texts that begin with U+0000 / end with it / consist of it: the characters of the text are data, whatever byte value they have)
    for text in ('', 'a', 'snake ' * 40, 'z' * 127, 'z' * 128, '\x00', '\x00abc', 'abc\x00', '\x00' * 3, '\x00' + 'q' * 130, '\u00e9\x00\u20ac'):
        for prefix in (False, True):
            it = Interp(prog)
            with guard(run, 'D5', 'Builder.store_snake_string/Slice.load_snake_string', wb, 'snake string'):
                b = builder(it)
                call(it, b, 'store_snake_string', K(text), K(prefix)) if prefix else call(it, b, 'store_snake_string', K(text))
                s = to_slice(it, b)
                first = call(it, s, 'load_uint', K(8)) if prefix else None
                l = call(it, s, 'load_snake_string')
                good = isinstance(l, K) and l.v == text and (not prefix or (isinstance(first, K) and first.v == 0)) and rem(it, s) == 0
                run.check(good, 'D5', 'Builder.store_snake_string/Slice.load_snake_string' if not good else f'snake-string[len={len(text)},prefix={int(prefix)}]',
                          f'{len(text)} characters, need_prefix={prefix}: prefix byte {vrepr(first)}, read back {vrepr(l)[:24]}, bits left {rem(it, s)}', wb)
    # load_dict on an absent dictionary consumes one bit and no reference
    it = Interp(prog)
    b = builder(it)
    call(it, b, 'store_dict', K(None))
    s = to_slice(it, b)
    pd = call(it, s, 'preload_dict', K(32))
    ld = call(it, s, 'load_dict', K(32))
    good = isinstance(ld, K) and ld.v is None and isinstance(pd, K) and pd.v is None and rem(it, s) == 0
    run.check(good, 'D5', 'Slice.load_dict' if not good else 'load_dict[absent]', f'absent dict -> {vrepr(ld)}', ws)

    # ---- D4 addresses
    wa = prog.where(prog.method('Builder', 'store_address'))
    it = Interp(prog)
    # addr_none
    b = builder(it)
    call(it, b, 'store_address', K(None))
    pat = ''.join(s.val if s.kind == 'k' else '?' for s in segs_of(b))
    s = to_slice(it, b)
    p = call(it, s, 'preload_address')
    l = call(it, s, 'load_address')
    good = pat == '00' and isinstance(l, K) and l.v is None and isinstance(p, K) and p.v is None and rem(it, s) == 0
    run.check(good, 'D4', 'store_address/load_address[addr_none]' if not good else 'addr_none', f'wrote {pat!r}, read {vrepr(l)}', wa)
    # an external address whose value is 0 is still an address (addr_extern$01 len n, n zero bits), not addr_none
    EA = prog.cls('ExternalAddress')
    for n in (1, 8, 77):
        for route in ('store_address', 'to_cell'):
            it = Interp(prog)
            with guard(run, 'D4', f'{route}/load_address[addr_extern, value 0]', wa, f'len {n}'):
                ea = it.construct(EA, [K(0), K(n)], {})
                b = builder(it)
                if route == 'store_address':
                    call(it, b, 'store_address', ea)
                else:
                    call(it, b, 'store_cell', call(it, ea, 'to_cell'))
                pat = ''.join(sg.val if sg.kind == 'k' else '?' * sg.n for sg in segs_of(b))
                want = '01' + format(n, '09b') + '0' * n
                s = to_slice(it, b)
                l = call(it, s, 'load_address')
                okr = isinstance(l, Inst) and isinstance(l.attrs.get('external_address'), K) and l.attrs['external_address'].v == 0 and isinstance(l.attrs.get('len'), K) and l.attrs['len'].v == n
                good = pat == want and okr and rem(it, s) == 0
                run.check(good, 'D4', f'{route}/load_address[addr_extern, value 0]' if not good else f'addr_extern-zero[{route},len={n}]',
                          f'ExternalAddress(0, {n}): wrote {pat[:24]!r}..., TL-B encoding {want[:24]!r}...; read back {"the same address" if okr else vrepr(l)[:40]}', wa)
    # addr_extern, several lengths
    for n in (1, 8, 9, 256, 511):
        it = Interp(prog)
        ext = Sym('ext', ty='int', not_none=True, key=('ext',), lo=0, hi=(1 << n) - 1)
        ea = it.construct(EA, [ext, K(n)], {})
        for route in ('store_address', 'to_cell'):
            with guard(run, 'D4', f'{route}/load_address[addr_extern]', wa, f'len {n}'):
                b = builder(it)
                if route == 'store_address':
                    call(it, b, 'store_address', ea)
                    segs = segs_of(b)
                else:
                    c = call(it, ea, 'to_cell')
                    segs = c.attrs['bits'].native.segs
                    call(it, b, 'store_cell', c)
                okw = len(segs) == 2 and segs[0].kind == 'k' and segs[0].val == '01' + format(n, '09b') and segs[1].kind == 'u' and segs[1].n == n and segs[1].val is ext
                if not okw:
                    run.fail('D4', f'{route}/load_address[addr_extern]', f'len {n}: wrote {segs}; TL-B addr_extern$01 len:(## 9) external_address:(bits len)', wa)
                    continue
                s = to_slice(it, b)
                try:
                    p = call(it, s, 'preload_address')
                    r0 = rem(it, s)
                    l = call(it, s, 'load_address')
                    okr = isinstance(l, Inst) and l.cls.name == 'ExternalAddress' and l.attrs.get('external_address') is ext and same(it, l.attrs.get('len'), K(n)) and rem(it, s) == 0
                    pe = p.attrs.get('external_address') if isinstance(p, Inst) else None
                    okp = isinstance(p, Inst) and p.cls.name == 'ExternalAddress' and same(it, p.attrs.get('len'), K(n)) and r0 == 11 + n and \
                        (pe is ext or (isinstance(pe, Term)))
                except RaiseEx as e:
                    okr = okp = False
                    l = e
                good = okw and okr and okp
                run.check(good, 'D4', f'{route}/load_address[addr_extern]' if not good else f'addr_extern[{route},{n}]',
                          f'len {n}: layout ok={okw} (segments {segs}), load ok={okr}, preload ok={okp}', wa)
    # addr_std without / with anycast
    A = prog.cls('Address')
    # (the workchain is any negative / any non-negative int8: a reader that tests the sign bit is followed without an inner case split)
    for anycast, (wlo, whi) in [(a_, r_) for a_ in (None, (3, 5), (30, 0x2AAAAAAA)) for r_ in ((-128, -1), (0, 127))]:
        it = Interp(prog)
        wc = Sym('wc', ty='int', not_none=True, key=('wc',), lo=wlo, hi=whi)
        hp = Sym('hash_part', ty='bytes', n=32, key=('hp',))
        addr = it.construct(A, [ListV([wc, hp], tup=True)], {})
        if anycast:
            call(it, addr, 'set_anycast', K(anycast[0]), K(anycast[1]))
        want = '10' + ('0' if not anycast else '1' + format(anycast[0], '05b') + format(anycast[1], f'0{anycast[0]}b'))
        tag = ('plain' if not anycast else f'anycast{anycast[0]}') + (',wc<0' if whi < 0 else ',wc>=0')
        b = builder(it)
        call(it, b, 'store_address', addr)
        segs = segs_of(b)
        head = ''.join(s.val for s in segs if s.kind == 'k')
        okw = head == want and len(segs) == 3 and field_is(segs[1], 8, wc, True) and segs[2].kind == 'b' and segs[2].n == 256 and segs[2].val is hp
        run.check(okw, 'D4', 'Builder.store_address[addr_std' + (',anycast]' if anycast else ']') if not okw else f'addr_std-write[{tag}]',
                  f'wrote header {head!r} + {[repr(s) for s in segs[1:]]}; TL-B: {want!r} int8 bits256' + (' (the anycast of the address is dropped)' if anycast and head == '100' else ''), wa,
                  witness=dict(anycast=anycast))
        # reader on the TL-B bits (built by hand from the schema)
        b2 = builder(it)
        call(it, b2, 'store_bits', K(want))
        call(it, b2, 'store_int', wc, K(8))
        call(it, b2, 'store_bytes', hp)
        call(it, b2, 'store_uint', K(1), K(1))
        s = to_slice(it, b2)
        wl = prog.where(prog.method('Slice', 'load_address'))
        try:
            s2 = call(it, s, 'copy')
            l = call(it, s2, 'load_address')
            ac = cm.field(it, l, 'anycast') if isinstance(l, Inst) else None
            okl = isinstance(l, Inst) and cm.field(it, l, 'wc') is wc and cm.field(it, l, 'hash_part') is hp and rem(it, s2) == 1 and \
                ((not anycast and isinstance(ac, K) and ac.v is None) or (anycast and isinstance(ac, Inst) and same(it, ac.attrs.get('depth'), K(anycast[0])) and same(it, ac.attrs.get('rewrite_pfx'), K(anycast[1]))))
            why = f'load_address -> wc {vrepr(l.attrs.get("wc"))}, anycast {ac!r}' if isinstance(l, Inst) else vrepr(l)
        except RaiseEx as e:
            okl, why = False, f'load_address raises {e}'
        run.check(okl, 'D4', 'Slice.load_address[addr_std' + (',anycast]' if anycast else ']') if not okl else f'addr_std-load[{tag}]', why, wl)
        try:
            p = call(it, s, 'preload_address')
            ac = cm.field(it, p, 'anycast') if isinstance(p, Inst) else None
            okp = isinstance(p, Inst) and cm.field(it, p, 'wc') is wc and cm.field(it, p, 'hash_part') is hp and rem(it, s) == len(want) + 8 + 256 + 1 and \
                ((not anycast and isinstance(ac, K) and ac.v is None) or (anycast and isinstance(ac, Inst)))
            why = f'preload_address -> {vrepr(p)[:40]} anycast {ac!r}'
        except RaiseEx as e:
            okp, why = False, f'preload_address raises {e} where load_address accepts'
        run.check(okp, 'D4', 'Slice.preload_address[addr_std' + (',anycast]' if anycast else ']') if not okp else f'addr_std-preload[{tag}]', why,
                  prog.where(prog.method('Slice', 'preload_address')))
        # Address.to_cell
        if not anycast:
            c = call(it, addr, 'to_cell')
            sg = c.attrs['bits'].native.segs
            okc = len(sg) == 3 and sg[0].val == '100' and sg[1].val is wc and sg[2].val is hp
            run.check(okc, 'D4', 'Address.to_cell' if not okc else 'Address.to_cell', f'{sg}', prog.where(prog.method('Address', 'to_cell')))
        run.evaluations += 4
    # one account in several forms, stored one after the other in the same process: what is written depends on the address given, not on
    # what was stored before (an encoding kept per `Address` - whose equality ignores the anycast - would repeat the first form)
    it = Interp(prog)
    wc = Sym('wc', ty='int', not_none=True, key=('wc',), lo=-128, hi=-1)
    hp = Sym('hash_part', ty='bytes', n=32, key=('hp',))
    seq_ok, seq_why = True, []
    for step, anycast in enumerate((None, (3, 5), None, (30, 0x2AAAAAAA), (3, 6))):
        addr = it.construct(A, [ListV([wc, hp], tup=True)], {})
        if anycast:
            call(it, addr, 'set_anycast', K(anycast[0]), K(anycast[1]))
        want = '10' + ('0' if not anycast else '1' + format(anycast[0], '05b') + format(anycast[1], f'0{anycast[0]}b'))
        b = builder(it)
        try:
            call(it, b, 'store_address', addr)
            segs = segs_of(b)
            head = ''.join(s_.val for s_ in segs if s_.kind == 'k')
        except RaiseEx as e:
            head = f'raises {e}'
        if head != want:
            seq_ok = False
            seq_why.append(f'store #{step + 1} ({"plain" if not anycast else "anycast " + str(anycast)}) wrote header {head!r}, expected {want!r}')
        run.evaluations += 1
    run.check(seq_ok, 'D4', 'Builder.store_address[same account, several forms in sequence]' if not seq_ok else 'addr_std-write[history: plain, anycast, plain, anycast, anycast]',
              '; '.join(seq_why) or 'five stores of one account in different forms, each written as given', wa)
    # friendly-string input to store_address goes through Address(...)
    it = Interp(prog)
    b = builder(it)
    call(it, b, 'store_address', K('0:' + '11' * 32))
    pat = ''.join(s.val for s in segs_of(b) if s.kind == 'k')
    run.check(pat == '100' + '0' * 8 + '00010001' * 32, 'D4', 'Builder.store_address[str]' if pat != '100' + '0' * 8 + '00010001' * 32 else 'addr_std[str]', f'raw string address -> {len(pat)} bits', wa)
